"""C07 — the launched channel set survives the path intact; channel order is irrelevant.

Correspondence (class E throughout: integer-Hz frequencies, labels, error kinds):
  SpectralInformation construction (create_arbitrary_spectral_information / carriers_to_spectral_information)
      vs Gnpy.Bands.mkSpectrum;   create_input_spectral_information vs gridChans;   is_in_band / demuxed_spectral_information vs inBand / demux;
  muxed_spectral_information vs mux;   utils.find_common_range vs commonRange;   request.filter_si vs filterSi;
  Edfa.__call__ / Multiband_amplifier.__call__ vs Elem.call;   request.propagate (channel identity) vs propagate.
Monitor (independent arithmetic on integers): accepted iff no two slots overlap and no baud > slot; the accepted
spectrum is the strictly sorted launched set, each channel with its own baud rate, slot width, label, tx power, tx
OSNR, offset, roll-off; channels are removed exactly when some amplifier of the path has no band holding their slot,
once, before the first element; every element returns the channel list it was given; the receiver gets every
remaining channel exactly once in frequency order; a shuffled launch order gives bit-identical per-channel results.
"""
import copy
import itertools
import random as _random

import numpy as np

from common.util import Result, err_kind
from common import nets, specrec as S

ID = 'C07'
N = {'quick': 3000, 'thorough': 60000}
LEAN_MODULES = ['GnpyProofs.Props.C07']
THEOREMS = [f'Gnpy.Bands.{t}' for t in (
    'mk_sorted_perm', 'mk_strictly_sorted', 'mk_error_kind', 'mk_accepts_iff', 'mk_rejects_iff', 'mk_rejects_overlap',
    'mk_rejects_baud', 'mk_order_irrelevant', 'propagate_order_irrelevant', 'demux_sublist', 'mux_spec', 'mux_demux',
    'commonRange_spec', 'commonRange_disjoint', 'filterSi_spec', 'filter_idempotent', 'edfaCall_id', 'multibandCall_id',
    'multiband_no_dup', 'multiband_overlap_rejects', 'path_preserves_channels', 'propagate_spec', 'propagate_rejects', 'grid_valid', 'gridSpectrum_ok', 'grid_inside',
    'loaded_multiband_wf', 'loaded_typed_default_wf', 'loaded_partial_not_wf', 'designed_multiband_wf', 'designed_wf',
    'propagate_spec_designed')]
RULE = ('cases from one PRNG: (00) "build": ROADM chains whose multiband elements are declared in every way the loader accepts '
        '(typed with all member amplifiers in library or reversed order, typed with a partial list, typed without '
        'amplifiers, untyped and left to the auto-design; 5 stock multiband varieties; design bands listed C,L or L,C): '
        'params.bands, the first band of every amplifier and the amplifier keys after network_from_json and again after the '
        'design vs loadMultiband / designMultiband; (01) "reuse": ONE PathRequest propagated on 2-3 '
        'paths in succession (request.propagate called repeatedly, propagate_and_optimize_mode, and a bidirectional '
        'service through compute_path_dsjctn / compute_path_with_disjunction with fixed or automatic mode) on chains whose two '
        'directions carry amplifiers of different bands; (0) "grid": create_input_spectral_information on uniform grids of 0-76 channels whose f_max '
        'sits on / just before / just after a grid step, baud rate below, at and above the spacing; (a) "ctor": 1-12 (thorough: up to 60) carriers with integer-Hz frequencies, mixed baud/slot, '
        'slots touching, gaps, and with probability ~1/3 a defect (same frequency twice, overlapping slots, baud > slot), '
        'supplied in random order, through both constructors; (b) "bands": a valid spectrum against 1-4 random bands '
        '(edges on slot edges, inside slots, disjoint or overlapping), demux per band and mux of the parts in random order; '
        '(c) "common": find_common_range on 0-5 amplifiers with 1-3 bands each (unsorted, duplicates, touching, nested, '
        'with/without spacing) probed with channels on every produced and given band edge; (d) "path": request.propagate on auto-designed C+L chains without '
        'declared amplifiers (ROADMs with full-L or reduced-L design bands and booster restrictions: auto-inserted multiband '
        'amplifiers of two band sets in one network, carriers in the difference of the sets) and on '
        'designed ROADM chains whose hops are single-band (C, reduced C, L) or multi-band (4 stock multiband varieties) '
        'and on the shipped multiband / mesh examples, carriers over C+L incl. edge-aligned ones (slot edge exactly on a '
        'common-range edge, or 6.25 GHz beyond), in band gaps and outside, run a second time with shuffled launch order; '
        '(e) "call": Edfa/Multiband_amplifier.__call__ directly on spectra that are partly out of band; (f) malformed: '
        'overlapping / too-wide carriers through propagate (SpectrumError), no common range or no carrier inside it '
        '(ValueError), empty merge (ValueError). Non-trivial: ctor with >= 2 channels supplied out of order or rejected; '
        'bands with >= 1 channel selected and >= 1 dropped; common with >= 2 amplifiers; path with >= 1 channel removed '
        'and >= 1 kept across >= 1 amplifier; distinct = canonical JSON of the case')
MODEL_SCOPE = ('modelled: how a multiband element is built (json_io._update_band, the Multiband_amplifier branch of '
               'network_from_json, Multiband_amplifier.__init__, find_band_name, the per-band amplifier creation and the '
               'params.bands overwrite of network.set_egress_amplifier; the amplifier variety chosen per band is an input); '
               'SpectralInformation.__init__ (argsort, overlap and baud checks, common permutation of all per-channel '
               'arrays), __add__, select_channels, is_in_band, demuxed_/muxed_spectral_information, utils.find_common_range '
               '(sort, remove_duplicates, pairwise intersection rounds, calculate_spacing without design bands), '
               'request.find_elements_common_range / filter_si / propagate (channel set), Edfa.__call__ and '
               'Multiband_amplifier.__call__ band dispatch. Not modelled: bands lacking f_min/f_max '
               '(filter_valid_amp_bands is the identity on loader-built amplifiers), numpy argsort order among equal '
               'frequencies (such input is rejected when slot widths are positive), the numeric content of the elements '
               '(C01-C06)')

G = S.G
CBAND = (191_300_000_000_000, 196_100_000_000_000)
WIDE = [(185_900_000_000_000, 190_400_000_000_000), (190_900_000_000_000, 196_400_000_000_000)]
MB = S.MB
SINGLE = S.SINGLE


# ---------------------------------------------------------------------------------------------------------------------
# generator
# ---------------------------------------------------------------------------------------------------------------------

def gen(rng, tier, widen=False):
    k = rng.random()
    if k < 0.05:
        return gen_grid(rng)
    if k < 0.09:
        return gen_build(rng)
    if k < 0.12:
        return gen_reuse(rng)
    if k < 0.30:
        return gen_ctor(rng, tier)
    if k < 0.45:
        return gen_bands(rng, tier)
    if k < 0.62:
        return gen_common(rng)
    if k < 0.84:
        return gen_path(rng, tier)
    if k < 0.90:
        return gen_call(rng, tier)
    return gen_malformed(rng, tier)


def _carriers(rng, bands, n, unique=True):
    car = S.gen_carriers(rng, bands, n)
    for k, c in enumerate(car):
        c['label'] = f'ch{k}'
        c['tx_power'] = 1e-3 * (1 + k / 64.0)
        c['delta_pdb'] = rng.choice([0.0, 0.0, 0.5 * (k % 5)])
    return car


def gen_ctor(rng, tier):
    n = rng.choice([1, 2, 3, 4, 6, 12 if tier == 'quick' else 60])
    car = _carriers(rng, [rng.choice(WIDE)] if rng.random() < 0.6 else WIDE, n)
    defect = None
    if car and rng.random() < 0.36:
        defect = rng.choice(['dup', 'overlap', 'overlap_edge', 'baud', 'baud_eq'])
        i = rng.randrange(len(car))
        c = copy.deepcopy(car[i])
        c['label'] = 'x'
        if defect == 'dup':
            car.append(c)
        elif defect == 'overlap':
            c['f'] += rng.choice([1, 2, 3]) * G
            car.append(c)
        elif defect == 'overlap_edge':   # one grid step into the neighbour / exactly touching (legal)
            c['f'] += c['slot'] - rng.choice([0, G])
            car.append(c)
        elif defect == 'baud':
            car[i]['baud'] = car[i]['slot'] + rng.choice([1, 1_000_000_000])
        else:
            car[i]['baud'] = car[i]['slot']          # equal is legal
    rng.shuffle(car)
    return {'kind': 'ctor', 'car': car, 'defect': defect, 'via': rng.choice(['arrays', 'arrays', 'dict'])}


def gen_grid(rng):
    spacing = rng.choice([4, 6, 8, 12, 16]) * 2 * G
    fmin = 191_300_000_000_000 + rng.choice([0, G, 25_000_000_000])
    n = rng.choice([0, 1, 2, 5, 20, 76])
    fmax = fmin + n * spacing + rng.choice([0, 0, G, spacing - G, -G])
    baud = rng.choice([b for b in S.BAUDS if b <= spacing] + [spacing, spacing + 1_000_000_000])
    return {'kind': 'grid', 'fmin': fmin, 'fmax': fmax, 'spacing': spacing, 'baud': baud}


BUILD_KINDS = ['typed_full', 'typed_rev', 'typed_none', 'typed_subset_c', 'typed_subset_l', 'untyped_none']


def gen_build(rng):
    """a ROADM chain whose multiband elements are declared in every way the loader accepts: typed with all member
    amplifiers (library order or reversed), typed with a partial amplifier list, typed without amplifiers, untyped
    (left to the auto-design)"""
    hops = []
    for _ in range(rng.choice([1, 1, 2])):
        var = rng.choice(list(MB))
        hops.append([[rng.choice(BUILD_KINDS), var] for _ in range(rng.choice([2, 3, 4]))])
    return {'kind': 'build', 'hops': hops, 'design_bands_l_first': rng.random() < 0.5}


def gen_reuse(rng):
    """ONE request object propagated on several paths in succession (both directions of a bidirectional service, or any
    caller that reuses a request) on a chain whose two directions have different common amplifier ranges"""
    nh = rng.choice([1, 1, 2])
    hops = []
    for _ in range(nh):
        e, w = rng.sample(SINGLE[:4], 2)
        east, west = ['ed', e], ['ed', w]
        if rng.random() < 0.3:
            east = ['mb', rng.choice(list(MB))]
        elif rng.random() < 0.2:
            west = ['mb', rng.choice(list(MB))]
        hops.append({'amp': east, 'amp_w': west, 'namp': 2})
    how = rng.choice(['propagate', 'propagate', 'bidir_fixed', 'bidir_auto', 'optimize'])
    return {'kind': 'reuse', 'hops': hops, 'how': how, 'order': rng.sample(['ez', 'ze', 'ez2'], rng.choice([2, 3])),
            'grid': rng.random() < 0.5 or how != 'propagate', 'spacing': rng.choice([50_000_000_000, 75_000_000_000]),
            'nch': rng.choice([6, 12]), 'cseed': rng.getrandbits(32)}


def gen_bands(rng, tier):
    n = rng.choice([1, 2, 4, 8, 16 if tier == 'quick' else 48])
    car = _carriers(rng, WIDE, n)
    edges = sorted({c['f'] - c['slot'] // 2 for c in car} | {c['f'] + c['slot'] // 2 for c in car})
    bands = []
    for _ in range(rng.randint(1, 4)):
        a = rng.choice(edges) + rng.choice([0, 0, G, -G, 3 * G])
        b = rng.choice(edges) + rng.choice([0, 0, G, -G, 50 * G])
        if a > b:
            a, b = b, a
        bands.append([a, b])
    if rng.random() < 0.5:      # make the bands disjoint
        bands.sort()
        out = []
        for a, b in bands:
            if out and a < out[-1][1]:
                a = out[-1][1]
            if a < b:
                out.append([a, b])
        bands = out or bands[:1]
        rng.shuffle(bands)
    return {'kind': 'bands', 'car': car, 'bands': bands}


def gen_common(rng):
    namp = rng.choice([0, 1, 2, 2, 3, 4, 5])
    amps = []
    pool = [185_000_000_000_000 + k * 250_000_000_000 for k in range(48)]
    for _ in range(namp):
        if amps and rng.random() < 0.2:
            amps.append(copy.deepcopy(rng.choice(amps)))
            continue
        nb = rng.choice([1, 1, 2, 3])
        pts = sorted(rng.sample(pool, 2 * nb))
        bands = []
        for i in range(nb):
            lo, hi = pts[2 * i], pts[2 * i + 1]
            if rng.random() < 0.5:      # wide band so that intersections are usually non-empty
                lo = min(lo, 186_000_000_000_000 + 5_000_000_000_000 * i)
                hi = max(hi, lo + 3_000_000_000_000)
            b = {'f_min': lo, 'f_max': hi}
            if rng.random() < 0.4:
                b['spacing'] = rng.choice([50_000_000_000, 75_000_000_000, 100_000_000_000, None])
            bands.append(b)
        rng.shuffle(bands)
        amps.append(bands)
    dflt = rng.choice([[191_300_000_000_000, 195_100_000_000_000], [None, None], [186_000_000_000_000, None]])
    return {'kind': 'common', 'amps': amps, 'default': dflt, 'spacing': rng.choice([50_000_000_000, 37_500_000_000])}


def _hops(rng, tier, allow_empty_common=False):
    nh = rng.choice([1, 2, 2, 3])
    hops = []
    lmode = rng.random() < 0.15      # single-band hops are L-band ones (else C-band): the common range is never empty
    for _ in range(nh):
        if rng.random() < 0.55:
            kind = ['mb', rng.choice(list(MB))]
        else:
            pool = SINGLE if allow_empty_common else (SINGLE[4:] if lmode else SINGLE[:4])
            kind = ['ed', rng.choice(pool)]
        hops.append({'amp': kind, 'namp': rng.choice([2, 2, 3])})
    return hops


def gen_path(rng, tier):
    k = rng.random()
    if k < 0.12:
        # auto-designed C+L chain: no amplifier in the topology, ROADMs with different design bands / booster restrictions, so
        # auto-inserted multiband amplifiers of two different band sets coexist (either one may be designed last)
        kinds = [rng.choice(['wide', 'reduced']) for _ in range(3)]
        if len(set(kinds)) == 1:
            kinds[rng.randrange(3)] = 'reduced' if kinds[0] == 'wide' else 'wide'
        net = {'auto': kinds}
        a, b = rng.sample(range(3), 2)
        src, dst = f'trx {a}', f'trx {b}'
    elif k < 0.75:
        net = {'hops': _hops(rng, tier)}
        n = len(net['hops']) + 1
        a, b = rng.sample(range(n), 2)
        src, dst = f'trx {a}', f'trx {b}'
    else:
        net = rng.choice(['multiband', 'multiband', 'mesh'])
        src = dst = None
    return {'kind': 'path', 'net': net, 'src': src, 'dst': dst, 'pick': [rng.random(), rng.random()],
            'nch': rng.choice([2, 4, 8, 14 if tier == 'quick' else 40]), 'cseed': rng.getrandbits(32),
            'edge': [rng.choice(['in', 'out', 'none']) for _ in range(8)], 'shuffle_seed': rng.getrandbits(32),
            'uniform': ([rng.choice([8, 12, 16]) * G, rng.choice([0, G, 3 * G, 4 * G]), rng.randint(0, 3), rng.randint(0, 3)]
                        if rng.random() < 0.15 else None)}


def gen_call(rng, tier):
    return {'kind': 'call', 'net': {'hops': _hops(rng, tier)}, 'which': rng.random(), 'nch': rng.choice([2, 5, 10]),
            'cseed': rng.getrandbits(32)}


def gen_malformed(rng, tier):
    what = rng.choice(['overlap', 'baud', 'no_common', 'none_inside', 'mux_empty', 'mux_overlap'])
    c = {'kind': 'malformed', 'what': what, 'cseed': rng.getrandbits(32), 'nch': rng.choice([2, 4, 8])}
    if what in ('overlap', 'baud', 'none_inside'):
        c['net'] = {'hops': _hops(rng, tier)}
    if what == 'no_common':
        c['net'] = {'hops': [{'amp': ['ed', rng.choice(SINGLE[:4])], 'namp': 2}, {'amp': ['ed', rng.choice(SINGLE[4:])], 'namp': 2}]}
    return c


# ---------------------------------------------------------------------------------------------------------------------
# networks for the path cases
# ---------------------------------------------------------------------------------------------------------------------
chain_net = S.mb_chain_net


def _net_of(case):
    if isinstance(case['net'], str):
        eq, net, trx = S.example(case['net'])
        a = int(case['pick'][0] * len(trx))
        b = int(case['pick'][1] * (len(trx) - 1))
        if b >= a:
            b += 1
        return eq, net, trx[a], trx[b]
    if 'auto' in case['net']:
        eq, net = S.auto_mb_net(tuple(case['net']['auto']))
        return eq, net, case['src'], case['dst']
    eq, net = chain_net(case['net']['hops'])
    return eq, net, case.get('src', 'trx 0'), case.get('dst', f'trx {len(case["net"]["hops"])}')


def _amp_bands(path):
    """[(kind, params.bands, call bands)] of the amplifiers of a path, as integers"""
    from gnpy.core.elements import Edfa, Multiband_amplifier
    out = []
    for el in path:
        if isinstance(el, Multiband_amplifier):
            pb = [[int(b['f_min']), int(b['f_max'])] for b in el.params.bands]
            cb = [[int(a.params.bands[0]['f_min']), int(a.params.bands[0]['f_max'])] for a in el.amplifiers.values()]
            out.append(('multiband', pb, cb))
        elif isinstance(el, Edfa):
            pb = [[int(b['f_min']), int(b['f_max'])] for b in el.params.bands]
            out.append(('edfa', pb, pb))
        else:
            out.append(('other', None, None))
    return out


def _elem_json(ab):
    kind, pb, cb = ab
    if kind == 'multiband':
        return {'k': 'multiband', 'params': pb, 'bands': cb}
    if kind == 'edfa':
        return {'k': 'edfa', 'bands': pb}
    return {'k': 'other'}


def _inside(f, slot, band):
    return 2 * f - slot >= 2 * band[0] and 2 * f + slot <= 2 * band[1]


def _path_carriers(case, path, eq):
    """carriers over C+L: random ones, plus channels whose slot edge sits exactly on / 6.25 GHz beyond an edge of the
    common range"""
    from gnpy.topology.request import find_elements_common_range
    rng = _random.Random(case['cseed'])
    cr = [(int(b['f_min']), int(b['f_max'])) for b in find_elements_common_range(path, eq)]
    fixed = []
    k = 0
    for (lo, hi) in cr:
        for edge, side in ((lo, 'lo'), (hi, 'hi')):
            mode = case['edge'][k % len(case['edge'])]
            k += 1
            if mode == 'none':
                continue
            slot = rng.choice([4, 6, 8, 12]) * 2 * G
            shift = 0 if mode == 'in' else G
            f = edge + slot // 2 - shift if side == 'lo' else edge - slot // 2 + shift
            fixed.append({'f': f, 'slot': slot, 'baud': rng.choice([b for b in S.BAUDS if b <= slot])})
    car = list(fixed)
    more = (S.gen_carriers(rng, cr, case['nch']) if cr else []) + S.gen_carriers(rng, WIDE, max(2, case['nch'] // 2))
    if isinstance(case['net'], dict) and 'auto' in case['net']:
        # channels in the difference of the two L-band sets (186.6-187.4 THz) and around its edge
        more = S.gen_carriers(rng, [(186_600_000_000_000, 187_500_000_000_000)], rng.choice([2, 4])) + more
    for c in more:
        if all(abs(c['f'] - o['f']) * 2 >= c['slot'] + o['slot'] for o in car):
            car.append({'f': c['f'], 'slot': c['slot'], 'baud': c['baud']})
    rng.shuffle(car)
    for k, c in enumerate(car):
        c.update({'roll_off': 0.15 if k % 2 else 0.0, 'tx_osnr': 40.0 + (k % 3), 'tx_power': 1e-3 * (1 + k / 64.0),
                  'delta_pdb': 0.5 * (k % 4), 'label': f'ch{k}'})
    return car, cr


# ---------------------------------------------------------------------------------------------------------------------
# helpers
# ---------------------------------------------------------------------------------------------------------------------
FIELDS = ('baud', 'slot', 'label', 'tx_power', 'tx_osnr', 'delta_pdb', 'roll_off')


def _ident(snap):
    """per-channel identity records of a snapshot"""
    return [(int(f), int(b), int(s), lab, float(tp), float(to), float(dp), float(ro)) for f, b, s, lab, tp, to, dp, ro in
            zip(snap['freq'], snap['baud'], snap['slot'], snap['label'], snap['tx_power'], snap['tx_osnr'],
                snap['delta_pdb'], snap['roll_off'])]


def _car_ident(c):
    return (int(c['f']), int(c['baud']), int(c['slot']), c['label'], float(c['tx_power']), float(c['tx_osnr']),
            float(c['delta_pdb']), float(c['roll_off']))


def _chs(car):
    return [[int(c['f']), int(c['slot']), int(c['baud']), i] for i, c in enumerate(car)]


def _model_ident(ans, car):
    """model answer {'ok': [[f,slot,baud,pay]]} -> identity records via the payload index"""
    return [_car_ident(car[p]) for _, _, _, p in ans['ok']]


def _build(car, via):
    from gnpy.core.info import create_arbitrary_spectral_information, carriers_to_spectral_information, Carrier
    if via == 'dict':
        spec = {float(c['f']): Carrier(delta_pdb=c['delta_pdb'], baud_rate=float(c['baud']), slot_width=float(c['slot']),
                                       roll_off=c['roll_off'], tx_osnr=c['tx_osnr'], tx_power=c['tx_power'],
                                       label=c['label']) for c in car}
        return carriers_to_spectral_information(spec, 1e-3)
    return create_arbitrary_spectral_information(
        frequency=[float(c['f']) for c in car], pch=[c['tx_power'] for c in car], baud_rate=[float(c['baud']) for c in car],
        tx_osnr=[c['tx_osnr'] for c in car], tx_power=[c['tx_power'] for c in car],
        delta_pdb_per_channel=[c['delta_pdb'] for c in car], slot_width=[float(c['slot']) for c in car],
        roll_off=[c['roll_off'] for c in car], label=[c['label'] for c in car])


def _expect_accept(car):
    """independent statement of the rule: no two slots overlap, no baud rate above its slot width"""
    for a, b in itertools.combinations(car, 2):
        if abs(a['f'] - b['f']) * 2 < a['slot'] + b['slot']:
            return False
    return all(c['baud'] <= c['slot'] for c in car)


def _check_built(res, si, car, where):
    """monitor: the accepted spectrum is the strictly sorted launched set, every channel with its own data"""
    got = _ident(S.snapshot(si))
    exp = sorted(_car_ident(c) for c in car)
    if [g[0] for g in got] != sorted(g[0] for g in got) or len({g[0] for g in got}) != len(got):
        res.fail(f'order: {where}: frequencies not strictly increasing')
    if got != exp:
        bad = next((i for i, (g, e) in enumerate(zip(got, exp)) if g != e), min(len(got), len(exp)))
        res.fail(f'identity: {where}: {len(got)} channels for {len(exp)} launched; first difference at position {bad}: got '
                 f'{got[bad] if bad < len(got) else None}, launched {exp[bad] if bad < len(exp) else None}')


# ---------------------------------------------------------------------------------------------------------------------
# run
# ---------------------------------------------------------------------------------------------------------------------

def run(case, drv):
    return {'reuse': run_reuse, 'build': run_build, 'grid': run_grid, 'ctor': run_ctor, 'bands': run_bands, 'common': run_common, 'path': run_path, 'call': run_call,
            'malformed': run_malformed}[case['kind']](case, drv)


def run_ctor(case, drv):
    res = Result()
    car = case['car']
    via = case['via']
    freqs = [c['f'] for c in car]
    if via == 'dict' and len(set(freqs)) != len(freqs):
        via = 'arrays'          # a dict cannot hold the same frequency twice
    try:
        si = _build(car, via)
        impl = {'ok': _ident(S.snapshot(si))}
    except Exception as e:
        si = None
        impl = {'err': err_kind(e)}
    ans = drv.ask('c07.mk', chans=_chs(car))
    model = {'ok': _model_ident(ans, car)} if 'ok' in ans else ans
    res.cmp_exact('SpectralInformation.__init__', impl, model)
    exp = _expect_accept(car)
    if exp and si is None:
        res.fail(f'rejected-valid: a spectrum without overlap and with baud <= slot was rejected ({impl["err"]})')
    elif not exp and si is not None:
        res.fail('accepted-invalid: a spectrum with overlapping slots or a baud rate wider than its slot was accepted')
    elif not exp and impl['err'] != 'SpectrumError':
        res.fail(f'error-kind: overlapping / too wide carriers were rejected with {impl["err"]}, not a spectrum error')
    if si is not None:
        _check_built(res, si, car, 'constructor')
        # supplying the channels in another order gives the identical object
        car2 = list(car)
        _random.Random(len(car)).shuffle(car2)
        si2 = _build(car2, via)
        if _ident(S.snapshot(si2)) != impl['ok'] or not np.array_equal(si2.pch, si.pch):
            res.fail('order-dependence: the same carriers in another order give a different spectrum')
    res.nontrivial = len(car) >= 2 and (si is None or freqs != sorted(freqs))
    res.stats.update({'ctor': 1, 'ctor_defect_' + str(case['defect']): 1, 'ctor_accepted': int(si is not None),
                      'ctor_via_' + via: 1, 'ctor_channels': len(car)})
    return res


def _ib(b):
    return [int(b['f_min']), int(b['f_max'])]


def _mb_view(el):
    """what the implementation holds about a multiband element: params.bands, first band of every amplifier in dict order,
    the dict keys"""
    return {'params': [_ib(b) + [None] for b in (el.params.bands or [])],
            'bands': [_ib(a.params.bands[0]) + [None] for a in el.amplifiers.values()],
            'names': list(el.amplifiers)}


REJECT_KINDS = {'ValueError', 'SpectrumError', 'NetworkTopologyError', 'ConfigurationError', 'ServiceError',
                'EquipmentConfigError', 'ParametersError', 'DisjunctionError'}   # ValueError or a gnpy error class


def check_designed_wf(res, el, where='designed'):
    """the precondition `Elem.WF` of the path theorems on the real object (a correspondence, not a clause of the property):
    after the design the bands seen by the common-range computation are exactly the first bands of the per-band
    amplifiers, pairwise disjoint, one amplifier per band name"""
    v = _mb_view(el)
    pb, cb = [b[:2] for b in v['params']], [b[:2] for b in v['bands']]
    res.compared += 1
    if sorted(pb) != sorted(cb) or len({tuple(b) for b in pb}) != len(pb):
        res.mismatch('Elem.WF(params.bands = amplifier bands)', pb, cb, uid=el.uid, where=where)
    for i in range(len(cb)):
        for j in range(i + 1, len(cb)):
            if not (cb[i][1] <= cb[j][0] or cb[j][1] <= cb[i][0]):
                res.mismatch('Elem.WF(amplifier bands disjoint)', [cb[i], cb[j]], 'disjoint', uid=el.uid, where=where)
    if len(set(v['names'])) != len(v['names']):
        res.mismatch('Elem.WF(one amplifier per band name)', v['names'], sorted(set(v['names'])), uid=el.uid, where=where)


def run_build(case, drv):
    from gnpy.tools.json_io import network_from_json
    from gnpy.tools.worker_utils import designed_network
    from gnpy.core.elements import Multiband_amplifier, Roadm, Transceiver
    res = Result()
    eq = nets.eqpt('eqpt_config_multiband.json')
    lib = eq['Edfa']
    # the library side: `bands` of a multi_band entry = member bands, duplicates removed; members pairwise disjoint
    for name, amp in lib.items():
        if amp.type_def == 'multi_band':
            members = [[int(lib[a].f_min), int(lib[a].f_max)] for a in amp.multi_band]
            res.cmp_exact('json_io._update_band', [_ib(b) + [None] for b in amp.bands], drv.ask('c07.dedup', bands=members))
            d = amp.bands
            if any(not (_ib(d[i])[1] <= _ib(d[j])[0] or _ib(d[j])[1] <= _ib(d[i])[0])
                   for i in range(len(d)) for j in range(i + 1, len(d))):
                res.stats['library_multiband_entry_with_overlapping_members'] += 1
    op = {'gain_target': 20.0, 'delta_p': 0, 'out_voa': 1.0, 'tilt_target': 0.0}
    dbs = [S.LBAND_JSON, S.CBAND_JSON] if case['design_bands_l_first'] else [S.CBAND_JSON, S.LBAND_JSON]
    n = len(case['hops']) + 1
    els, cxs, spec = [], [], {}
    for i in range(n):
        els += [nets.trx(f'trx {i}'), nets.roadm(f'roadm {i}', {'design_bands': copy.deepcopy(dbs)})]
        cxs += [nets.cx(f'trx {i}', f'roadm {i}'), nets.cx(f'roadm {i}', f'trx {i}')]
    for h, hop in enumerate(case['hops']):
        for d, (a, b) in (('e', (h, h + 1)), ('w', (h + 1, h))):
            ln = []
            for i, (kind, var) in enumerate(hop):
                uid = f'amp {d}{h}.{i}'
                e = {'uid': uid, 'type': 'Multiband_amplifier', 'metadata': nets.loc()}
                m = MB[var]
                listed = {'typed_full': m, 'typed_rev': m[::-1], 'typed_subset_c': m[:1], 'typed_subset_l': m[1:]}.get(kind)
                if kind != 'untyped_none':
                    e['type_variety'] = var
                if listed:
                    e['amplifiers'] = [{'type_variety': v, 'operational': dict(op)} for v in listed]
                spec[uid] = (kind, var, listed or [])
                ln.append(e)
                if i < len(hop) - 1:
                    ln.append(nets.fiber(f'fiber {d}{h}.{i}', 80.0, 'SSMF', con_in=0.5, con_out=0.5))
            nets.chain(els, cxs, f'roadm {a}', f'roadm {b}', ln)
    net = network_from_json({'elements': els, 'connections': cxs}, eq)
    mbs = sorted((x for x in net.nodes() if isinstance(x, Multiband_amplifier)), key=lambda x: x.uid)
    pre_names = {}
    not_wf_pre = 0
    for el in mbs:
        kind, var, listed = spec[el.uid]
        libb = None if kind == 'untyped_none' else [_ib(b) for b in lib[var].bands]
        ans = drv.ask('c07.load', lib=libb, amps=[[int(lib[v].f_min), int(lib[v].f_max)] for v in listed])
        res.cmp_exact('network_from_json.Multiband_amplifier', {'ok': _mb_view(el)}, ans, uid=el.uid, kind=kind)
        pre_names[el.uid] = list(el.amplifiers)
        v = _mb_view(el)
        not_wf_pre += int(sorted(b[:2] for b in v['params']) != sorted(b[:2] for b in v['bands']))
    net, _, _ = designed_network(eq, net, source='trx 0', destination=f'trx {n - 1}')
    for el in mbs:
        # the ROADM/transceiver at the head of this element's OMS and the first element of the OMS
        cur = el
        while True:
            prev = next(iter(net.predecessors(cur)))
            if isinstance(prev, (Roadm, Transceiver)):
                break
            cur = prev
        design = sorted((_ib(b) for b in prev.per_degree_design_bands[cur.uid]))
        sel = [[name, [int(lib[a.params.type_variety].f_min), int(lib[a.params.type_variety].f_max)]]
               for name, a in el.amplifiers.items()]
        ans = drv.ask('c07.design', existing=pre_names[el.uid], design=design, sel=sel)
        res.cmp_exact('set_egress_amplifier.Multiband_amplifier', _mb_view(el), ans['elem'], uid=el.uid, kind=spec[el.uid][0])
        if not pre_names[el.uid]:
            res.cmp_exact('set_egress_amplifier.design_band_names', list(el.amplifiers), ans['keys'], uid=el.uid)
        check_designed_wf(res, el)
    # the property on the designed line: a C+L launch crosses every element with its channel list intact
    from gnpy.topology.request import propagate
    car = _carriers(_random.Random(len(mbs)), WIDE, 10)
    path, req = S.path_request(eq, net, 'trx 0', f'trx {n - 1}', car)
    try:
        with S.Recorder(keep_op_events=False) as rec:
            propagate(path, req, eq)
        for ci, call in enumerate(rec.calls):
            b, a = _ident(call.before), _ident(call.after)
            if a != b:
                lost = sorted(set(r[0] for r in b) - set(r[0] for r in a))
                res.fail(f'element-changed-channels: {call.kind} {call.uid!r} (element {ci}) received {len(b)} channels and '
                         f'returned {len(a)} (lost {lost[:3]})', element=call.kind)
                break
        res.stats['build_propagated_channels'] += len(rec.calls[0].before['freq'])
    except ValueError:
        res.stats['build_no_channel_in_common_range'] += 1
    res.nontrivial = True
    res.stats.update({'build': 1, 'build_multiband_elements': len(mbs), 'build_elements_not_wf_before_design': not_wf_pre})
    for kind, _, _ in spec.values():
        res.stats['build_' + kind] += 1
    return res


def check_propagations(res, drv, calls, launched, sid, what):
    """every propagation recorded in `calls` (a segment from a source Transceiver call to the next Transceiver call): the
    spectrum that enters the first element is exactly the launched channels that fit every amplifier of THAT path,
    whatever was propagated before; every element returns the channel list it was given"""
    segs, cur = [], []
    for c in calls:
        cur.append(c)
        if c.kind == 'Transceiver' and len(cur) > 1:
            segs.append(cur)
            cur = []
    if cur:
        segs.append(cur)
    for si_, seg in enumerate(segs):
        if seg[0].before is None or any(c.after is None for c in seg):
            continue
        abands = _amp_bands([c.el for c in seg])
        amps = [ab for ab in abands if ab[0] != 'other']
        first = S.snapshot_pairs(seg[0].before) if hasattr(S, 'snapshot_pairs') else \
            [(int(f), int(s)) for f, s in zip(seg[0].before['freq'], seg[0].before['slot'])]
        slot0 = first[0][1] if first else None
        lch = launched(seg)          # [(f, slot)] launched for this propagation
        keep = [c for c in lch if all(any(_inside(c[0], c[1], b) for b in ab[2]) for ab in amps)]
        where = f'{what}, propagation {si_ + 1} of {len(segs)} with the same request ({seg[0].uid} -> {seg[-1].uid})'
        # a path without amplifier: the statement removes nothing (the code filters on the SI band: correspondence below)
        if amps and first != sorted(keep):
            lost = sorted(set(keep) - set(first))
            extra = sorted(set(first) - set(keep))
            res.fail(f'filter-history: {where}: {len(first)} channels enter the first element, {len(keep)} launched channels fit '
                     f'every amplifier of this path (not launched {[c[0] for c in lost[:3]]}, not removed '
                     f'{[c[0] for c in extra[:3]]})', propagation=si_ + 1)
        ans = drv.ask('c07.propagate', path=[_elem_json(ab) for ab in abands], fmin=int(sid.f_min), fmax=int(sid.f_max),
                      spacing=int(sid.spacing), chans=[[c[0], c[1], min(c[1], 1), i] for i, c in enumerate(lch)])
        res.cmp_exact('request.propagate.channels(reused request)',
                      {'ok': first} if first else {'err': 'ValueError'},
                      {'ok': [(r[0], r[1]) for r in ans['ok']]} if 'ok' in ans else ans, propagation=si_ + 1)
        for ci, c in enumerate(seg):
            b = [(int(f), int(s)) for f, s in zip(c.before['freq'], c.before['slot'])]
            a = [(int(f), int(s)) for f, s in zip(c.after['freq'], c.after['slot'])]
            if a != b:
                res.fail(f'element-changed-channels: {where}: {c.kind} {c.uid!r} received {len(b)} channels and returned {len(a)}',
                         element=c.kind)
                break
    return len(segs)


def run_reuse(case, drv):
    from gnpy.topology.request import propagate, propagate_and_optimize_mode, compute_constrained_path, \
        compute_path_dsjctn, compute_path_with_disjunction
    from gnpy.topology.spectrum_assignment import build_oms_list
    from gnpy.tools.json_io import requests_from_json
    res = Result()
    eq, net = chain_net(case['hops'])
    n = len(case['hops'])
    a, z = 'trx 0', f'trx {n}'
    sid = eq['SI']['default']
    how = case['how']
    err = None
    if how in ('bidir_fixed', 'bidir_auto', 'optimize'):
        data = {'path-request': [{'request-id': 'r', 'source': a, 'destination': z, 'src-tp-id': a, 'dst-tp-id': z,
                                  'bidirectional': how != 'optimize',
                                  'path-constraints': {'te-bandwidth': {
                                      'technology': 'flexi-grid', 'trx_type': 'Voyager',
                                      'trx_mode': 'mode 1' if how == 'bidir_fixed' else None,
                                      'spacing': float(case['spacing']), 'path_bandwidth': 100e9}}}]}
        rqs = requests_from_json(data, eq)
        req = rqs[0]

        def launched(seg):
            sp = int(req.spacing)
            return [(int(req.f_min) + i * sp, sp) for i in range(1, (int(req.f_max) - int(req.f_min)) // sp + 1)]
    else:
        path0, req = S.path_request(eq, net, a, z)
        if case['grid']:
            req.f_min, req.f_max, req.spacing = 190_900_000_000_000.0, 196_400_000_000_000.0, float(case['spacing'])

            def launched(seg):
                sp = int(req.spacing)
                return [(int(req.f_min) + i * sp, sp) for i in range(1, (int(req.f_max) - int(req.f_min)) // sp + 1)]
        else:
            car = _carriers(_random.Random(case['cseed']), [WIDE[1]], case['nch'])
            _, req = S.path_request(eq, net, a, z, car)

            def launched(seg):
                return [(int(c['f']), int(c['slot'])) for c in car]
    try:
        with S.Recorder(keep_op_events=False) as rec:
            if how in ('bidir_fixed', 'bidir_auto'):
                build_oms_list(net, eq)
                req.nodes_list, req.loose_list = [z], ['STRICT']
                pths = compute_path_dsjctn(net, eq, rqs, [])
                compute_path_with_disjunction(net, eq, rqs, pths)
            else:
                for o in case['order']:
                    s, d = (a, z) if o.startswith('ez') else (z, a)
                    req.source, req.destination, req.nodes_list, req.loose_list = s, d, [d], ['STRICT']
                    path = compute_constrained_path(net, req)
                    amps = [ab for ab in _amp_bands(path) if ab[0] != 'other']
                    fits = [c for c in launched(None) if all(any(_inside(c[0], c[1], b) for b in ab[1]) for ab in amps)]
                    try:
                        if how == 'optimize':
                            propagate_and_optimize_mode(path, req, eq)
                        else:
                            propagate(path, req, eq)
                    except ValueError:
                        if fits:        # "Defined propagation band does not match amplifiers band" is right only when
                            raise       # no launched channel fits the amplifiers of THIS path
                        res.stats['reuse_no_channel_fits'] += 1
    except Exception as e:
        err = e
    nprop = check_propagations(res, drv, [c for c in rec.calls], launched, sid, how)
    if err is not None:
        res.fail(f'reuse-exception: {how} with one request on paths of different amplifier ranges raised {err_kind(err)}: '
                 f'{str(err)[:120]}')
    res.nontrivial = nprop >= 2
    res.stats.update({'reuse': 1, 'reuse_' + how: 1, 'reuse_propagations': nprop})
    return res


def run_grid(case, drv):
    """create_input_spectral_information (uniform grid) vs Gnpy.Bands.gridChans + mkSpectrum"""
    from gnpy.core.info import create_input_spectral_information
    res = Result()
    fmin, fmax, sp, baud = case['fmin'], case['fmax'], case['spacing'], case['baud']
    try:
        si = create_input_spectral_information(f_min=float(fmin), f_max=float(fmax), roll_off=0.15, baud_rate=float(baud),
                                               spacing=float(sp), tx_osnr=40.0, tx_power=1e-3)
        snap = S.snapshot(si)
        impl = {'ok': [[int(f), int(s), int(b)] for f, s, b in zip(snap['freq'], snap['slot'], snap['baud'])]}
    except Exception as e:
        impl = {'err': err_kind(e)}
    ans = drv.ask('c07.grid', fmin=fmin, fmax=fmax, spacing=sp, baud=baud)
    model = {'ok': [r[:3] for r in ans['ok']]} if 'ok' in ans else ans
    res.cmp_exact('create_input_spectral_information', impl, model)
    # monitor: floor((fmax-fmin)/spacing) channels at fmin + i*spacing, slot = spacing; rejected iff baud > spacing
    n = max(0, (fmax - fmin) // sp)
    exp = [[fmin + i * sp, sp, baud] for i in range(1, n + 1)]
    if fmax < fmin:
        res.stats['grid_fmax_below_fmin'] += 1        # the property says nothing about such a request
    elif baud > sp and n > 0:
        if impl.get('err') != 'SpectrumError':
            res.fail(f'grid: baud rate {baud} above the spacing {sp} answered {impl.get("err", "accepted")}')
    elif impl.get('ok') != exp:
        res.fail(f'grid: uniform grid [{fmin}, {fmax}] / {sp} gave {len(impl.get("ok", []))} channels '
                 f'({impl.get("err")}), expected {len(exp)} at fmin + i*spacing')
    res.nontrivial = n >= 2
    res.stats.update({'grid': 1, 'grid_channels': n, 'grid_rejected': int('err' in impl)})
    return res


def run_bands(case, drv):
    from gnpy.core.info import demuxed_spectral_information, muxed_spectral_information, is_in_band
    res = Result()
    car = case['car']
    si = _build(car, 'arrays')
    snap = S.snapshot(si)
    sp = sorted(_chs(car))
    parts_impl, parts_model = [], []
    sel_tot = 0
    for (lo, hi) in case['bands']:
        band = {'f_min': float(lo), 'f_max': float(hi)}
        mask = [bool(x) for x in is_in_band(si.frequency, si.slot_width, band)]
        res.cmp_exact('is_in_band', mask, drv.ask('c07.inband', band=[lo, hi], sp=sp))
        exp_mask = [_inside(int(f), int(s), (lo, hi)) for f, s in zip(snap['freq'], snap['slot'])]
        if mask != exp_mask:
            i = next(i for i in range(len(mask)) if mask[i] != exp_mask[i])
            res.fail(f'in-band: channel at {int(snap["freq"][i])} Hz, slot {int(snap["slot"][i])} Hz judged '
                     f'{"inside" if mask[i] else "outside"} band [{lo}, {hi}]')
        sub = demuxed_spectral_information(si, band)
        md = drv.ask('c07.demux', band=[lo, hi], sp=sp)
        impl = None if sub is None else {'ok': _ident(S.snapshot(sub))}
        model = None if md is None else ({'ok': _model_ident(md, car)} if 'ok' in md else md)
        res.cmp_exact('demuxed_spectral_information', impl, model)
        if sub is not None:
            exp = [r for r, m in zip(_ident(snap), exp_mask) if m]
            if impl['ok'] != exp:
                res.fail(f'demux: band [{lo}, {hi}] returned {len(impl["ok"])} channels, the in-band ones are {len(exp)} '
                         '(or a record changed)')
            parts_impl.append(sub)
            parts_model.append(md['ok'])
            sel_tot += len(exp)
    if parts_impl:
        try:
            m = muxed_spectral_information(parts_impl)
            impl = {'ok': _ident(S.snapshot(m))}
        except Exception as e:
            impl = {'err': err_kind(e)}
        mm = drv.ask('c07.mux', parts=parts_model)
        model = {'ok': _model_ident(mm, car)} if 'ok' in mm else mm
        res.cmp_exact('muxed_spectral_information', impl, model)
        allrec = [r for p in parts_impl for r in _ident(S.snapshot(p))]
        dup = len({r[0] for r in allrec}) != len(allrec)
        if dup and 'ok' in impl:
            res.fail('silent-duplicate: merging parts that share a channel did not raise a spectrum error')
        if dup and impl.get('err') not in (None, 'SpectrumError'):
            res.fail(f'error-kind: merging parts that share a channel raised {impl["err"]}')
        if not dup:
            if 'err' in impl:
                res.fail(f'merge-rejected: merging disjoint parts of one valid spectrum raised {impl["err"]}')
            elif impl['ok'] != sorted(allrec):
                res.fail('merge: the merged spectrum is not the sorted union of its parts (or a record changed)')
    res.nontrivial = 0 < sel_tot and any(not any(_inside(c['f'], c['slot'], b) for b in case['bands']) for c in car)
    res.stats.update({'bands': 1, 'bands_n': len(case['bands']), 'bands_selected_channels': sel_tot,
                      'bands_parts': len(parts_impl)})
    return res


def run_common(case, drv):
    from gnpy.core.utils import find_common_range
    res = Result()
    amps = [[{k: (None if v is None else float(v)) for k, v in b.items()} for b in amp] for amp in case['amps']]
    lo, hi = case['default']
    out = find_common_range(copy.deepcopy(amps), None if lo is None else float(lo), None if hi is None else float(hi),
                            float(case['spacing']))
    impl = [[int(b['f_min']), int(b['f_max']), None if b.get('spacing') is None else int(b['spacing'])] for b in out]
    model = drv.ask('c07.common', amps=[[[b['f_min'], b['f_max'], b.get('spacing')] for b in amp] for amp in case['amps']],
                    fmin=lo, fmax=hi, spacing=case['spacing'])
    res.cmp_exact('find_common_range', impl, model)
    # monitor: a channel is inside the common range iff every amplifier has a band holding it
    if case['amps']:
        edges = sorted({e for amp in case['amps'] for b in amp for e in (b['f_min'], b['f_max'])} |
                       {e for b in impl for e in b[:2]})
        probes = []
        for e in edges:
            for slot in (2 * G, 8 * G):
                for f in (e + slot // 2, e - slot // 2, e + slot // 2 - G, e - slot // 2 + G):
                    probes.append((f, slot))
        for f, slot in probes:
            got = any(_inside(f, slot, b) for b in impl)
            exp = all(any(_inside(f, slot, (b['f_min'], b['f_max'])) for b in amp) for amp in case['amps'])
            if got != exp:
                res.fail(f'common-range: channel {f} Hz / slot {slot} Hz is {"inside" if got else "outside"} the common range '
                         f'{[b[:2] for b in impl]} but {"is" if exp else "is not"} inside a band of every amplifier')
                break
        res.stats['common_probes'] += len(probes)
    if [b[0] for b in impl] != sorted(b[0] for b in impl):
        res.fail('common-range: result not sorted by f_min')
    res.nontrivial = len(case['amps']) >= 2
    res.stats.update({'common': 1, f'common_amps_{len(case["amps"])}': 1, 'common_bands_out': len(impl)})
    return res


def _req_with(eq, net, src, dst, car):
    return S.path_request(eq, net, src, dst, car)


def run_path(case, drv):
    from gnpy.topology.request import propagate
    res = Result()
    eq, net, src, dst = _net_of(case)
    path, req = S.path_request(eq, net, src, dst)
    uniform = case.get('uniform')
    if uniform:
        # a uniform grid request (no initial_spectrum) reaching beyond both ends of the common range
        from gnpy.topology.request import find_elements_common_range
        cr = [(int(b['f_min']), int(b['f_max'])) for b in find_elements_common_range(path, eq)]
        sp_, off, k0, k1 = uniform
        lo, hi = (cr[0][0], cr[-1][1]) if cr else (191_300_000_000_000, 192_000_000_000_000)
        fmin, fmax = lo - k0 * sp_ - off, hi + k1 * sp_ + off
        baud = 32_000_000_000
        path, req = S.path_request(eq, net, src, dst, None, f_min=float(fmin), f_max=float(fmax), spacing=float(sp_),
                                   baud_rate=float(baud))
        car = [{'f': fmin + i * sp_, 'slot': sp_, 'baud': baud, 'roll_off': req.roll_off, 'tx_osnr': req.tx_osnr,
                'tx_power': req.tx_power, 'delta_pdb': 0.0, 'label': f'{baud * 1e-9:.2f}G'}
               for i in range(1, (fmax - fmin) // sp_ + 1)]
    else:
        car, cr = _path_carriers(case, path, eq)
        path, req = _req_with(eq, net, src, dst, car)
    fidx = {int(c['f']): i for i, c in enumerate(car)}
    for el_ in path:
        if type(el_).__name__ == 'Multiband_amplifier':
            check_designed_wf(res, el_, 'designed path:')
    abands = _amp_bands(path)
    sid = eq['SI']['default']
    margs = dict(path=[_elem_json(ab) for ab in abands], fmin=int(sid.f_min), fmax=int(sid.f_max), spacing=int(sid.spacing),
                 chans=_chs(car))
    try:
        with S.Recorder(keep_op_events=False) as rec:
            si = propagate(path, req, eq)
        impl = {'ok': _ident(S.snapshot(si))}
    except Exception as e:
        impl = {'err': err_kind(e)}
    ans = drv.ask('c07.propagate', **margs)
    model = {'ok': _model_ident(ans, car)} if 'ok' in ans else ans
    res.cmp_exact('request.propagate.channels', impl, model)
    # independent expectation: kept iff every amplifier of the path has a band holding the slot
    amps = [ab for ab in abands if ab[0] != 'other']
    if amps:
        # what every amplifier of the path can really carry: the bands of its (per-band) amplifiers, not what the element
        # declares in params.bands
        keep = [c for c in car if all(any(_inside(c['f'], c['slot'], b) for b in ab[2]) for ab in amps)]
    else:
        # no amplifier on the path: the statement removes nothing; that the code then filters on the SI band is code
        # behaviour under correspondence (model `commonRange` default band) - the monitor takes what entered the first element
        keep = [c for c in car if _inside(c['f'], c['slot'], (int(sid.f_min), int(sid.f_max)))]
        res.stats['path_without_amplifier'] += 1
    exp = sorted(_car_ident(c) for c in keep)
    removed = len(car) - len(keep)
    if 'err' in impl:
        if keep and amps:
            res.fail(f'lost-all: propagation raised {impl["err"]} although {len(keep)} launched channels lie inside the band '
                     'common to all amplifiers')
        elif impl['err'] not in REJECT_KINDS:
            # the statement fixes the error kind only for overlap / baud > slot; the exact kind is under correspondence
            res.fail(f'error-kind: no channel inside the common band ended in {impl["err"]} (not a ValueError / gnpy error)')
    else:
        calls = rec.calls
        first = _ident(calls[0].before)
        if not amps:
            exp = first
        if first != exp:
            lost = sorted(set(r[0] for r in exp) - set(r[0] for r in first))
            extra = sorted(set(r[0] for r in first) - set(r[0] for r in exp))
            res.fail(f'filter: the spectrum entering the first element has {len(first)} channels, {len(exp)} launched channels '
                     f'lie inside the band common to all amplifiers (lost {lost[:3]}, not removed {extra[:3]}, or a record '
                     'changed)')
        for ci, call in enumerate(calls):
            b, a = _ident(call.before), _ident(call.after)
            res.cmp_exact(f'{call.kind}.__call__.channels', {'ok': a},
                          (lambda m: {'ok': _model_ident(m, car)} if 'ok' in m else m)(
                              drv.ask('c07.call', elem=_elem_json(abands[ci]) if ci < len(abands) else {'k': 'other'},
                                      sp=[[r[0], r[2], r[1], fidx[r[0]]] for r in b])), uid=call.uid)
            if a != b:
                lost = sorted(set(r[0] for r in b) - set(r[0] for r in a))
                res.fail(f'element-changed-channels: {call.kind} {call.uid!r} (element {ci}) received {len(b)} channels and '
                         f'returned {len(a)} (lost {lost[:3]}; duplicates {len(a) - len(set(r[0] for r in a))}) or changed a '
                         'baud rate / slot width / label / transmitter datum or the order', element=call.kind)
                break
        if impl['ok'] != exp:
            res.fail(f'receiver: {len(impl["ok"])} channels reach the receiver, {len(exp)} were left after the filter (or order / '
                     'records differ)')
        # the same channels launched in another order: identical per-channel results
        rx_first = [np.array(getattr(path[-1], nm), dtype=float) for nm in ('snr', 'osnr_ase', 'osnr_nli', 'snr_01nm')]
        car2 = list(car)
        _random.Random(case['shuffle_seed']).shuffle(car2)
        if uniform:
            path2, req2 = path, req      # nothing to permute in a grid request: the run must at least be repeatable
        else:
            path2, req2 = _req_with(eq, net, src, dst, car2)
        si2 = propagate(path2, req2, eq)
        same = _ident(S.snapshot(si2)) == impl['ok']
        for nm in ('_pch', '_signal_ratio', '_ase_ratio', '_nli_ratio', '_chromatic_dispersion', '_pmd', '_pdl', '_latency'):
            same = same and np.array_equal(getattr(si, nm), getattr(si2, nm))
        for nm, first_val in zip(('snr', 'osnr_ase', 'osnr_nli', 'snr_01nm'), rx_first):
            same = same and np.array_equal(first_val, np.array(getattr(path2[-1], nm), dtype=float), equal_nan=True)
        if not same:
            res.fail('order-dependence: launching the same channels in a different order changes the per-channel results at '
                     'the receiver')
    kinds = [ab[0] for ab in abands]
    res.nontrivial = removed > 0 and len(keep) > 0 and len(amps) > 0
    res.stats.update({'path': 1, 'path_channels_launched': len(car), 'path_channels_removed': removed,
                      'path_channels_kept': len(keep), 'path_multiband_amps': kinds.count('multiband'),
                      'path_single_amps': kinds.count('edfa'), 'path_mixed': int('multiband' in kinds and 'edfa' in kinds),
                      'path_common_bands_' + str(len(cr)): 1, 'path_error_' + str(impl.get('err')): 1,
                      f'net_{case["net"] if isinstance(case["net"], str) else ("auto_multiband" if "auto" in case["net"] else "chain")}': 1,
                      'path_uniform_grid': int(bool(uniform))})
    return res


def run_call(case, drv):
    from gnpy.core.elements import Edfa, Multiband_amplifier
    res = Result()
    eq, net = chain_net(case['net']['hops'])
    amps = sorted((n for n in net.nodes() if isinstance(n, (Edfa, Multiband_amplifier))), key=lambda n: n.uid)
    el = amps[int(case['which'] * len(amps))]
    ab = _amp_bands([el])[0]
    car = _carriers(_random.Random(case['cseed']), WIDE, case['nch'])
    for c in car:
        c['tx_power'] = 1e-4      # -10 dBm per channel: a plausible amplifier input
    si = _build(car, 'arrays')
    before = _ident(S.snapshot(si))
    try:
        out = el(si)
        impl = {'ok': _ident(S.snapshot(out))}
    except Exception as e:
        impl = {'err': err_kind(e)}
    ans = drv.ask('c07.call', elem=_elem_json(ab), sp=sorted(_chs(car)))
    model = {'ok': _model_ident(ans, car)} if 'ok' in ans else ans
    res.cmp_exact(f'{type(el).__name__}.__call__.channels', impl, model, uid=el.uid)
    exp = [r for r in before if any(_inside(r[0], r[2], b) for b in (ab[2] if ab[0] == 'multiband' else ab[2][:1]))]
    if 'ok' in impl:
        if impl['ok'] != exp:
            res.fail(f'amplifier-selection: {type(el).__name__} returned {len(impl["ok"])} channels, {len(exp)} lie in its band(s) '
                     '(or order / records differ)')
    elif exp:
        res.fail(f'amplifier-selection: {type(el).__name__} raised {impl["err"]} with {len(exp)} channels in its band(s)')
    elif impl['err'] not in REJECT_KINDS:
        res.fail(f'error-kind: amplifier without any channel in band ended in {impl["err"]} (not a ValueError / gnpy error)')
    res.nontrivial = 0 < len(exp) < len(before)
    res.stats.update({'call': 1, 'call_' + ab[0]: 1, 'call_selected': len(exp), 'call_dropped': len(before) - len(exp)})
    return res


def run_malformed(case, drv):
    from gnpy.topology.request import propagate
    from gnpy.core.info import muxed_spectral_information
    res = Result()
    what = case['what']
    rng = _random.Random(case['cseed'])
    if what in ('mux_empty', 'mux_overlap'):
        if what == 'mux_empty':
            parts, car = [], []
        else:
            car = _carriers(rng, [CBAND], case['nch'])
            parts = [car[:max(1, len(car) // 2 + 1)], car[len(car) // 2:]]
        try:
            muxed_spectral_information([_build(p, 'arrays') for p in parts])
            impl = 'accepted'
        except Exception as e:
            impl = err_kind(e)
        idx = {c['label']: i for i, c in enumerate(car)}
        mm = drv.ask('c07.mux', parts=[sorted([int(c['f']), int(c['slot']), int(c['baud']), idx[c['label']]] for c in p)
                                       for p in parts])
        res.cmp_exact('muxed_spectral_information.malformed', impl, mm.get('err', 'accepted'))
        exp = 'ValueError' if what == 'mux_empty' else 'SpectrumError'
        if (impl != exp) if exp == 'SpectrumError' else (impl not in REJECT_KINDS):
            res.fail(f'malformed-merge: {what} answered {impl}, must be {exp}')
    else:
        eq, net = chain_net(case['net']['hops'])
        src, dst = 'trx 0', f'trx {len(case["net"]["hops"])}'
        path, req = S.path_request(eq, net, src, dst)
        cr = [(int(b['f_min']), int(b['f_max'])) for b in
              __import__('gnpy.topology.request', fromlist=['x']).find_elements_common_range(path, eq)]
        if what == 'none_inside' or not cr:
            inside = [b for b in WIDE]
            car = [c for c in _carriers(rng, inside, case['nch'] + 4)
                   if not any(_inside(c['f'], c['slot'], b) for b in cr)][:case['nch']] or \
                [{'f': 150_000_000_000_000, 'slot': 8 * G, 'baud': 32_000_000_000, 'roll_off': 0.0, 'tx_osnr': 40.0,
                  'tx_power': 1e-3, 'delta_pdb': 0.0, 'label': 'ch0'}]
            for k, c in enumerate(car):
                c['label'] = f'ch{k}'
            exp = 'ValueError'
        else:
            car = _carriers(rng, cr, case['nch'])
            c = copy.deepcopy(car[0])
            c['label'] = f'ch{len(car)}'
            if what == 'overlap':
                c['f'] += 2 * G
                car.append(c)
            else:
                car[0]['baud'] = car[0]['slot'] + 1_000_000_000
            exp = 'SpectrumError'
        path, req = _req_with(eq, net, src, dst, car)
        try:
            propagate(path, req, eq)
            impl = 'accepted'
        except Exception as e:
            impl = err_kind(e)
        sid = eq['SI']['default']
        ans = drv.ask('c07.propagate', path=[_elem_json(ab) for ab in _amp_bands(path)], fmin=int(sid.f_min),
                      fmax=int(sid.f_max), spacing=int(sid.spacing), chans=_chs(car))
        res.cmp_exact('request.propagate.malformed', impl, ans.get('err', 'accepted'))
        if (impl != exp) if exp == 'SpectrumError' else (impl not in REJECT_KINDS):
            res.fail(f'malformed-request: {what} answered {impl}, must be {exp}')
    res.nontrivial = True
    res.stats.update({'malformed_' + what: 1})
    return res


# ---------------------------------------------------------------------------------------------------------------------
# thorough: complete enumeration of a small scope of the constructor
# ---------------------------------------------------------------------------------------------------------------------

def exhaustive():
    """every ordered list of 1-3 channels over 5 grid positions x 2 slot widths x 2 baud rates (8420 cases)"""
    base = 193_000_000_000_000
    types = [(base + p * 4 * G, s, b) for p in range(5) for s in (4 * G, 8 * G) for b in (20_000_000_000, 30_000_000_000)]
    for n in (1, 2, 3):
        for combo in itertools.product(types, repeat=n):
            yield {'kind': 'ctor', 'defect': 'enum', 'via': 'arrays',
                   'car': [{'f': f, 'slot': s, 'baud': b, 'roll_off': 0.0, 'tx_osnr': 40.0, 'tx_power': 1e-3 * (1 + k / 64.0),
                            'delta_pdb': 0.0, 'label': f'ch{k}'} for k, (f, s, b) in enumerate(combo)]}


def shrink_candidates(case):
    if case['kind'] in ('ctor', 'bands') and len(case['car']) > 1:
        for i in range(len(case['car'])):
            c = copy.deepcopy(case)
            del c['car'][i]
            yield c
    if case['kind'] == 'bands' and len(case['bands']) > 1:
        for i in range(len(case['bands'])):
            c = copy.deepcopy(case)
            del c['bands'][i]
            yield c
    if case['kind'] == 'common':
        for i in range(len(case['amps'])):
            c = copy.deepcopy(case)
            del c['amps'][i]
            yield c
        for i, amp in enumerate(case['amps']):
            if len(amp) > 1:
                for j in range(len(amp)):
                    c = copy.deepcopy(case)
                    del c['amps'][i][j]
                    yield c
    if case['kind'] in ('path', 'call'):
        if case['nch'] > 1:
            c = copy.deepcopy(case)
            c['nch'] = case['nch'] // 2
            yield c
        if case['kind'] == 'path' and any(e != 'none' for e in case['edge']):
            for i in range(len(case['edge'])):
                if case['edge'][i] != 'none':
                    c = copy.deepcopy(case)
                    c['edge'][i] = 'none'
                    yield c
