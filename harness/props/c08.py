"""C08 — auto-design turns any well-formed topology into a complete line system.

Correspondence: add_missing_elements_in_network + add_missing_fiber_attributes (real DiGraph, real elements) vs
Gnpy.Chain.addMissingLine / addConn / addPadding per chain; the edge list of the designed DiGraph vs
Gnpy.Chain.toGraph of the completed chains; calculate_new_length vs Gnpy.Chain.calcNewLength.
Monitor: the statement on the designed DiGraph (own graph walk, own arithmetic).
"""
import os
for _v in ('OMP_NUM_THREADS', 'OPENBLAS_NUM_THREADS', 'MKL_NUM_THREADS'):
    os.environ.setdefault(_v, '1')     # one BLAS thread per worker process: the checks run in a process pool

import copy
import math

from common.util import Result, f2b, b2f, err_kind
from common import nets
from common import designgen as G

ID = 'C08'
N = {'quick': 420, 'thorough': 16000}
LEAN_MODULES = ['GnpyProofs.Props.C08']
THEOREMS = [f'Gnpy.Chain.{t}' for t in (
    'floorDiv_spec', 'calcNewLength_spec', 'calcNewLength_short', 'calcNewLength_long', 'split_preserves_length_and_loss',
    'split_preserves_total_loss', 'split_spans_equal', 'splitLine_kinds', 'no_adjacent_fibres', 'roadm_fibre_junction_amplified',
    'original_order_preserved', 'addMissing_endpoints', 'multiband_kinds_follow_design_bands',
    'inserted_kind_follows_user_amplifiers', 'multiband_dst_first_fails_old', 'multiband_fused_end_mixed_fails_old', 'one_in_one_out', 'endpoints_degree', 'chain_is_path',
    'reachability_unchanged', 'names_unique_partial', 'connectors_defined',
    'padding_reached', 'padRun_dsl', 'padRun_fused_edge_unpadded_fails_current',
    'padRun_idempotent', 'amps_complete')]
RULE = ('cases from one PRNG: (a) 75 % star topologies (hub ROADM of degree 1-5, one chain per direction of 1-8 line '
        'elements: fibres 0.5 m - 3000 km incl. 149/149.999/150/150.001/151 km, fused runs, user amplifiers with full/'
        'partial/no settings, Raman fibres, a transceiver-sourced line) x random Span/SI configuration (mode, '
        'delta_power_range, slope, padding, EOL, connectors, max_length, VOA settings) built through network_from_json + '
        'designed_network; 30 % of these (without Raman/transceiver line) use eqpt_config_multiband.json with C+L design '
        'bands on the hub ROADM and on some spokes, lines leaving a C+L ROADM carrying user Multiband_amplifiers instead '
        'of Edfas; fibres of 100 km and more carry, in half of the cases, a user att_in and 0-3 lumped losses '
        'anywhere strictly inside (several in one sub-span, in the last one, next to a sub-span boundary); (b) 15 % direct calculate_new_length calls around the bounds; (c) 10 % malformed (a chain '
        'whose last element has no successor, an isolated fibre, a lumped loss exactly on a sub-span boundary) that must be rejected with NetworkTopologyError. '
        'non-trivial: design inserted an amplifier, split a fibre or padded a span / calc case with L >= max_length / '
        'every malformed case; distinct = distinct canonical JSON')
MODEL_SCOPE = ('modelled: calculate_new_length, split_fiber with _span_params (att_in on the first span, lumped losses '
               'distributed by position), add_roadm_preamp/booster, add_inline_amplifier incl. the Edfa / Multiband_amplifier decision (_oms_needs_multiband; the number of '
               'design bands of the source ROADM is an input), '
               'add_connector_loss, add_fiber_padding, prev/next_node_generator, span_loss. Chains are the unit: a '
               'ROADM-ROADM connection without any line element is outside the model (its amplifier depends on the '
               'node iteration order). Not modelled: the per-band amplifiers of a Multiband_amplifier (monitor only), per_degree_design_bands / '
               'find_common_range (C07/C15), amplifier locations/metadata, edge weights; the Raman solver (estimated gains are taken from the implementation); amplifier selection '
               '(C10) and the gain/power recurrence (C09) - the monitor only checks that every amplifier ends up with a '
               'library type_variety, gain, VOA and target')
PARTIAL = ['names_unique_partial: uniqueness of the generated names is proved for the names generated inside one chain '
           'under the hypothesis that the input uids are unique and that the generated strings do not collide with '
           'them; injectivity of the string formatting itself is a hypothesis (the monitor checks uniqueness on every '
           'designed network)']


AMP = ('edfa', 'multiband')


def gen(rng, tier, widen=False):
    r = rng.random()
    if r < 0.10:
        return gen_malformed(rng, tier)
    if r < 0.25 or (widen and r < 0.5):
        return gen_calc(rng, widen)
    c = G.gen_case(rng, tier, widen, lumped=True, multiband=True)
    c['kind'] = 'design'
    return c


def gen_calc(rng, widen=False):
    pad = rng.choice([10, 10, 6, 12, 0, 15, 8.5, 20, 24])
    max_km = rng.choice([150, 150, 120, 100, 180, 90, 60])
    span = {'padding': pad, 'max_length': max_km, 'length_units': 'km'}
    lo, hi, target = G.split_bounds(span)
    k = rng.choice([1, 1, 2, 3, 4, 7])
    base = rng.choice([hi, k * target, k * hi, (k + 1) * lo, rng.uniform(0.5, 3e6)])
    L = float(base + rng.choice([0, 0, -1, 1, -0.001, 0.001, 0.5, rng.uniform(-2e4, 2e4)]))
    L = max(L, 0.5)
    return {'kind': 'calc', 'span': span, 'L': L}


def gen_malformed(rng, tier):
    c = G.gen_case(rng, tier, raman_rate=0.0, raman_crash_rate=0.0, trx_src_rate=0.0)
    c['kind'] = 'malformed'
    c['what'] = rng.choice(['dangling', 'dangling', 'isolated', 'lump-on-boundary'])
    c['which'] = rng.randrange(len(c['chains']))
    return c


# ---------------------------------------------------------------------------------------------------------------------

def run(case, drv):
    return {'design': run_design, 'calc': run_calc, 'malformed': run_malformed}[case['kind']](case, drv)


def run_calc(case, drv):
    from gnpy.core.network import calculate_new_length
    res = Result()
    lo, hi, target = G.split_bounds(case['span'])
    L = case['L']
    try:
        length, n = calculate_new_length(L, range(lo, hi), target)
        impl = (float(length), int(n))
    except ZeroDivisionError:
        impl = 'ZeroDivisionError'
    ans = drv.ask('c08.calc', L=f2b(L), lo=f2b(lo), hi=f2b(hi), target=f2b(target))
    res.cmp_exact('target_length', float(target), b2f(ans['target'])) if 'target' in ans else None
    if 'error' in ans:
        res.cmp_exact('calculate_new_length.error', impl, ans['error'])
    elif impl == 'ZeroDivisionError':
        res.mismatch('calculate_new_length.error', impl, 'ok')
    elif b2f(ans['margin']) < 1e-9 and L >= hi and abs(L / target - round(L / target)) * target > 0:
        # quotient within rounding noise of an integer: `//` and the counting loop may legitimately differ
        res.ill += 1
    else:
        res.cmp_exact('calculate_new_length.n', impl[1], ans['n'])
        res.cmp_float('calculate_new_length.length', impl[0], b2f(ans['length']))
    # monitor: the statement for one fibre
    if impl != 'ZeroDivisionError':
        length, n = impl
        if n < 1:
            res.fail(f'split: {n} spans for a fibre of {L} m')
        elif abs(n * length - L) > 1e-9 * max(L, 1.0):
            res.fail(f'split: {n} spans of {length} m do not add up to {L} m')
        if L > hi and n < 2:
            res.fail(f'split: fibre of {L} m is longer than max_length {hi} m but is not split')
        if L > hi and target <= hi and length > hi * (1 + 1e-12):
            res.fail(f'split: spans of {length} m are longer than max_length {hi} m')
        # (a fibre shorter than max_length that is split anyway is not excluded by the statement: counted only; the
        # exact count is under correspondence above)
        res.stats['calc_split_below_max'] = int(L < hi and n != 1)
    elif target <= hi:
        res.fail(f'split: calculate_new_length raised ZeroDivisionError for L={L}, bounds=({lo},{hi}), target={target}')
    res.nontrivial = L >= hi
    res.stats.update({'calc': 1, 'calc_split': int(impl != 'ZeroDivisionError' and impl[1] > 1),
                      'calc_at_or_above_max': int(L >= hi), 'calc_zero_division': int(impl == 'ZeroDivisionError')})
    return res


def _load(case, topo=None):
    from gnpy.tools.json_io import network_from_json
    eq = G.equipment_for(case)
    net = network_from_json(copy.deepcopy(topo or G.topology_json(case)), eq)
    return eq, net


LAST_MID = {}       # uid -> record of every fibre right after add_missing_elements_in_network (last design_impl call)
LAST_TB = []        # function names of the traceback of the exception the last design_impl call ended with


def raman_estimate_class(case, err):
    """class of a design that raised: the open finding raman-gain-before-estimate only for its documented topologies AND
    when the exception comes out of estimate_raman_gain -> dbm2watt; everything else is unlisted"""
    if (err == 'TypeError' and G.raman_before_estimate_topology(case)
            and 'estimate_raman_gain' in LAST_TB and 'dbm2watt' in LAST_TB):
        return 'raman-gain-before-estimate'
    return 'unlisted'


def design_impl(case, eq, net):
    """run designed_network, recording the bounds handed to split_fiber; returns (error kind or None, bounds)"""
    import gnpy.core.network as NW
    from gnpy.tools.worker_utils import designed_network
    seen = []
    orig = NW.split_fiber

    import inspect
    sig = inspect.signature(orig)

    def spy(*a, **k):
        # by parameter NAME, whatever the order or number of the other parameters
        try:
            b = sig.bind(*a, **k).arguments
            seen.append((b['bounds'].start, b['bounds'].stop, b['target_length']))
        except (TypeError, KeyError, AttributeError):
            pass
        return orig(*a, **k)
    orig_attr = NW.add_missing_fiber_attributes
    LAST_MID.clear()
    del LAST_TB[:]

    def spy_attr(*a, **k):
        # the fibres as add_missing_elements_in_network left them (before connector defaults, EOL and padding)
        from gnpy.core import elements as E
        network = k.get('network', a[0] if a else None)
        try:
            for n in network.nodes():
                if isinstance(n, E.Fiber):
                    LAST_MID[n.uid] = G.record(n)
            objs, _ = G.chains_of(network, case)
            LAST_MID['__chains__'] = [None if o is None else [(G.kind_of(n) if G.kind_of(n) != 'raman' else 'fiber', n.uid)
                                                                for n in o] for o in objs]
        except Exception:      # noqa: BLE001 - the snapshot must never disturb the design; a missing snapshot is counted
            LAST_MID.clear()
        return orig_attr(*a, **k)
    NW.split_fiber = spy
    NW.add_missing_fiber_attributes = spy_attr
    try:
        designed_network(eq, net)
        err = None
    except Exception as e:        # noqa: BLE001 - every exception is mapped to its kind and compared
        import traceback
        err = err_kind(e)
        LAST_TB.extend(f.name for f in traceback.extract_tb(e.__traceback__))
    finally:
        NW.split_fiber = orig
        NW.add_missing_fiber_attributes = orig_attr
    return err, (seen[0] if seen else None)


def endpoints_graph(net):
    """multiset of (source endpoint, destination endpoint) pairs connected through line elements only"""
    from gnpy.core import elements as E
    pairs = []
    for n in net.nodes():
        if isinstance(n, (E.Roadm, E.Transceiver)):
            for s in net.successors(n):
                if isinstance(s, (E.Roadm, E.Transceiver)):
                    pairs.append((n.uid, s.uid))
                    continue
                _, end = G.walk_from(net, s)
                pairs.append((n.uid, end.uid if end is not None else None))
    return sorted(pairs, key=str)


def model_chain(case, ch, recs, lo, hi, target, connected=True):
    sp = case['span']
    kind = {'R': 'roadm', 'T': 'trx'}
    bands = (case.get('roadm_bands') or {}).get(ch['src'], 1)
    # ROADMs are visited in document order R0, R1, ...: is the destination ROADM visited before the source ROADM?
    dst_first = ch['src'][0] == 'R' and ch['dst'][0] == 'R' and int(ch['dst'][1:]) < int(ch['src'][1:])
    return dict(chain={'src': ch['src'], 'src_kind': kind[ch['src'][0]], 'dst': ch['dst'], 'dst_kind': kind[ch['dst'][0]],
                       'line': [G.elem_model(r) for r in recs], 'src_bands': bands, 'dst_first': dst_first},
                lo=f2b(lo), hi=f2b(hi), target=f2b(target), con_in=f2b(sp['con_in']), con_out=f2b(sp['con_out']),
                eol=f2b(sp['EOL']), padding=f2b(sp['padding']), connected=connected)


def kinds_of_records(recs):
    return [(('fiber' if r['kind'] == 'raman' else r['kind']), r['uid']) for r in recs]


def kinds_of_model(line):
    return [(('multiband' if e.get('multi') else e['kind']), e['uid']) for e in line]


def compare_chain(res, tag, model_line, post):
    """element kinds and uids exactly, fibre figures as floats"""
    impl_k = kinds_of_records(post)
    mod_k = kinds_of_model(model_line)
    if not res.cmp_exact(f'{tag}.elements', impl_k, mod_k):
        return
    for r, e in zip(post, model_line):
        if e['kind'] == 'fiber':
            res.cmp_floats(f'{tag}.fiber(length,att_in,con_in,con_out,loss)',
                           [r['length'], r['att_in'], r['con_in'], r['con_out'], G.fiber_true_loss(r)],
                           [b2f(e['length']), b2f(e['att_in']), b2f(e['con_in']), b2f(e['con_out']), b2f(e['loss'])],
                           abs_=1e-9, uid=r['uid'])
            res.cmp_floats(f'{tag}.fiber.lumped_losses(position,loss)', [v for x in r['lumps'] for v in x],
                           [b2f(v) for x in e['lumps'] for v in x], abs_=1e-9, uid=r['uid'])
            md = None if e['dsl'] is None else b2f(e['dsl'])
            if (md is None) != (r['dsl'] is None):
                res.mismatch(f'{tag}.design_span_loss', r['dsl'], md, uid=r['uid'])
            elif md is not None:
                res.cmp_float(f'{tag}.design_span_loss', r['dsl'], md, abs_=1e-9, uid=r['uid'])


def run_design(case, drv):
    from gnpy.core import elements as E
    res = Result()
    chains = G.all_chains(case)
    eq, net = _load(case)
    pre_objs, _ = G.chains_of(net, case)
    pre = [[G.record(n) for n in objs] for objs in pre_objs]
    reach_before = endpoints_graph(net)
    lo, hi, target = G.split_bounds(case['span'])
    err, seen_bounds = design_impl(case, eq, net)
    if seen_bounds is not None:
        res.cmp_exact('split bounds', [float(x) for x in seen_bounds], [float(lo), float(hi), float(target)])

    # ---- model, chain by chain -----------------------------------------------------------------------------------
    answers = [drv.ask('c08.design', **model_chain(case, ch, recs, lo, hi, target)) for ch, recs in zip(chains, pre)]
    model_err = next((a['error'] for a in answers if 'error' in a), None)
    # kinds and uids of every chain as add_missing_elements_in_network left it (Edfa or Multiband_amplifier), also when
    # the rest of the design raises
    mid = LAST_MID.get('__chains__')
    if mid is not None:
        for ch, a, m in zip(chains, answers, mid):
            if m is not None and 'missing' in a:
                res.cmp_exact(f'chain[{ch["src"]}->{ch["dst"]}].elements after add_missing', [tuple(x) for x in m],
                              kinds_of_model(a['missing']))
    if err is not None or model_err is not None:
        # the C08 model covers the completion of the line; errors of the later gain/power walk belong to C09
        if model_err is not None or err != 'TypeError':
            res.cmp_exact('designed_network.error', err, model_err)
        if err == 'NetworkTopologyError' and model_err == 'NetworkTopologyError':
            # a generated lumped loss fell exactly on a sub-span boundary (position 0 of the next span): rejected by the
            # Fiber constructor, as the model predicts - not a well-formed input
            res.stats.update({'design': 1, 'lump_on_boundary_rejected': 1})
            return res
        # monitor: the property demands that every well-formed topology is designed
        if err is not None:
            res.fail(f'design raised: designed_network failed with {err} on a well-formed topology',
                     cls=raman_estimate_class(case, err))
        res.nontrivial = True
        res.stats.update({'design': 1, f'design_error_{err}': 1})
        return res

    post_objs, ends = G.chains_of(net, case)
    post = [[G.record(n) for n in objs] if objs is not None else None for objs in post_objs]
    for i, (ch, a) in enumerate(zip(chains, answers)):
        if post[i] is None:
            res.fail(f'chain lost: the line from {ch["src"]} to {ch["dst"]} cannot be followed after design')
            continue
        compare_chain(res, f'chain[{ch["src"]}->{ch["dst"]}]', a['line'], post[i])

    # ---- the whole DiGraph against toGraph of the model's completed chains (edges over uids, exact) ---------------------------
    kind = {'R': 'roadm', 'T': 'trx'}
    mchains = [model_chain(case, ch, recs, lo, hi, target)['chain'] for ch, recs in zip(chains, pre)]
    for i in range(case['k'] + 1):          # the transceiver <-> ROADM connections are chains without line elements
        mchains.append({'src': f'T{i}', 'src_kind': 'trx', 'dst': f'R{i}', 'dst_kind': 'roadm', 'line': []})
        mchains.append({'src': f'R{i}', 'src_kind': 'roadm', 'dst': f'T{i}', 'dst_kind': 'trx', 'line': []})
    if case.get('trx_src'):
        mchains.append({'src': 'R0', 'src_kind': 'roadm', 'dst': 'TX', 'dst_kind': 'trx', 'line': []})
    sp_ = case['span']
    g = drv.ask('c08.graph', chains=mchains, lo=f2b(lo), hi=f2b(hi), target=f2b(target), con_in=f2b(sp_['con_in']),
                con_out=f2b(sp_['con_out']), eol=f2b(sp_['EOL']), padding=f2b(sp_['padding']))
    res.cmp_exact('DiGraph.edges', sorted([u.uid, v.uid] for u, v in net.edges()), sorted(g['edges']))
    res.cmp_exact('endpoint pairs', sorted(p for p in reach_before if p[1] is not None),
                  sorted(tuple(p) for p in g['pairs']))

    # ---- monitor: the statement on the designed DiGraph ------------------------------------------------------------------
    st = monitor_design(res, case, eq, net, pre, post, ends, reach_before, hi)
    # the two hooks into the implementation must have been reached when a fibre was split; a harness that lost its hooks
    # must not pass silently (correspondence side: the monitor above does not depend on them except for the snapshot)
    st['spy_split_fiber_not_called'] = int(bool(st['split_fibres']) and seen_bounds is None)
    st['spy_fiber_attributes_not_called'] = int('__chains__' not in LAST_MID)
    if st['split_fibres'] and seen_bounds is None:
        res.mismatch('hook split_fiber(network, fiber, bounds, target_length)', 'not called although a fibre was split',
                     'called')
    if st['split_fibres'] and '__chains__' not in LAST_MID:
        res.mismatch('hook add_missing_fiber_attributes(network, equipment)', 'not called although a fibre was split',
                     'called')
    monitor_multiband(res, case, eq, net, post, st)
    res.nontrivial = bool(st['inserted_amps'] or st['split_fibres'] or st['padded_spans'])
    res.stats.update(st)
    res.stats.update({'design': 1, f'degree_{case["k"]}': 1, 'power_mode': int(case['span']['power_mode']),
                      'with_raman': int(bool(case.get('has_raman'))), 'with_trx_source': int(bool(case.get('trx_src'))),
                      'eol_nonzero': int(case['span']['EOL'] != 0)})
    return res


def align(p, q):
    """which records of the designed line `q` stand for each input element of `p`, by POSITION: a Fused / user amplifier
    is the record with its uid; an input fibre is the run of consecutive fibre records - separated only by inserted
    amplifiers - whose lengths add up to its length (how sub-spans are named is not looked at). Returns (list of record
    lists, None where an input element is not found in order; the records of q that are neither found input elements nor
    inserted amplifiers)"""
    in_uids = {o['uid'] for o in p}

    def inserted(r):
        return r['kind'] in AMP and r['uid'] not in in_uids
    out, k = [], 0
    for o in p:
        while k < len(q) and inserted(q[k]):
            k += 1
        if o['kind'] not in ('fiber', 'raman'):
            if k < len(q) and q[k]['uid'] == o['uid'] and q[k]['kind'] == o['kind']:
                out.append([q[k]])
                k += 1
            else:
                out.append(None)
            continue
        parts, total, kk = [], 0.0, k
        while kk < len(q):
            r = q[kk]
            if inserted(r):
                kk += 1
                continue
            if r['kind'] not in ('fiber', 'raman') or (r['uid'] in in_uids and r['uid'] != o['uid']):
                break
            parts.append(r)
            total += r['length']
            kk += 1
            if total >= o['length'] * (1 - 1e-9):
                break
        if parts:
            out.append(parts)
            k = kk
        else:
            out.append(None)
    rest = [r['uid'] for r in q[k:] if not inserted(r)]
    return out, rest


def monitor_design(res, case, eq, net, pre, post, ends, reach_before, max_length):
    from gnpy.core import elements as E
    sp = case['span']
    st = {'inserted_amps': 0, 'split_fibres': 0, 'padded_spans': 0, 'amp_to_amp_spans': 0, 'user_amps': 0,
          'fibres': 0, 'fused': 0, 'raman_spans_exempt': 0, 'split_with_att_in_or_lumped': 0, 'split_lumped_losses': 0,
          'split_total_loss_snapshot_missing': 0, 'split_below_max_length': 0, 'fused_edge_spans_below_padding': 0}
    uids = [n.uid for n in net.nodes()]
    if len(uids) != len(set(uids)):
        dup = sorted({u for u in uids if uids.count(u) > 1})
        res.fail(f'unique names: duplicated uids {dup[:3]}')
    line_kinds = (E.Fiber, E.Fused, E.Edfa, E.Multiband_amplifier)
    for n in net.nodes():
        if isinstance(n, line_kinds):
            if net.in_degree(n) != 1 or net.out_degree(n) != 1:
                res.fail(f'one-in/one-out: {n.uid} has in-degree {net.in_degree(n)}, out-degree {net.out_degree(n)}')
                continue
            nxt = next(net.successors(n))
            prv = next(net.predecessors(n))
            if isinstance(n, E.Fiber):
                st['fibres'] += 1
                if isinstance(nxt, E.Fiber):
                    res.fail(f'junction: fibre {n.uid} is followed directly by fibre {nxt.uid}')
                if isinstance(nxt, E.Roadm):
                    res.fail(f'junction: fibre {n.uid} enters ROADM {nxt.uid} without a preamplifier')
                if isinstance(prv, E.Roadm):
                    res.fail(f'junction: fibre {n.uid} leaves ROADM {prv.uid} without a booster')
                if n.params.con_in is None or n.params.con_out is None:
                    res.fail(f'connectors: fibre {n.uid} has con_in={n.params.con_in}, con_out={n.params.con_out}')
            elif isinstance(n, E.Fused):
                st['fused'] += 1
            elif isinstance(n, E.Edfa):
                tv = n.params.type_variety
                if not tv or tv not in eq['Edfa']:
                    res.fail(f'amplifier model: {n.uid} has type_variety {tv!r}, not a library model')
                if n.effective_gain is None or not math.isfinite(n.effective_gain):
                    res.fail(f'amplifier gain: {n.uid} has effective_gain {n.effective_gain}')
                if n.out_voa is None:
                    res.fail(f'amplifier VOA: {n.uid} has no output VOA value')
                if sp['power_mode'] and (n.delta_p is None or n.target_pch_out_dbm is None):
                    res.fail(f'amplifier target: {n.uid} has delta_p {n.delta_p}, target {n.target_pch_out_dbm} in '
                             'power mode')
    # reachability between ROADMs/transceivers
    reach_after = endpoints_graph(net)
    if reach_after != reach_before:
        res.fail(f'reachability: endpoint connections changed from {reach_before} to {reach_after}')
    for i, ch in enumerate(G.all_chains(case)):
        if post[i] is None:
            continue
        if ends[i] is None or ends[i].uid != ch['dst']:
            res.fail(f'reachability: the line from {ch["src"]} no longer ends at {ch["dst"]}')
        p, q = pre[i], post[i]
        # original order: every input element is found again, in the input order, with only inserted amplifiers in between
        # (sub-spans of a fibre are recognised by position and length, not by their names)
        parts_of, rest = align(p, q)
        if any(x is None for x in parts_of) or rest:
            res.fail(f'order: input elements {[o["uid"] for o in p]} appear as {[r["uid"] for r in q]} after design')
            continue
        st['user_amps'] += sum(1 for o in p if o['kind'] in AMP)
        st['inserted_amps'] += sum(1 for r in q if r['kind'] in AMP) - sum(1 for o in p if o['kind'] in AMP)
        orig_att = {}
        # split: equal spans, same length and loss in total
        for o, parts in zip(p, parts_of):
            if o['kind'] not in ('fiber', 'raman'):
                continue
            for j, r in enumerate(parts):
                orig_att[r['uid']] = o['att_in'] if j == 0 else 0.0     # the input attenuation sits at the fibre's input
            L = o['length']
            if len(parts) == 1:
                if L > max_length:
                    res.fail(f'split: fibre {o["uid"]} of {L} m exceeds max_length {max_length} m and is not split')
                if abs(parts[0]['length'] - L) > 1e-9 * L:
                    res.fail(f'split: unsplit fibre {o["uid"]} changed length {L} -> {parts[0]["length"]}')
                continue
            st['split_fibres'] += 1
            n = len(parts)
            lens = [r['length'] for r in parts]
            if max(lens) - min(lens) > 1e-9 * L:
                res.fail(f'split: spans of {o["uid"]} are not equal: {lens[:4]}')
            if abs(sum(lens) - L) > 1e-9 * L:
                res.fail(f'split: spans of {o["uid"]} add up to {sum(lens)} m, original {L} m')
            glass = sum(r['loss_coef'] * r['length'] for r in parts)
            if abs(glass - o['loss_coef'] * L) > 1e-9 * max(1.0, o['loss_coef'] * L):
                res.fail(f'split: spans of {o["uid"]} have fibre loss {glass} dB, original {o["loss_coef"] * L} dB')
            # total loss: fibre attenuation + input attenuation + lumped losses, as add_missing_elements left the spans
            mids = [LAST_MID.get(r['uid']) for r in parts]
            if all(m is not None for m in mids):
                body = sum(m['loss_coef'] * m['length'] + m['att_in'] + sum(x[1] for x in m['lumps']) for m in mids)
                orig = o['loss_coef'] * L + o['att_in'] + sum(x[1] for x in o['lumps'])
                if abs(body - orig) > 1e-9 * max(1.0, orig):
                    res.fail(f'split: spans of {o["uid"]} carry {body:.6f} dB of fibre loss + att_in + lumped losses, the '
                             f'original fibre {orig:.6f} dB (att_in {o["att_in"]}, lumped {[x[1] for x in o["lumps"]]})')
                st['split_with_att_in_or_lumped'] += int(o['att_in'] != 0 or bool(o['lumps']))
                st['split_lumped_losses'] += len(o['lumps'])
            else:
                # the snapshot between completion and padding is missing (the spy was not called): without it only a
                # lower bound can be judged here - padding may only have ADDED input attenuation
                st['split_total_loss_snapshot_missing'] += 1
                body = sum(r['loss_coef'] * r['length'] + r['att_in'] + sum(x[1] for x in r['lumps']) for r in parts)
                orig = o['loss_coef'] * L + o['att_in'] + sum(x[1] for x in o['lumps'])
                if body < orig - 1e-9 * max(1.0, orig):
                    res.fail(f'split: spans of {o["uid"]} carry {body:.6f} dB of fibre loss + att_in + lumped losses, the '
                             f'original fibre {orig:.6f} dB')
            if max(lens) > max_length * (1 + 1e-12):
                res.fail(f'split: spans of {o["uid"]} ({max(lens)} m) still exceed max_length {max_length} m')
            # (a fibre shorter than max_length that is split anyway is not excluded by the statement: counted)
            st['split_below_max_length'] += int(L < max_length)
        # padding on every amplifier-to-amplifier span (Raman spans exempt)
        span = None
        for r in q:
            if r['kind'] in AMP:
                if span:        # closed on both sides by amplifiers
                    st['amp_to_amp_spans'] += 1
                    if any(x['kind'] == 'raman' for x in span):
                        st['raman_spans_exempt'] += 1
                    elif any(x['kind'] == 'fiber' for x in span):
                        loss = sum(G.rec_loss(x) for x in span)
                        padded = any(x['kind'] == 'fiber' and x['att_in'] > orig_att.get(x['uid'], 0.0) + 1e-12
                                     for x in span)
                        touched = any(x['kind'] == 'fiber' and abs(x['att_in'] - orig_att.get(x['uid'], 0.0)) > 1e-12
                                      for x in span)
                        if loss < sp['padding'] - 1e-9:
                            # the open finding is a span that begins or ends with a Fused and was NOT padded at all; a
                            # span that did receive padding, but not enough, is something else
                            edge_fused = (span[0]['kind'] == 'fused' or span[-1]['kind'] == 'fused') and not touched
                            st['fused_edge_spans_below_padding'] += int(edge_fused)
                            res.fail(f'padding: span {[x["uid"] for x in span]} between two amplifiers has '
                                     f'{loss:.6f} dB < padding {sp["padding"]} dB'
                                     + ('' if not touched else ' although the input attenuation was changed'),
                                     cls='fused-edge-span-unpadded' if edge_fused else 'unlisted')
                        if padded:
                            st['padded_spans'] += 1
                span = []
            elif span is not None:
                span.append(r)
    return st


def monitor_multiband(res, case, eq, net, post, st):
    """every Multiband_amplifier of the designed network: a multi_band library model, and one per-band amplifier for each
    design band of its OMS, each with a library model of that multiband model, a gain and an output VOA (and a power
    offset in power mode)"""
    by = nets.by_uid(net)
    st['multiband_amps'] = 0
    for i, ch in enumerate(G.all_chains(case)):
        if post[i] is None or not any(r['kind'] == 'multiband' for r in post[i]):
            continue
        src = by[ch['src']]
        bands = src.per_degree_design_bands.get(post[i][0]['uid'], [])
        for r in post[i]:
            if r['kind'] != 'multiband':
                continue
            st['multiband_amps'] += 1
            lib = eq['Edfa'].get(r['variety'])
            if lib is None or getattr(lib, 'type_def', None) != 'multi_band':
                res.fail(f'amplifier model: Multiband_amplifier {r["uid"]} has type_variety {r["variety"]!r}, not a '
                         'multi_band library model')
                continue
            if len(r['amps']) != len(bands) or len(bands) < 2:
                res.fail(f'multiband: {r["uid"]} has {len(r["amps"])} per-band amplifiers for {len(bands)} design bands '
                         f'of degree {post[i][0]["uid"]}')
            for b, a in r['amps'].items():
                if a['variety'] not in lib.multi_band:
                    res.fail(f'multiband: {r["uid"]} band {b}: amplifier model {a["variety"]!r} is not part of {r["variety"]}')
                if a['effective_gain'] is None or not math.isfinite(a['effective_gain']) or a['out_voa'] is None:
                    res.fail(f'multiband: {r["uid"]} band {b}: gain {a["effective_gain"]}, out_voa {a["out_voa"]}')
                if case['span']['power_mode'] and a['delta_p'] is None:
                    res.fail(f'multiband: {r["uid"]} band {b}: no delta_p in power mode')
    if case.get('eqpt'):
        st['multiband_cases'] = 1
        st['multiband_designed'] = 1


def run_malformed(case, drv):
    res = Result()
    topo = G.topology_json(case)
    ch = case['chains'][case['which']]
    last = ch['line'][-1]['uid']
    expected = 'NetworkTopologyError'
    if case['what'] == 'dangling':
        topo['connections'] = [c for c in topo['connections'] if not (c['from_node'] == last and c['to_node'] == ch['dst'])]
    elif case['what'] == 'lump-on-boundary':
        # a 200 km fibre becomes 2 x 100 km: a lumped loss at km 100 would sit at position 0 of the second span, which the
        # Fiber constructor rejects
        return run_lump_boundary(case, drv)
    else:
        topo['elements'].append(dict(nets.fiber('lonely', 40.0), metadata=nets.loc()))
    try:
        eq, net = _load(case, topo)
        err, _ = design_impl(case, eq, net)
    except Exception as e:      # noqa: BLE001
        err = err_kind(e)
    lo, hi, target = G.split_bounds(case['span'])
    recs = [G.record(n) for n in []]
    a = drv.ask('c08.design', **model_chain(case, ch, recs, lo, hi, target, connected=False))
    res.cmp_exact('designed_network.error(malformed)', err, a.get('error'))
    # monitor: the topology must be rejected; WHICH error it is rejected with is compared with the model above
    if err is None:
        res.fail(f'malformed accepted: a topology with a {case["what"]} line element was designed')
    res.nontrivial = True
    res.stats.update({'malformed': 1, f'malformed_{case["what"]}': 1, f'malformed_error_{err}': 1})
    return res


def run_lump_boundary(case, drv):
    res = Result()
    c = copy.deepcopy(case)
    c['span'].update({'max_length': 150, 'padding': 10})
    ch = {'src': 'R0', 'dst': 'R1',
          'line': [{"uid": "lb 0", "type": "Fiber", "type_variety": "SSMF",
                    "params": {"length": 200.0, "length_units": "km", "loss_coef": 0.2, "con_in": None, "con_out": None,
                               "att_in": 1.0, "lumped_losses": [{"position": 100.0, "loss": 1.0}]}}]}
    c['chains'] = [ch] + [x for x in c['chains'] if not (x['src'] == 'R0' and x['dst'] == 'R1')]
    c['per_degree'] = {}
    eq, net = _load(c)
    pre_objs, _ = G.chains_of(net, c)
    recs = [G.record(n) for n in pre_objs[0]]          # before the design: split_fiber mutates the fibre before it raises
    err, _ = design_impl(c, eq, net)
    lo, hi, target = G.split_bounds(c['span'])
    a = drv.ask('c08.design', **model_chain(c, ch, recs, lo, hi, target))
    res.cmp_exact('designed_network.error(lump on span boundary)', err, a.get('error'))
    if err is None:
        res.fail('malformed accepted: a lumped loss exactly on a sub-span boundary was designed')
    res.nontrivial = True
    res.stats.update({'malformed': 1, 'malformed_lump-on-boundary': 1, f'malformed_error_{err}': 1})
    return res


def shrink_candidates(case):
    if case['kind'] == 'calc':
        return
    for c in G.shrink_candidates(case):
        if case['kind'] == 'malformed':
            if c['k'] != case['k'] or len(G.all_chains(c)) != len(G.all_chains(case)):
                continue
        yield c


def small_scope_cases(kind='design'):
    """complete enumeration of a small scope: every line of 1-3 elements over {short fibre, long fibre, Fused,
    user Edfa} from R0 to R1 (default configuration, padding 10, max_length 150 km)"""
    import itertools
    alphabet = {
        'f': lambda u: {"uid": u, "type": "Fiber", "type_variety": "SSMF",
                        "params": {"length": 20.0, "length_units": "km", "loss_coef": 0.2, "con_in": None, "con_out": None}},
        'F': lambda u: {"uid": u, "type": "Fiber", "type_variety": "SSMF",
                        "params": {"length": 310.0, "length_units": "km", "loss_coef": 0.2, "con_in": 0.5, "con_out": None}},
        'u': lambda u: {"uid": u, "type": "Fused", "params": {"loss": 1}},
        'e': lambda u: {"uid": u, "type": "Edfa"},
    }
    span = {'power_mode': True, 'delta_power_range_db': [-2, 3, 0.5], 'power_slope': 0.3, 'span_loss_ref': 20.0,
            'padding': 10, 'EOL': 0, 'con_in': 0, 'con_out': 0, 'max_length': 150, 'length_units': 'km',
            'voa_margin': 1, 'voa_step': 0.5, 'target_extended_gain': 2.5, 'max_fiber_lineic_loss_for_raman': 0.25}
    for n in (1, 2, 3):
        for word in itertools.product('fFue', repeat=n):
            line = [alphabet[c](f'x{i}') for i, c in enumerate(word)]
            yield {'kind': kind, 'k': 1,
                   'chains': [{'src': 'R0', 'dst': 'R1', 'line': line},
                              {'src': 'R1', 'dst': 'R0', 'line': [alphabet['f']('back')]}],
                   'trx_src': None, 'roadms': {'R0': {}, 'R1': {}}, 'per_degree': {}, 'span': dict(span),
                   'si': {'power_dbm': 0, 'tx_power_dbm': 0, 'use_si_channel_count_for_design': True},
                   'edfa_mod': {}, 'has_raman': False}


def exhaustive():
    yield from small_scope_cases('design')
