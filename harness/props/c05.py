"""C05 — fibre spans apply exactly their loss budget and accumulate CD, PMD, PDL, latency; Raman statements.

Correspondence: Fiber.__call__ (Raman off) output pch / chromatic_dispersion / pmd / pdl / latency and Fiber.loss vs
Gnpy.Fiber.spanOut / spanContribution / accStep / spanLossDb; accumulated figures over shuffled paths of real Fiber, Roadm,
Edfa, Fused objects vs Gnpy.Fiber.accPath; constructor / call rejections; Raman: calculate_unidirectional_stimulated_
raman_scattering (numerical and perturbative order 1-4, with lumped losses) vs Gnpy.Raman.euler / perturbative on the
solver's own z grid.
Monitor: loss budget per channel in dB; CD and latency increments independent of what was accumulated before; PMD/PDL in
quadrature with the element values of the case; order independence over two orderings of the same elements; Raman on:
low-power limit -> loss budget, perturbative vs numerical, each lumped loss counted once, counter-pumps only add gain
(tolerances derived in the code below and in DESIGN 5/C05).
"""
import copy
import math
import random
import warnings

import numpy as np

from common.util import Result, f2b, b2f, fl, err_kind
from common import fibres as FB
from common import nets

warnings.filterwarnings('ignore')

ID = 'C05'
N = {'quick': 1500, 'thorough': 30000}
LEAN_MODULES = ['GnpyProofs.Props.C05']
THEOREMS = [f'Gnpy.Fiber.{t}' for t in (
    'exp_alpha_is_db', 'lumped_once', 'createLumped_sorted', 'propagateP_eq', 'loss_budget', 'span_loss_budget',
    'lumped_same_position_failed_before_fix', 'cd_additive', 'latency_additive', 'quadrature_fold', 'quadrature_perm',
    'pmd_quadrature', 'pdl_quadrature', 'path_order_irrelevant', 'fibre_pmd_sq', 'fibre_pdl_unchanged', 'latency_formula',
    'cd_at_ref', 'split_span_invariant')] + [f'Gnpy.Raman.{t}' for t in (
    'euler_zero_cr', 'eulerFactor_bounds', 'perturbative_zero_cr', 'perturbGo_zero_cr', 'perturbative_zero_cr_grid',
    'perturbative_low_power', 'gamma1_bound', 'createLumped_prod', 'euler_budget',
    'counterprop_gain_only_partial', 'gamma1_nonneg', 'trapz_nonneg', 'sprs_term_nonneg', 'sprs_ase_nonneg',
    'sprs_pump_order_irrelevant', 'sprs_misindexed_can_be_negative_old')]
RULE = ('cases from one PRNG: (a) one span: random fibre (0.1-300 km in km or m, scalar or per-frequency loss, 0-3 lumped '
        'losses, ~6 % with two lumped losses at one position, connectors, padding, dispersion +/-/slope/table) x comb of 1-24 '
        'channels (quick) with random previously accumulated CD/PMD/PDL/latency; (b) paths of 2-8 real elements (Fiber, Roadm '
        'with per-band PMD/PDL, Edfa with PMD/PDL, Fused; 25 % identical spans, else all different) crossed in the given and '
        'in a shuffled order; (c) ~10 % malformed (lumped loss outside the fibre, loss table not covering the comb); '
        '(d) Raman-on cases on Fiber and RamanFiber objects (with and without counter-pumps, ~60 % with user padding att_in, '
        'connector losses); per-frequency loss / dispersion tables are listed in ascending, descending or shuffled order. non-trivial: (a) always, (b) when the elements differ and the order was really changed, '
        '(d) when the Raman effect exceeds 1e-4 dB; distinct = canonical JSON of the case')
MODEL_SCOPE = ('modelled: Fiber.__init__ lumped-loss conversion and position check, Fiber.propagate (Raman off), '
               'RamanSolver._create_lumped_losses and calculate_attenuation_profile, apply_attenuation_db, Fiber.loss, '
               'loss_coef_func/alpha (scalar and per-frequency; interp1d sorts the table), chromatic_dispersion, beta2, beta3 (scalar dispersion), pmd, '
               'FiberParams latency, the PMD/PDL updates of Roadm.propagate and Edfa.propagate. Taken from the implementation: '
               'beta3 for dispersion tables (numpy.polyfit), the ROADM impairment lookup per frequency')
PARTIAL = [
    'raman_methods_agree_partial: "the perturbative and numerical methods agree" is a numerical-analysis statement with a '
    'resolution- and power-dependent error; NOT a theorem. Monitor: |perturbative(order k) - numerical| <= '
    '(10/ln10)(2 (a+Y)^2 sum dz^2 (1+X) + X^(k+1)) dB without counter-pumps (Euler bound proved as eulerFactor_bounds, '
    'truncation bound X^(k+1) heuristic), <= (10/ln10) 1e-3 (aL + |ln G|) with counter-pumps (both run iterative_algorithm, '
    'which stops at relative accuracy 1e-3 of d ln P/dz)',
    'counterprop_gain_only_partial: proved: the first-order perturbative term of a channel is non-negative when every wave '
    'has non-negative Raman efficiency onto it (pumps above the signal); the full statement (output power with '
    'counter-propagating pumps on >= with pumps off, iterative algorithm, any setting) is checked by the monitor only',
    'low-power limit: proved for the unidirectional solver at zero Raman efficiency (euler_zero_cr + eulerFactor_bounds: Euler '
    'equals the budget up to 2 a^2 sum dz^2 Neper; perturbative_zero_cr_grid: orders 0-4 give exactly exp(-aL) x the lumped '
    'factors inside the fibre, each once) and, for order 1, linearity of the Raman term in the power scale '
    '(perturbative_low_power); a quantitative bound at small non-zero power, iterative_algorithm and the interpolation to the '
    'result grid are under correspondence / monitor only',
    'lumped loss counted once with Raman on: theorem for Raman off (lumped_once) and for Euler at zero Raman efficiency '
    '(euler_zero_cr: every lumped factor of the grid exactly once); with Raman on at finite power: monitor at low power']

MANIFEST = {
    'text': ('Raman off: theorems over the reals for every fibre and path: the span attenuates by exactly padding + connectors + '
             'length x loss coefficient + all lumped losses (each once, also when they share a position), CD and latency '
             'add linearly, PMD/PDL in quadrature over fibres, ROADMs and amplifiers, all four independent of the element '
             'order; tied to Fiber/Roadm/Edfa objects by the correspondence check and a monitor. Raman on: the '
             'unidirectional solver (explicit Euler, perturbative orders 0-4 with lumped losses) is modelled and under '
             'correspondence; proved: at zero Raman efficiency Euler is the grid product within 2 a^2 sum dz^2 Neper of the '
             'budget and the perturbative method is exactly the budget with each lumped loss once; first-order term linear '
             'in the power scale and non-negative for non-negative efficiencies. "Methods agree", the gain-only statement at '
             'full order and the iterative co/counter algorithm are covered by the monitor only; the spontaneous Raman ASE is modelled (inputs: SRS profiles, cr) with non-negativity and pump-order theorems (see level_note).'),
}

SIM_OFF = {'raman_params': {'flag': False}, 'nli_params': {'method': 'gn_model_analytic'}}
POL_RANGE = (190e12, 200e12)
AMPS = ['std_medium_gain', 'std_low_gain', 'std_high_gain', 'std_fixed_gain']


# ---------------------------------------------------------------------------------------------------------------------
# generators
# ---------------------------------------------------------------------------------------------------------------------

def gen(rng, tier, widen=False):
    k = rng.random()
    if k < 0.42:
        return gen_span(rng, tier, widen)
    if k < 0.74:
        return gen_path(rng, tier, widen)
    if k < 0.80:
        return gen_designed(rng, tier)
    if k < 0.85:
        return gen_sprs(rng, tier)
    if k < 0.92:
        return gen_malformed(rng, tier)
    return gen_raman(rng, tier, widen)


def _init(rng, n, zero=False):
    if zero:
        return {'cd': [0.0] * n, 'pmd': [0.0] * n, 'pdl': [0.0] * n, 'latency': [0.0] * n}
    return {'cd': [round(rng.uniform(-2, 6), 6) for _ in range(n)],
            'pmd': [round(rng.uniform(0, 5), 4) * 1e-12 for _ in range(n)],
            'pdl': [round(rng.uniform(0, 2), 4) for _ in range(n)],
            'latency': [round(rng.uniform(0, 1e-2), 9) for _ in range(n)]}


def gen_span(rng, tier, widen):
    comb = FB.gen_comb(rng, 24 if tier == 'quick' else 96, widen)
    fib = FB.gen_fibre(rng, min(comb['f']) - 1e9, max(comb['f']) + 1e9, widen)
    n = len(comb['f'])
    case = {'kind': 'span', 'fibre': fib, 'comb': comb, 'init': _init(rng, n, zero=rng.random() < 0.2),
            'init2': _init(rng, n)}
    if rng.random() < 0.06:
        # two lumped losses at one position (finding F12, fixed by 74081ba1; corpus/C05/lumped_same_position.json)
        lkm = FB.length_m(fib) * 1e-3
        z = round(rng.uniform(0.1, 0.9) * lkm, 4)
        fib['lumped_losses'] = [{'position': z, 'loss': rng.choice([0.5, 1.0, 2.0])},
                                {'position': z, 'loss': rng.choice([0.25, 1.5, 3.0])}]
        if rng.random() < 0.5:
            fib['lumped_losses'].append({'position': round(z / 2, 4), 'loss': 0.7})
    return case


def _gen_element(rng, f_lo, f_hi, widen):
    t = rng.choice(['fiber', 'fiber', 'fiber', 'roadm', 'edfa', 'fused'])
    if t == 'fiber':
        return {'type': 'fiber', 'params': FB.gen_fibre(rng, f_lo, f_hi, widen, lumped=rng.random() < 0.3)}
    if t == 'roadm':
        split = rng.random() < 0.4
        vals = [[rng.choice([0.0, 0.5e-12, 3e-12, round(rng.uniform(0, 8), 3) * 1e-12]),
                 rng.choice([0.0, 0.3, 1.5, round(rng.uniform(0, 2), 3)])] for _ in range(2)]
        mid = (f_lo + f_hi) / 2 + 1e9
        ranges = [[POL_RANGE[0], mid] + vals[0], [mid, POL_RANGE[1]] + vals[1]] if split else [list(POL_RANGE) + vals[0]]
        return {'type': 'roadm', 'ranges': ranges}
    if t == 'edfa':
        return {'type': 'edfa', 'variety': rng.choice(AMPS), 'gain': rng.choice([15.0, 20.0, 17.5, 22.0]),
                'pmd': rng.choice([0.0, 1e-12, 3e-12, round(rng.uniform(0, 5), 3) * 1e-12]),
                'pdl': rng.choice([0.0, 0.5, 0.2, round(rng.uniform(0, 1), 3)])}
    return {'type': 'fused', 'loss': rng.choice([0.0, 1.0, 0.5])}


def gen_path(rng, tier, widen):
    comb = FB.gen_comb(rng, 12 if tier == 'quick' else 40, widen, start=rng.choice([191.4e12, 192.0e12, 193.0e12]))
    while max(comb['f']) + max(comb['slot']) > 196.0e12 or len(comb['f']) < 2:
        comb = FB.gen_comb(rng, 12, widen, start=191.4e12)
    f_lo, f_hi = min(comb['f']) - 1e9, max(comb['f']) + 1e9
    k = rng.randint(2, 8)
    els = [_gen_element(rng, f_lo, f_hi, widen) for _ in range(k)]
    if not any(e['type'] == 'fiber' for e in els):
        els[0] = {'type': 'fiber', 'params': FB.gen_fibre(rng, f_lo, f_hi, widen, lumped=False)}
    if rng.random() < 0.25:
        # identical spans would hide a per-span error that cancels: most paths have different ones, some identical
        els = [copy.deepcopy(els[0]) for _ in range(k)]
    order2 = list(range(k))
    rng.shuffle(order2)
    n = len(comb['f'])
    return {'kind': 'path', 'comb': comb, 'elements': els, 'order2': order2, 'init': _init(rng, n, zero=rng.random() < 0.3)}


LIB_FIBRES = {'SSMF': (1.67e-05, 8.3e-11), 'NZDF': (5e-06, 7.2e-11), 'LOF': (2.2e-05, 1.25e-10)}   # dispersion, A_eff


def gen_designed(rng, tier):
    """ROADM - fibres - ROADM given as ONE element per fibre, some longer than the Span max_length (150 km): auto-design
    cuts them (split_fiber rebuilds the sub-spans from FiberParams.asdict()) and inserts amplifiers; the figures accumulated
    at the receiver must be those of the ORIGINAL fibres"""
    k = rng.choice([1, 1, 2, 3, 4])
    line = []
    for i in range(k):
        if i == 0 or rng.random() < 0.6:
            L = rng.choice([151.0, 150.0, 300.0, 299.9, 420.0, 600.0, round(rng.uniform(151, 600), 3),
                            round(rng.uniform(151, 330), 1)])
        else:
            L = rng.choice([80.0, 20.0, 120.0, 149.9, round(rng.uniform(20, 149), 3)])
        e = {'length': L, 'variety': rng.choice(list(LIB_FIBRES)), 'loss_coef': rng.choice([0.2, 0.2, 0.22, 0.19, 0.25])}
        if rng.random() < 0.6:
            e['pmd_coef'] = rng.choice([0.4e-15, 2.0e-15, 3.1e-15, round(rng.uniform(0.1, 3), 3) * 1e-15])
        # what belongs to one place of the fibre (fixes 90cb5026 / 02632740: kept once when the design cuts the fibre)
        if rng.random() < 0.3:
            nk = rng.randint(2, 5)
            freqs = [190.5e12 + (197.0e12 - 190.5e12) * j / (nk - 1) for j in range(nk)]
            e['loss_coef'] = FB._table(rng, freqs, [round(rng.uniform(0.18, 0.26), 4) for _ in range(nk)])
        if rng.random() < 0.35:
            e['att_in'] = rng.choice([1.0, 2.0, 0.5, round(rng.uniform(0.1, 4), 2)])
        if rng.random() < 0.4:
            # positions with a 4th decimal 7: never on a boundary k L / n of the cut
            e['lumped_losses'] = [{'position': round(rng.uniform(0.02, 0.98) * L, 3) + 0.0007,
                                   'loss': rng.choice([0.5, 1.0, 2.0, round(rng.uniform(0.1, 2), 2)])}
                                  for _ in range(rng.randint(1, 3))]
        line.append(e)
    return {'kind': 'designed', 'line': line}


def gen_malformed(rng, tier):
    comb = FB.gen_comb(rng, 8)
    fib = FB.gen_fibre(rng, min(comb['f']) - 1e9, max(comb['f']) + 1e9, lumped=False)
    n = len(comb['f'])
    bad = rng.choice(['lumped_position', 'lumped_position', 'loss_table'])
    lkm = FB.length_m(fib) * 1e-3
    if bad == 'lumped_position':
        z = rng.choice([0.0, lkm, lkm + 1.0, -1.0, lkm * 1.5])
        fib['lumped_losses'] = [{'position': round(0.5 * lkm, 4), 'loss': 1.0}, {'position': z, 'loss': 0.5}]
        rng.shuffle(fib['lumped_losses'])
    else:
        lo, hi = min(comb['f']), max(comb['f'])
        a, b = (lo + 1e9, hi + 1e12) if rng.random() < 0.5 else (lo - 1e12, hi - 1e9)
        if n == 1:
            a, b = lo + 1e9, lo + 2e12
        fib['loss_coef'] = FB._table(rng, [a, (a + b) / 2, b], [0.2, 0.22, 0.21])
    return {'kind': 'malformed', 'bad': bad, 'fibre': fib, 'comb': comb, 'init': _init(rng, n, zero=True)}


def gen_sprs(rng, tier):
    """spontaneous Raman scattering: RamanFiber with 1-4 pumps, co- and counter-propagating in ANY list order, above and
    below the signal band (the SRS result lists co-propagating pumps first whatever the list order)"""
    n = rng.randint(2, 8)
    lo = rng.choice([186.5e12, 188.0e12, 191.3e12])
    hi = rng.choice([196.0e12, 197.0e12, 193.5e12])
    slots = sorted(rng.sample(range(int((hi - lo) / 100e9)), n))
    comb = {'style': 'raman', 'f': [lo + 50e9 + k * 100e9 for k in slots], 'b': [rng.choice([32e9, 64e9]) for _ in range(n)],
            'slot': [100e9] * n, 'p_dbm': [round(rng.uniform(-3, 5), 2) for _ in range(n)]}
    fib = FB.gen_fibre(rng, 185e12, 208e12, lumped=False)
    fib['length'] = round(rng.uniform(3, 50), 3)
    fib['length_units'] = 'km'
    if rng.random() < 0.4:
        fib['lumped_losses'] = [{'position': round(rng.uniform(0.05, 0.95) * fib['length'], 3), 'loss': rng.choice([0.5, 1.0])}]
    freqs = rng.sample([199e12, 201e12, 203e12, 205e12, 206e12, 185.5e12, 185.8e12], rng.randint(1, 4))
    pumps = []
    for f in freqs:
        d = rng.choice(['coprop', 'counterprop'])
        pumps.append({'power': round(rng.uniform(0.02, 0.12) if d == 'coprop' else rng.uniform(0.05, 0.3), 4),
                      'frequency': f, 'propagation_direction': d})
    if len(pumps) >= 2 and rng.random() < 0.5:
        # the order F23 was about: a counter-propagating pump listed before a co-propagating one
        pumps[0]['propagation_direction'], pumps[1]['propagation_direction'] = 'counterprop', 'coprop'
        pumps[1]['power'] = min(pumps[1]['power'], 0.12)
    return {'kind': 'sprs', 'fibre': fib, 'comb': comb, 'pumps': pumps, 'method': rng.choice(['perturbative', 'numerical']),
            'order': rng.choice([1, 2, 3]), 'solver_res': rng.choice([200, 500]), 'result_res': rng.choice([1e3, 5e3]),
            'temperature': rng.choice([283, 298, 273.15]), 'init': _init(rng, n, zero=True)}


def gen_raman(rng, tier, widen):
    """Raman on: wide sparse comb (so that the inter-channel transfer is visible), optional counter-propagating pumps
    above the signal band (as in raman_edfa_example_network.json), random solver settings"""
    n = rng.randint(2, 8 if tier == 'quick' else 16)
    lo = rng.choice([186.0e12, 188.0e12, 191.3e12])
    hi = rng.choice([196.0e12, 197.0e12, 193.0e12])
    slots = sorted(rng.sample(range(int((hi - lo) / 100e9)), n))
    comb = {'style': 'raman', 'f': [lo + 50e9 + k * 100e9 for k in slots], 'b': [rng.choice([32e9, 64e9])] * n,
            'slot': [100e9] * n, 'p_dbm': [round(rng.uniform(-3, 7), 2) for _ in range(n)]}
    fib = FB.gen_fibre(rng, 185e12, 208e12, lumped=False)
    fib['length'] = round(rng.choice([rng.uniform(3, 40), rng.uniform(20, 100), 80.0]), 3)
    fib['length_units'] = 'km'
    # padding and connector losses on a Raman span are legal input (auto-design never pads a RamanFiber, users may)
    if rng.random() < 0.6:
        fib['att_in'] = rng.choice([1.0, 2.5, 0.5, round(rng.uniform(0.1, 6), 2)])
    if fib['con_in'] == 0 and rng.random() < 0.7:
        fib['con_in'] = rng.choice([0.5, 0.25, 1.0])
    pumps = []
    if rng.random() < 0.55:
        free = [k for k in range(1, int((hi - lo) / 100e9) - 1) if k not in slots and k - 1 not in slots and k + 1 not in slots]
        for _ in range(rng.randint(1, 2)):
            where = rng.choice(['above', 'above', 'above', 'below', 'gap'])
            if where == 'gap' and not free:
                where = 'above'
            f = {'above': rng.choice([201e12, 203e12, 205e12, 206e12]), 'below': rng.choice([185.5e12, 185.8e12]),
                 'gap': (lo + 50e9 + rng.choice(free) * 100e9) if free else None}[where]
            d = rng.choice(['counterprop', 'counterprop', 'coprop'])
            pumps.append({'power': round(rng.uniform(0.02, 0.1) if d == 'coprop' else rng.uniform(0.05, 0.3), 4),
                          'frequency': f, 'propagation_direction': d})
        if len(pumps) == 2 and pumps[0]['frequency'] == pumps[1]['frequency']:
            pumps.pop()
        fib['length'] = min(fib['length'], 60.0)
    if rng.random() < 0.6:
        k = rng.randint(1, 2)
        fib['lumped_losses'] = [{'position': round(rng.uniform(0.05, 0.95) * fib['length'], 3),
                                 'loss': rng.choice([0.5, 1.0, 2.0, round(rng.uniform(0.1, 3), 2)])} for _ in range(k)]
        if k == 2 and fib['lumped_losses'][0]['position'] == fib['lumped_losses'][1]['position']:
            fib['lumped_losses'].pop()
    method = rng.choice(['perturbative', 'perturbative', 'numerical'])
    res = rng.choice([100, 200, 500] if pumps else [50, 100, 200, 500, 1000])
    return {'kind': 'raman', 'fibre': fib, 'comb': comb, 'pumps': pumps, 'method': method,
            'order': rng.choice([1, 2, 2, 3, 4]), 'solver_res': res, 'result_res': rng.choice([1e3, 5e3, 10e3]),
            'temperature': 283, 'init': _init(rng, n, zero=True), 'raman_class': bool(pumps) or rng.random() < 0.6}


# ---------------------------------------------------------------------------------------------------------------------
# helpers
# ---------------------------------------------------------------------------------------------------------------------

def _si(comb, init, pw=None):
    from gnpy.core.info import create_arbitrary_spectral_information
    pw = [10 ** (x / 10) * 1e-3 for x in comb['p_dbm']] if pw is None else pw
    return create_arbitrary_spectral_information(comb['f'], pch=pw, baud_rate=comb['b'], tx_osnr=40.0, tx_power=pw,
                                                 slot_width=comb['slot'], roll_off=0.0, label='x',
                                                 chromatic_dispersion=init['cd'], pmd=init['pmd'], pdl=init['pdl'],
                                                 latency=init['latency'])


def _span_json(p, beta3=None):
    return {'fibre': FB.fibre_json(p), 'con_in': f2b(p['con_in']), 'att_in': f2b(p.get('att_in', 0)),
            'con_out': f2b(p['con_out']),
            'lumped': [[f2b(x['position']), f2b(x['loss'])] for x in p.get('lumped_losses', [])],
            'pmd_coef': f2b(p['pmd_coef']), 'beta3': None if beta3 is None else fl(beta3)}


def _beta3(fiber, p, freq):
    """numpy polyfit (dispersion tables) is not modelled: its result is handed to the model"""
    if 'dispersion_per_frequency' in p:
        return [float(x) for x in np.atleast_1d(fiber.beta3(np.array(freq))) * np.ones(len(freq))]
    return None


def _init_json(init):
    return {k: fl(v) for k, v in init.items()}


def _acc(si):
    return {'cd': [float(x) for x in si.chromatic_dispersion], 'pmd': [float(x) for x in si.pmd],
            'pdl': [float(x) for x in si.pdl], 'latency': [float(x) for x in si.latency]}


def _cmp_acc(res, name, impl, ans):
    res.cmp_floats(name + '.chromatic_dispersion', impl['cd'], [b2f(x) for x in ans['cd']], abs_=1e-15)
    res.cmp_floats(name + '.pmd', impl['pmd'], [b2f(x) for x in ans['pmd']], abs_=1e-30)
    res.cmp_floats(name + '.pdl', impl['pdl'], [b2f(x) for x in ans['pdl']], abs_=1e-15)
    res.cmp_floats(name + '.latency', impl['latency'], [b2f(x) for x in ans['latency']], abs_=1e-18)


def budget_db(p, f):
    """the statement: padding + input connector + length x loss coefficient + lumped losses + output connector"""
    lkm = FB.length_m(p) * 1e-3
    return (p.get('att_in', 0) + p['con_in'] + lkm * FB.loss_db_per_km(p, f)
            + sum(x['loss'] for x in p.get('lumped_losses', [])) + p['con_out'])


def _dup_positions(p):
    pos = [x['position'] for x in p.get('lumped_losses', [])]
    return len(set(pos)) != len(pos)


# ---------------------------------------------------------------------------------------------------------------------
# run
# ---------------------------------------------------------------------------------------------------------------------

def run(case, drv):
    if case['kind'] == 'raman':
        return run_raman(case, drv)
    if case['kind'] == 'sprs':
        return run_sprs(case, drv)
    with FB.sim_params(SIM_OFF):
        return {'span': run_span, 'path': run_path, 'malformed': run_span, 'designed': run_designed}[case['kind']](case, drv)


def _accepted_malformed_low_power(res, p, comb, init, fiber, freq, pin):
    """a fibre description the generator meant to be rejected but the implementation accepts must still obey the property:
    the Raman-on solver in the low-power limit applies length x loss coefficient + every lumped loss once"""
    from gnpy.core.science_utils import RamanSolver
    n = len(freq)
    low = _si(comb, init, pw=[x * 1e-7 for x in pin])
    with FB.sim_params({'raman_params': {'flag': True, 'method': 'perturbative', 'order': 1,
                                         'solver_spatial_resolution': 10e3, 'result_spatial_resolution': 10e3}}):
        srs = RamanSolver.calculate_stimulated_raman_scattering(low, fiber)
    glass = [FB.length_m(p) * 1e-3 * FB.loss_db_per_km(p, f) + sum(x['loss'] for x in p.get('lumped_losses', []))
             for f in freq]
    for i in range(n):
        got = -10 * math.log10(float(srs.loss_profile[i, -1]))
        if abs(got - glass[i]) > 1e-6:
            res.fail(f'low-power limit: an accepted fibre with lumped losses at {[x["position"] for x in p.get("lumped_losses", [])]} km '
                     f'of {FB.length_m(p) * 1e-3} km: the Raman solver attenuates channel {i} by {got:.6f} dB, length x loss '
                     f'coefficient + lumped losses = {glass[i]:.6f} dB', channel=i)
            break


def run_span(case, drv):
    res = Result()
    p, comb, init = case['fibre'], case['comb'], case['init']
    n = len(comb['f'])
    res.stats.update({'kind_' + case['kind'] + ('_' + case['bad'] if case['kind'] == 'malformed' else ''): 1})
    si = _si(comb, init)
    freq = [float(x) for x in si.frequency]
    pin = [float(x) for x in si.pch]
    try:
        fiber = FB.mk_fiber(p)
        out = fiber(si)
        impl_err = None
    except Exception as e:  # noqa
        fiber, out, impl_err = None, None, err_kind(e)
    beta3 = _beta3(fiber, p, freq) if fiber is not None else None
    ans = drv.ask('c05.span', f=fl(freq), p=fl(pin), init=_init_json(init), **_span_json(p, beta3))
    if impl_err is not None or 'error' in ans:
        res.cmp_exact('Fiber.error-kind', impl_err, ans.get('error'))
        if impl_err is None and case['kind'] == 'malformed' and case.get('bad') == 'lumped_position':
            _accepted_malformed_low_power(res, p, comb, init, fiber, freq, pin)
        if case['kind'] != 'malformed':
            res.fail(f'rejected: a well-formed fibre/spectrum was rejected with {impl_err}')
        res.stats.update({'rejected_' + str(impl_err): 1})
        return res
    # (a malformed input that is accepted disagrees with the model's decision above: C05 has no rejection clause)
    pout = [float(x) for x in out.pch]
    res.cmp_floats('Fiber.__call__.pch', pout, [b2f(x) for x in ans['pch']], abs_=0.0)
    _cmp_acc(res, 'Fiber.__call__', _acc(out), ans)
    try:
        impl_loss = float(fiber.loss)
    except Exception as e:  # noqa  (reference frequency outside the loss table)
        impl_loss = err_kind(e)
    if isinstance(impl_loss, str) or ans['loss'] is None:
        res.cmp_exact('Fiber.loss', impl_loss, 'SpectrumError' if ans['loss'] is None else b2f(ans['loss']))
    else:
        res.cmp_float('Fiber.loss', impl_loss, b2f(ans['loss']), abs_=1e-9)
    # ---- the interpolation kernels themselves (numpy.interp clamps, interp1d raises outside the table)
    if isinstance(p['loss_coef'], dict) and len(p['loss_coef']['value']) > 1:
        from scipy.interpolate import interp1d
        xp, fp = p['loss_coef']['frequency'], p['loss_coef']['value']      # listed in any frequency order
        xs = freq + [min(xp) - 1e9, max(xp) + 1e9, min(xp), max(xp), xp[len(xp) // 2]]
        ia = drv.ask('c05.interp', x=fl(xs), table=[[f2b(a), f2b(b)] for a, b in zip(xp, fp)])
        sx, sf = zip(*sorted(zip(xp, fp)))                                  # numpy.interp needs ascending abscissae
        res.cmp_floats('numpy.interp', np.interp(xs, sx, sf), [b2f(v) for v in ia['interp']])
        f1 = interp1d(xp, fp)
        impl1 = []
        for x in xs:
            try:
                impl1.append(float(f1(x)))
            except ValueError:
                impl1.append(None)
        model1 = [None if v is None else b2f(v) for v in ia['interp1d']]
        res.cmp_exact('interp1d.bounds', [v is None for v in impl1], [v is None for v in model1])
        res.cmp_floats('interp1d', [v for v in impl1 if v is not None],
                       [m for v, m in zip(impl1, model1) if v is not None and m is not None])
    # ---- monitor: the loss budget, channel by channel, in dB
    dup = _dup_positions(p)
    for i in range(n):
        got = 10 * math.log10(pin[i] / pout[i])
        want = budget_db(p, freq[i])
        if abs(got - want) > 1e-9:
            res.fail(f'loss budget: channel {i} at {freq[i]:.0f} Hz is attenuated by {got:.9f} dB, padding + connectors + '
                     f'length x loss coefficient + lumped losses = {want:.9f} dB',
                     channel=i)
            break
    # ---- monitor: CD and latency increments do not depend on what was accumulated before; PMD in quadrature with
    # pmd_coef * sqrt(length); PDL untouched by a fibre
    out2 = FB.mk_fiber(p)(_si(comb, case['init2']))
    a1, a2 = _acc(out), _acc(out2)
    L = FB.length_m(p)
    pmd_span = p['pmd_coef'] * math.sqrt(L)
    for i in range(n):
        d1 = a1['cd'][i] - init['cd'][i]
        d2 = a2['cd'][i] - case['init2']['cd'][i]
        scale = max(abs(a1['cd'][i]), abs(a2['cd'][i]), abs(d1), 1e-12)
        if abs(d1 - d2) > 1e-9 * scale:
            res.fail(f'CD additive: the span adds {d1!r} s/m on top of {init["cd"][i]} but {d2!r} on top of '
                     f'{case["init2"]["cd"][i]} (channel {i})', channel=i)
            break
        l1 = a1['latency'][i] - init['latency'][i]
        l2 = a2['latency'][i] - case['init2']['latency'][i]
        if abs(l1 - l2) > 1e-9 * max(a1['latency'][i], a2['latency'][i], 1e-12):
            res.fail(f'latency additive: the span adds {l1!r} s on top of {init["latency"][i]} but {l2!r} s on top of '
                     f'{case["init2"]["latency"][i]} (channel {i})')
            break
        want = math.sqrt(init['pmd'][i] ** 2 + pmd_span ** 2)
        if abs(a1['pmd'][i] - want) > 1e-9 * max(want, 1e-30):
            res.fail(f'PMD quadrature: {a1["pmd"][i]!r} s after the span, sqrt(in^2 + (pmd_coef sqrt(L))^2) = {want!r} s')
            break
        if abs(a1['pdl'][i] - init['pdl'][i]) > 1e-12 * max(abs(init['pdl'][i]), 1e-300):
            res.fail(f'PDL: a fibre changed the PDL from {init["pdl"][i]} to {a1["pdl"][i]} dB')
            break
    # the value of the latency per metre (n1 / c) is a convention of the code: correspondence
    res.cmp_float('FiberParams.latency = length x n1 / c', a1['latency'][0] - init['latency'][0], L * FB.N1 / FB.C, abs_=1e-18)
    res.nontrivial = True
    res.stats.update({'span_channels': n, 'loss_per_frequency': int(isinstance(p['loss_coef'], dict)),
                      f'lumped_{len(p.get("lumped_losses", []))}': 1, 'lumped_same_position': int(dup),
                      'padding': int(p.get('att_in', 0) > 0), 'dispersion_table': int('dispersion_per_frequency' in p),
                      'dispersion_slope': int('dispersion_slope' in p), 'length_in_m': int(p['length_units'] == 'm'),
                      'dispersion_slope_zero': int(p.get('dispersion_slope') == 0.0)})
    if isinstance(p['loss_coef'], dict):
        res.stats.update({'loss_table_' + FB.table_order(p['loss_coef']): 1})
    if 'dispersion_per_frequency' in p:
        res.stats.update({'dispersion_table_' + FB.table_order(p['dispersion_per_frequency']): 1})
    return res


# ---- paths of real elements --------------------------------------------------------------------------------------------

_AMP_CACHE = {}


def _mk_edfas(specs):
    """real Edfa objects built by the loader from a library whose amplifiers carry the case's PMD / PDL"""
    from gnpy.tools.json_io import network_from_json, _equipment_from_json, DEFAULT_EXTRA_CONFIG
    if 'doc' not in _AMP_CACHE:
        _AMP_CACHE['doc'] = nets.eqpt_json()
    doc = copy.deepcopy(_AMP_CACHE['doc'])
    proto = {e['type_variety']: e for e in doc['Edfa']}
    doc['Edfa'] = []
    for i, s in enumerate(specs):
        e = copy.deepcopy(proto[s['variety']])
        e['type_variety'] = f'amp{i}'
        e['pmd'] = s['pmd']
        e['pdl'] = s['pdl']
        doc['Edfa'].append(e)
    doc['Edfa'].append(copy.deepcopy(proto['std_medium_gain']))
    doc['Edfa'].append(copy.deepcopy(proto['std_low_gain']))
    eq = _equipment_from_json(doc, DEFAULT_EXTRA_CONFIG)
    els = [nets.trx('A'), nets.trx('B'), nets.roadm('RA'), nets.roadm('RB')]
    cxs = [nets.cx('A', 'RA'), nets.cx('RB', 'B')]
    line = []
    for i, s in enumerate(specs):
        line.append(nets.edfa(f'e{i}', f'amp{i}', {'gain_target': s['gain'], 'tilt_target': 0, 'out_voa': 0}))
        line.append(nets.fiber(f'f{i}', 50))
    nets.chain(els, cxs, 'RA', 'RB', line)
    net = network_from_json({'elements': els, 'connections': cxs}, eq)
    u = nets.by_uid(net)
    return [u[f'e{i}'] for i in range(len(specs))]


def _mk_roadm(ranges):
    from gnpy.core.elements import Roadm
    from gnpy.core.info import ReferenceCarrier
    params = {'add_drop_osnr': 38, 'pmd': 0, 'pdl': 0, 'target_pch_out_db': -20,
              'restrictions': {'preamp_variety_list': [], 'booster_variety_list': []},
              'roadm-path-impairments': [{
                  'roadm-path-impairments-id': 7,
                  'roadm-express-path': [{'frequency-range': {'lower-frequency': lo, 'upper-frequency': hi},
                                          'roadm-maxloss': 0, 'roadm-pmd': pmd, 'roadm-pdl': pdl}
                                         for lo, hi, pmd, pdl in ranges]}]}
    r = Roadm(uid='R', params=params, metadata=nets.loc())
    r.ref_carrier = ReferenceCarrier(baud_rate=32e9, slot_width=50e9)
    r.ref_pch_in_dbm['tx'] = 0.0
    r.set_roadm_paths(from_degree='tx', to_degree='east', path_type='express', impairment_id=7)
    return r


def _lookup(ranges, f, col):
    for r in ranges:
        if r[0] <= f <= r[1]:
            return r[col]
    raise ValueError('no range')


def run_path(case, drv):
    from gnpy.core.elements import Fused
    res = Result()
    comb, els, init = case['comb'], case['elements'], case['init']
    n = len(comb['f'])
    freq = sorted(comb['f'])
    amps = iter(_mk_edfas([e for e in els if e['type'] == 'edfa']))
    objs = []
    for e in els:
        if e['type'] == 'fiber':
            objs.append(FB.mk_fiber(e['params']))
        elif e['type'] == 'roadm':
            objs.append(_mk_roadm(e['ranges']))
        elif e['type'] == 'edfa':
            objs.append(next(amps))
        else:
            objs.append(Fused(uid='fu', params={'loss': e['loss']}, metadata=nets.loc()))

    def cross(i, si):
        if els[i]['type'] == 'roadm':
            return objs[i](si, degree='east', from_degree='tx')
        return objs[i](si)

    def walk(order, ini):
        si = _si(comb, ini)
        for i in order:
            si = cross(i, si)
        return _acc(si)

    order1 = list(range(len(els)))
    order2 = case['order2']
    a1 = walk(order1, init)
    a2 = walk(order2, init)
    # model
    mels = []
    for e, o in zip(els, objs):
        if e['type'] == 'fiber':
            mels.append(dict(kind='fiber', **_span_json(e['params'], _beta3(o, e['params'], freq))))
        elif e['type'] == 'roadm':
            mels.append({'kind': 'lumped', 'pmd': fl([_lookup(e['ranges'], f, 2) for f in freq]),
                         'pdl': fl([_lookup(e['ranges'], f, 3) for f in freq])})
        elif e['type'] == 'edfa':
            mels.append({'kind': 'lumped', 'pmd': fl([e['pmd']] * n), 'pdl': fl([e['pdl']] * n)})
        else:
            mels.append({'kind': 'lumped', 'pmd': fl([0.0] * n), 'pdl': fl([0.0] * n)})
    m1 = drv.ask('c05.path', elements=mels, f=fl(freq), init=_init_json(init))
    m2 = drv.ask('c05.path', elements=[mels[i] for i in order2], f=fl(freq), init=_init_json(init))
    _cmp_acc(res, 'path', a1, m1)
    _cmp_acc(res, 'path(shuffled)', a2, m2)
    # ---- monitor
    zero = _init(None, n, zero=True)
    single = [walk([i], zero) for i in order1]          # each element on its own, from nothing
    for c in range(n):
        cd = init['cd'][c] + sum(s['cd'][c] for s in single)
        lat = init['latency'][c] + sum(s['latency'][c] for s in single)
        pmd2 = init['pmd'][c] ** 2
        pdl2 = init['pdl'][c] ** 2
        for e in els:
            if e['type'] == 'fiber':
                pmd2 += e['params']['pmd_coef'] ** 2 * FB.length_m(e['params'])
            elif e['type'] == 'roadm':
                pmd2 += _lookup(e['ranges'], freq[c], 2) ** 2
                pdl2 += _lookup(e['ranges'], freq[c], 3) ** 2
            elif e['type'] == 'edfa':
                pmd2 += e['pmd'] ** 2
                pdl2 += e['pdl'] ** 2
        mag = abs(init['cd'][c]) + sum(abs(s['cd'][c]) for s in single) + 1e-15
        for name, a in (('given order', a1), ('shuffled order', a2)):
            if abs(a['cd'][c] - cd) > 1e-9 * mag:
                res.fail(f'CD additive: {name}: accumulated {a["cd"][c]!r} s/m, sum of the spans {cd!r} (channel {c})')
                return res
            if abs(a['latency'][c] - lat) > 1e-9 * max(lat, 1e-15):
                res.fail(f'latency additive: {name}: accumulated {a["latency"][c]!r} s, sum of the spans {lat!r}')
                return res
            if abs(a['pmd'][c] - math.sqrt(pmd2)) > 1e-9 * max(math.sqrt(pmd2), 1e-30):
                res.fail(f'PMD quadrature: {name}: accumulated {a["pmd"][c]!r} s, root of the sum of squares over fibres, '
                         f'ROADMs and amplifiers {math.sqrt(pmd2)!r} (channel {c})')
                return res
            if abs(a['pdl'][c] - math.sqrt(pdl2)) > 1e-9 * max(math.sqrt(pdl2), 1e-15):
                res.fail(f'PDL quadrature: {name}: accumulated {a["pdl"][c]!r} dB, root of the sum of squares over ROADMs '
                         f'and amplifiers {math.sqrt(pdl2)!r} (channel {c})')
                return res
        for key in ('cd', 'pmd', 'pdl', 'latency'):
            x, y = a1[key][c], a2[key][c]
            m = mag if key == 'cd' else max(abs(x), abs(y), 1e-30)
            if abs(x - y) > 1e-9 * m:
                res.fail(f'order: {key} depends on the span order: {x!r} vs {y!r} (channel {c})')
                return res
    # latency proportional to the length across the fibres of the path
    per_m = [single[i]['latency'][0] / FB.length_m(e['params']) for i, e in enumerate(els) if e['type'] == 'fiber']
    if per_m and max(per_m) - min(per_m) > 1e-9 * max(per_m):
        res.fail(f'latency additive: the latency per metre differs between the fibres of the path: {per_m[:4]}')
    kinds = [e['type'] for e in els]
    res.nontrivial = len(set(json_key(e) for e in els)) > 1 and order2 != order1
    res.stats.update({'kind_path': 1, f'path_len_{len(els)}': 1, 'path_fibers': kinds.count('fiber'),
                      'path_roadms': kinds.count('roadm'), 'path_edfas': kinds.count('edfa'),
                      'path_identical_spans': int(len(set(json_key(e) for e in els)) == 1),
                      'path_reordered': int(order2 != order1)})
    return res


# ---- designed networks: long fibres cut by auto-design ------------------------------------------------------------------

def _line_topology(fibres):
    """fibres: list of (uid, length_km, variety, loss_coef, pmd_coef or None)"""
    els = [nets.trx('trx A'), nets.trx('trx B'), nets.roadm('roadm A'), nets.roadm('roadm B')]
    cxs = [nets.cx('trx A', 'roadm A'), nets.cx('roadm A', 'trx A'), nets.cx('trx B', 'roadm B'), nets.cx('roadm B', 'trx B')]
    line = []
    for uid, L, variety, loss, pmd, *more in fibres:
        extra = {'loss_coef': copy.deepcopy(loss)}
        if pmd is not None:
            extra['pmd_coef'] = pmd
        if more:
            extra.update(copy.deepcopy(more[0]))
        line.append(nets.fiber(uid, L, variety, **extra))
    nets.chain(els, cxs, 'roadm A', 'roadm B', line)
    nets.chain(els, cxs, 'roadm B', 'roadm A', [nets.fiber('back', 80.0)])
    return {'elements': els, 'connections': cxs}


def _design_and_propagate(topology):
    from gnpy.tools.json_io import network_from_json
    from gnpy.tools.worker_utils import designed_network
    from gnpy.topology.request import compute_constrained_path, propagate
    eq = nets.eqpt()
    net = network_from_json(topology, eq)
    net, req, _ = designed_network(eq, net, source='trx A', destination='trx B')
    path = compute_constrained_path(net, req)
    si = propagate(path, req, eq)
    return path, si, req, eq


def _propagate_recording(path, req, eq):
    """the loop of request.propagate, recording the power per channel before and behind every Fiber"""
    from gnpy.core.elements import Roadm, Fiber
    from gnpy.core.info import create_input_spectral_information
    from gnpy.topology.request import filter_si
    si = create_input_spectral_information(f_min=req.f_min, f_max=req.f_max, roll_off=req.roll_off,
                                           baud_rate=req.baud_rate, spacing=req.spacing, tx_osnr=req.tx_osnr,
                                           tx_power=req.tx_power, delta_pdb=req.offset_db)
    si = filter_si(path, eq, si)
    rec = []
    for i, el in enumerate(path):
        before = np.array(si.pch)
        if isinstance(el, Roadm):
            si = el(si, degree=path[i + 1].uid, from_degree=path[i - 1].uid)
        else:
            si = el(si)
        if isinstance(el, Fiber):
            rec.append((el, 10 * np.log10(before / np.array(si.pch))))
    return si, rec


def run_designed(case, drv):
    from gnpy.core.elements import Fiber, Edfa, Roadm
    res = Result()
    line = case['line']
    orig = [(f'f{i}', e['length'], e['variety'], e['loss_coef'], e.get('pmd_coef'),
             {k: e[k] for k in ('att_in', 'lumped_losses') if k in e}) for i, e in enumerate(line)]
    try:
        path, si, req, eq = _design_and_propagate(_line_topology(orig))
    except Exception as e:  # noqa
        res.fail(f'rejected: the design / propagation of a well-formed link (fibres {[x["length"] for x in line]} km, '
                 f'padding / lumped losses / loss tables allowed on long fibres) raised {err_kind(e)}: {str(e)[:160]}')
        res.stats.update({'kind_designed': 1, 'designed_rejected': 1})
        return res
    freq = [float(x) for x in si.frequency]
    nch = len(freq)
    got = _acc(si)
    # the fibre description as FiberParams sees it (library values of the variety + the element's own)
    def params(e, length_m):
        d, a = LIB_FIBRES[e['variety']]
        return {'length': length_m, 'length_units': 'm', 'loss_coef': e['loss_coef'], 'dispersion': d, 'effective_area': a,
                'pmd_coef': e.get('pmd_coef', 1.265e-15), 'con_in': 0, 'con_out': 0}
    # ---- structure: the sub-spans of every original fibre add up to its length
    subs = {f'f{i}': [] for i in range(len(line))}
    for el in path:
        if isinstance(el, Fiber):
            subs[el.uid.split('_(')[0]].append(el)
    nsplit = 0
    for i, e in enumerate(line):
        lengths = [el.params.length for el in subs[f'f{i}']]
        # how the design cuts a fibre (C08) is not a C05 clause: correspondence
        res.cmp_float(f'split_fiber: total length of the spans of f{i}', sum(lengths), e['length'] * 1e3, rel=1e-9)
        if len(lengths) > 1:
            nsplit += 1
        for el in subs[f'f{i}']:
            res.cmp_float(f'split_fiber: pmd_coef of {el.uid}', el.params.pmd_coef, e.get('pmd_coef', 1.265e-15), abs_=1e-24)
    # ---- correspondence: the path as crossed vs accPath of the model
    mels = []
    amp_pmd2 = amp_pdl2 = 0.0
    for idx, el in enumerate(path):
        if isinstance(el, Fiber):
            i = int(el.uid.split('_(')[0][1:])
            n = len(subs[f'f{i}'])
            mels.append(dict(kind='fiber', **_span_json(params(line[i], line[i]['length'] * 1e3 / n))))
        elif isinstance(el, Edfa):
            mels.append({'kind': 'lumped', 'pmd': fl([el.params.pmd] * nch), 'pdl': fl([el.params.pdl] * nch)})
            amp_pmd2 += el.params.pmd ** 2
            amp_pdl2 += el.params.pdl ** 2
        elif isinstance(el, Roadm):
            pm = el.get_impairment('roadm-pmd', si.frequency, path[idx - 1].uid, path[idx + 1].uid)
            pd = el.get_impairment('roadm-pdl', si.frequency, path[idx - 1].uid, path[idx + 1].uid)
            mels.append({'kind': 'lumped', 'pmd': fl(np.broadcast_to(pm, (nch,))), 'pdl': fl(np.broadcast_to(pd, (nch,)))})
            amp_pmd2 += float(np.max(pm)) ** 2
            amp_pdl2 += float(np.max(pd)) ** 2
    zero = _init(None, nch, zero=True)
    m = drv.ask('c05.path', elements=mels, f=fl(freq), init=_init_json(zero))
    _cmp_acc(res, 'designed path (receiver)', got, m)
    # ---- monitor: the ORIGINAL fibres, own arithmetic
    # latency: proportional to the length actually crossed, with the latency per metre of a 1 km probe fibre of the same
    # class crossed on its own (the constant n1 / c itself is a convention: correspondence)
    from gnpy.core.info import create_arbitrary_spectral_information
    probe = FB.mk_fiber({'length': 1.0, 'length_units': 'km', 'loss_coef': 0.2, 'con_in': 0, 'con_out': 0, 'pmd_coef': 0.0})
    per_m = float(probe(create_arbitrary_spectral_information([193.0e12, 193.1e12], pch=1e-3, baud_rate=32e9, tx_osnr=40.0,
                                                               tx_power=1e-3, slot_width=50e9)).latency[0]) / 1000.0
    res.cmp_float('FiberParams.latency per metre = n1 / c', per_m, FB.N1 / FB.C, rel=1e-12)
    lat = sum(e['length'] * 1e3 * per_m for e in line)
    pmd = math.sqrt(sum(e.get('pmd_coef', 1.265e-15) ** 2 * e['length'] * 1e3 for e in line) + amp_pmd2)
    pdl = math.sqrt(amp_pdl2)
    for c in range(nch):
        cd = sum(FB.cd_ref(params(e, e['length'] * 1e3), freq[c], e['length'] * 1e3) for e in line)
        if abs(got['latency'][c] - lat) > 1e-9 * lat:
            res.fail(f'latency additive: receiver sees {got["latency"][c]!r} s, sum over the fibres of length x latency per metre = {lat!r} s '
                     f'(fibres {[e["length"] for e in line]} km, cut into {[len(subs[k]) for k in subs]} spans)')
            break
        if abs(got['cd'][c] - cd) > 1e-9 * abs(cd):
            res.fail(f'CD additive: receiver sees {got["cd"][c]!r} s/m, sum over the fibres {cd!r} s/m (channel {c})')
            break
        if abs(got['pmd'][c] - pmd) > 1e-9 * pmd:
            res.fail(f'PMD quadrature: receiver sees {got["pmd"][c]!r} s, root of the sum of squares over the fibres, ROADMs '
                     f'and amplifiers {pmd!r} s')
            break
        if abs(got['pdl'][c] - pdl) > 1e-9 * max(pdl, 1e-15):
            res.fail(f'PDL quadrature: receiver sees {got["pdl"][c]!r} dB, expected {pdl!r} dB')
            break
    # ---- monitor: link-level loss budget. The spans a fibre was cut into attenuate every channel, together, by the padding
    # and the lumped losses of the ORIGINAL fibre (each once), its length x loss coefficient at the channel's frequency,
    # and the connector losses the design gave to every span
    si_r, rec = _propagate_recording(path, req, eq)
    if not (np.array_equal(si_r.pch, si.pch) and np.array_equal(si_r.latency, si.latency)):
        res.mismatch('request.propagate vs recorded walk', [float(x) for x in si.pch[:3]], [float(x) for x in si_r.pch[:3]])
    for i, e in enumerate(line):
        mine = [(el, att) for el, att in rec if el.uid.split('_(')[0] == f'f{i}']
        total = sum(att for _, att in mine)
        conn = sum(el.params.con_in + el.params.con_out for el, _ in mine)
        # padding: the user's att_in, once; the design may only pad an UNCUT short span up to the minimum span loss
        pad = sum(el.params.att_in for el, _ in mine)
        # where the design puts padding is its policy (C08/C09), not the loss budget: correspondence
        if len(mine) > 1:
            res.cmp_float(f'split_fiber: total att_in of the spans of f{i}', pad, e.get('att_in', 0), abs_=1e-12)
        elif pad < e.get('att_in', 0) - 1e-12:
            res.mismatch(f'design: att_in of f{i}', pad, e.get('att_in', 0))
        p_e = params(e, e['length'] * 1e3)
        for c in range(nch):
            want = (pad + conn + e['length'] * FB.loss_db_per_km(p_e, freq[c])
                    + sum(x['loss'] for x in e.get('lumped_losses', [])))
            if abs(float(total[c]) - want) > 1e-8:
                res.fail(f'link loss budget: the {len(mine)} span(s) of fibre f{i} ({e["length"]} km) attenuate channel {c} by '
                         f'{float(total[c]):.9f} dB; padding + connectors as designed + length x loss coefficient + lumped '
                         f'losses of the original fibre = {want:.9f} dB')
                break
    # ---- the same link given as explicit pre-cut spans
    pre = []
    for i, e in enumerate(line):
        n = len(subs[f'f{i}'])
        pre += [(f'f{i}x{j}', e['length'] / n, e['variety'], e['loss_coef'], e.get('pmd_coef')) for j in range(n)]
    path2, si2, _, _ = _design_and_propagate(_line_topology(pre))
    got2 = _acc(si2)
    n1 = sum(isinstance(el, Fiber) for el in path)
    n2 = sum(isinstance(el, Fiber) for el in path2)
    res.cmp_exact('design: span count of the auto-cut link vs the pre-cut link', n1, n2)
    for key in ('cd', 'pmd', 'pdl', 'latency'):
        for c in range(nch):
            x, y = got[key][c], got2[key][c]
            if abs(x - y) > 1e-9 * max(abs(x), abs(y), 1e-30):
                res.fail(f'pre-cut: {key} at the receiver is {x!r} with the long fibres cut by the design, {y!r} with the '
                         f'same spans given explicitly')
                break
    res.nontrivial = nsplit > 0
    res.stats.update({'kind_designed': 1, f'designed_fibres_{len(line)}': 1, 'designed_fibres_split': nsplit,
                      'designed_spans_total': n1, 'designed_mixed_long_short': int(0 < nsplit < len(line)),
                      'designed_own_pmd_coef': int(any('pmd_coef' in e for e in line)),
                      'designed_long_with_loss_table': sum(1 for i, e in enumerate(line) if isinstance(e['loss_coef'], dict)
                                                           and len(subs[f'f{i}']) > 1),
                      'designed_long_with_padding': sum(1 for i, e in enumerate(line) if e.get('att_in')
                                                        and len(subs[f'f{i}']) > 1),
                      'designed_long_with_lumped': sum(1 for i, e in enumerate(line) if e.get('lumped_losses')
                                                       and len(subs[f'f{i}']) > 1),
                      'designed_max_spans_per_fibre': max(len(v) for v in subs.values())})
    return res


# ---- Raman on ---------------------------------------------------------------------------------------------------------

NEPER_DB = 10 / math.log(10)     # 4.3429...


def _raman_sim(case, method=None, order=None):
    return {'raman_params': {'flag': True, 'method': method or case['method'], 'order': order or case['order'],
                             'solver_spatial_resolution': case['solver_res'],
                             'result_spatial_resolution': case['result_res']},
            'nli_params': {'method': 'gn_model_analytic'}}


def _raman_fiber(case, p=None, pumps=None):
    from gnpy.core.elements import RamanFiber
    p = case['fibre'] if p is None else p
    pumps = case['pumps'] if pumps is None else pumps
    if not case.get('raman_class', bool(case['pumps'])):
        return FB.mk_fiber(p)          # plain Fiber, Raman flag on: the inter-channel transfer only
    return FB.mk_fiber(p, cls=RamanFiber, operational={'temperature': case['temperature'], 'raman_pumps': pumps})


def _solver_loss(case, fiber, pw, method=None, order=None):
    """dB loss of every signal between fibre input and fibre end as the Raman solver computes it"""
    from gnpy.core.science_utils import RamanSolver
    si = _si(case['comb'], case['init'], pw=pw)
    with FB.sim_params(_raman_sim(case, method, order)):
        srs = RamanSolver.calculate_stimulated_raman_scattering(si, fiber)
    n = len(pw)
    return [-10 * math.log10(x) for x in srs.loss_profile[:n, -1]]


def run_raman(case, drv):
    from gnpy.core.science_utils import RamanSolver
    res = Result()
    p, comb, pumps = case['fibre'], case['comb'], case['pumps']
    n = len(comb['f'])
    freq = sorted(comb['f'])
    pw = [10 ** (x / 10) * 1e-3 for x in comb['p_dbm']]
    L = FB.length_m(p)
    fiber = _raman_fiber(case)
    att_in = p['con_in'] + p.get('att_in', 0)
    p1 = [x / 10 ** (att_in / 10) for x in pw]       # powers entering the glass
    # the solver's own inputs, built by the real objects
    allf = np.array(freq + [q['frequency'] for q in pumps])
    allp = np.array(p1 + [q['power'] / 10 ** (p['con_out'] / 10) for q in pumps])
    alpha = np.atleast_1d(fiber.alpha(allf)) * np.ones(len(allf))
    cr = np.asarray(fiber.cr(allf)).reshape(len(allf), len(allf))
    z = np.append(np.arange(0, L, case['solver_res']), L)
    z2, ll = RamanSolver._create_lumped_losses(z, fiber.lumped_losses, fiber.z_lumped_losses)
    grid = [[f2b(a), f2b(b)] for a, b in zip(z2, ll)]

    # ---- correspondence 1: the unidirectional solver, both methods, whole power profile, signals (+ pump frequencies
    # treated as co-propagating waves: the solver does not care)
    nu = n if len(z2) * len(allf) ** 2 > 4e5 else len(allf)
    for method, order in ((case['method'], case['order']),
                          ('numerical', 1) if case['method'] == 'perturbative' else ('perturbative', case['order'])):
        with FB.sim_params(_raman_sim(case, method, order)):
            impl = RamanSolver.calculate_unidirectional_stimulated_raman_scattering(allp[:nu].copy(), alpha[:nu],
                                                                                    cr[:nu, :nu], z2, ll)
        ans = drv.ask('c05.raman_uni', method=method, order=order, alpha=fl(alpha[:nu]),
                      cr=[fl(r) for r in cr[:nu, :nu]], pin=fl(allp[:nu]), grid=grid)
        model = [[b2f(x) for x in row] for row in ans['power']]
        name = f'RamanSolver.unidirectional[{method}' + (f',order {order}]' if method == 'perturbative' else ']')
        if len(model) != impl.shape[0] or any(len(r) != impl.shape[1] for r in model):
            res.mismatch(name + '.shape', list(impl.shape), [len(model), len(model[0]) if model else 0])
        else:
            res.cmp_floats(name, impl.ravel(), [x for r in model for x in r], abs_=0.0)
            res.cmp_floats(name + '.end', impl[:, -1], [b2f(x) for x in ans['end']], abs_=0.0)
    # ---- correspondence 2: Fiber.__call__ with the Raman flag on (no pumps): output power per channel
    if not pumps:
        with FB.sim_params(_raman_sim(case)):
            out = _raman_fiber(case)(_si(comb, case['init']))
        ans = drv.ask('c05.raman_fiber', method=case['method'], order=case['order'], cr=[fl(r) for r in cr[:n, :n]],
                      z=fl(z), f=fl(freq), p=fl(pw), **_span_json(p))
        if 'error' in ans:
            res.mismatch('Fiber.__call__[raman]', 'ok', ans['error'])
        else:
            res.cmp_floats('Fiber.__call__[raman].pch', out.pch, [b2f(x) for x in ans['pch']], abs_=0.0)

    # ---- monitor ------------------------------------------------------------------------------------------------------
    # quantities the tolerances are made of (all from the case and the fibre coefficients):
    #   a_max          largest attenuation coefficient [1/m]
    #   S2             sum of the squared solver steps
    #   Y, Yp, X       Raman gain rate at launch [1/m], with growth allowance exp(Y Leff), and the exponent bound Yp Leff
    #   euler(g)       explicit Euler: 0 <= -ln(1 - x) - x <= 2 x^2 for 0 <= x <= 1/2 (Lean: one_sub_bounds,
    #                  eulerFactor_bounds), so the computed log-loss exceeds the exact one by at most 2 sum (g dz)^2 Neper
    #                  (g = attenuation + Raman gain rate; the generator keeps g dz <= 1/2)
    a_max = float(np.max(alpha))
    leff = min(L, 1 / float(np.min(alpha)))
    dzs = np.diff(z2)
    S2 = float(np.sum(dzs ** 2))
    budget = [L * 1e-3 * FB.loss_db_per_km(p, f) + sum(x['loss'] for x in p.get('lumped_losses', [])) for f in freq]
    counter = [q for q in pumps if q['propagation_direction'] == 'counterprop']
    euler_used = bool(counter)         # co + counter waves: iterative_algorithm (explicit Euler) whatever the method

    def bounds(powers):
        y = float(np.max(np.abs(cr) @ np.asarray(powers)))
        yp = y * math.exp(y * leff)
        return yp, yp * leff

    # the monitor drives the solver directly with the case's powers as the powers in the glass
    monp = np.array(pw + [q['power'] / 10 ** (p['con_out'] / 10) for q in pumps])
    loss_main = _solver_loss(case, fiber, pw)
    effect = max(abs(a - b) for a, b in zip(loss_main, budget))
    # R1: low-power limit -> the loss budget of the glass (length x loss coefficient + lumped losses)
    sc = 1e-7
    low_pumps = [dict(q, power=q['power'] * sc) for q in pumps]
    yp_low, x_low = bounds(monp * sc)
    for method in ('perturbative', 'numerical'):
        low = _solver_loss(case, _raman_fiber(case, pumps=low_pumps), [x * sc for x in pw], method=method)
        tol = NEPER_DB * 2 * x_low + 1e-9
        if method == 'numerical' or euler_used:
            tol += NEPER_DB * 2 * (a_max + yp_low) ** 2 * S2
        for i in range(n):
            if abs(low[i] - budget[i]) > tol:
                res.fail(f'low-power limit: {method}: at {10 * math.log10(pw[i] * sc * 1e3):.1f} dBm channel {i} loses '
                         f'{low[i]:.9f} dB, length x loss coefficient + lumped losses = {budget[i]:.9f} dB (tolerance '
                         f'{tol:.3g} dB)', channel=i)
                break
    # R1b: the ELEMENT (RamanFiber / Fiber __call__, connectors and padding included) in the low-power limit applies the
    # FULL budget att_in + con_in + length x loss + lumped + con_out, and Fiber.loss states the same at the reference
    # frequency. Signals at 1e-5, pumps at 1e-10 of their power: the spontaneous Raman ASE the pumps add to pch is then
    # < 1e-8 of the signal (allowance 1e-6 dB).
    sc_s, sc_p = 1e-5, 1e-10
    tiny_pumps = [dict(q, power=q['power'] * sc_p) for q in pumps]
    full = [budget_db(p, f) for f in freq]
    yp_e, x_e = bounds(np.array([v * sc_s for v in pw] + [q['power'] * sc_p for q in pumps]))
    for method in ('perturbative', 'numerical'):
        elem = _raman_fiber(case, pumps=tiny_pumps)
        with FB.sim_params(_raman_sim(case, method)):
            out = elem(_si(comb, case['init'], pw=[v * sc_s for v in pw]))
        tol = NEPER_DB * 2 * x_e + 1e-9 + (1e-6 if pumps else 0.0)
        if method == 'numerical' or euler_used:
            tol += NEPER_DB * 2 * (a_max + yp_e) ** 2 * S2
        for i in range(n):
            got = 10 * math.log10(pw[i] * sc_s / float(out.pch[i]))
            if abs(got - full[i]) > tol:
                res.fail(f'low-power limit (element): {type(elem).__name__}.__call__ [{method}] attenuates channel {i} by '
                         f'{got:.9f} dB, padding + connectors + length x loss coefficient + lumped losses = {full[i]:.9f} dB '
                         f'(tolerance {tol:.3g} dB)', channel=i)
                break
    res.cmp_float(f'{type(fiber).__name__}.loss vs the budget at the reference frequency', float(fiber.loss),
                  budget_db(p, FB.ref_frequency(p)), abs_=1e-9)
    # R2: perturbative and numerical agree
    yp, x = bounds(monp)
    for order in sorted({1, case['order']}):
        lp = _solver_loss(case, fiber, pw, method='perturbative', order=order)
        ln = _solver_loss(case, fiber, pw, method='numerical')
        if euler_used:
            # both run iterative_algorithm, which stops at a relative accuracy 1e-3 of d ln P / dz
            tol = NEPER_DB * 1e-3 * (a_max * L + max(abs(v) for v in ln) / NEPER_DB) + 1e-9
        else:
            tol = NEPER_DB * (2 * (a_max + yp) ** 2 * S2 * (1 + x) + x ** (order + 1)) + 1e-9
        d = max(abs(a - b) for a, b in zip(lp, ln))
        if d > tol:
            res.fail(f'methods agree: perturbative(order {order}) and numerical differ by {d:.6f} dB at '
                     f'{case["solver_res"]} m steps (tolerance {tol:.3g} dB)')
            break
    # R3: each lumped loss is counted once (low power: removing one loss changes every channel by exactly its dB)
    for k, lum in enumerate(p.get('lumped_losses', [])):
        q = copy.deepcopy(p)
        del q['lumped_losses'][k]
        for method in ('perturbative', 'numerical'):
            with_ = _solver_loss(case, _raman_fiber(case, pumps=low_pumps), [x * sc for x in pw], method=method)
            without = _solver_loss(case, _raman_fiber(case, p=q, pumps=low_pumps), [x * sc for x in pw], method=method)
            tol = NEPER_DB * 4 * x_low + 1e-9
            if method == 'numerical' or euler_used:
                tol += NEPER_DB * 2 * (a_max * float(np.max(dzs))) ** 2
            for i in range(n):
                if abs((with_[i] - without[i]) - lum['loss']) > tol:
                    res.fail(f'lumped once: {method}: the {lum["loss"]} dB lumped loss at {lum["position"]} km changes the '
                             f'loss of channel {i} by {with_[i] - without[i]:.9f} dB (tolerance {tol:.3g} dB)', channel=i)
                    break
    # R4: counter-propagating pumps (above the signal band) only add gain
    if pumps and len(counter) == len(pumps) and all(q['frequency'] > max(freq) for q in pumps):
        off = _solver_loss(case, _raman_fiber(case, pumps=low_pumps), pw)
        for i in range(n):
            if loss_main[i] > off[i] + 1e-6:
                res.fail(f'pumps only add gain: with the counter-propagating pumps on channel {i} loses {loss_main[i]:.6f} dB, '
                         f'with the pumps off {off[i]:.6f} dB', channel=i)
                break
    # a RamanFiber crossed with the Raman computation OFF applies the plain loss budget (pump-less RamanFibers: with pumps
    # and the flag off the element raises IndexError in the spontaneous-scattering step - reported to the lead)
    if type(fiber).__name__ == 'RamanFiber' and not pumps:
        with FB.sim_params(SIM_OFF):
            out_off = _raman_fiber(case)(_si(comb, case['init']))
        for i in range(n):
            got = 10 * math.log10(pw[i] / float(out_off.pch[i]))
            if abs(got - budget_db(p, freq[i])) > 1e-9:
                res.fail(f'loss budget: RamanFiber with the Raman computation off attenuates channel {i} by {got:.9f} dB, padding + '
                         f'connectors + length x loss coefficient + lumped losses = {budget_db(p, freq[i]):.9f} dB', channel=i)
                break
        res.stats.update({'raman_class_flag_off_budget': 1})
    res.nontrivial = effect > 1e-4
    res.stats.update({'raman_pumps_co': sum(1 for q in pumps if q['propagation_direction'] == 'coprop'),
                      'raman_pumps_below_band': sum(1 for q in pumps if q['frequency'] < min(freq)),
                      'raman_pumps_in_gap': sum(1 for q in pumps if min(freq) < q['frequency'] < max(freq)),
                      'kind_raman': 1, f'raman_{case["method"]}': 1, f'raman_pumps_{len(pumps)}': 1,
                      f'raman_lumped_{len(p.get("lumped_losses", []))}': 1,
                      'raman_effect_above_0.1dB': int(effect > 0.1), 'raman_effect_above_1dB': int(effect > 1.0),
                      'raman_padding': int(p.get('att_in', 0) > 0), 'raman_con_in': int(p['con_in'] > 0),
                      'raman_class_' + type(fiber).__name__: 1,
                      'raman_ramanfiber_padded': int(type(fiber).__name__ == 'RamanFiber' and p.get('att_in', 0) > 0)})
    return res


def run_sprs(case, drv):
    """RamanSolver.calculate_spontaneous_raman_scattering on a real RamanFiber, pump list in the given and in the reversed
    order, vs Gnpy.Raman.sprsChannel fed with the SRS result (every pump row with ITS frequency and efficiency column)"""
    from gnpy.core.elements import RamanFiber
    from gnpy.core.science_utils import RamanSolver
    res = Result()
    p, comb = case['fibre'], case['comb']
    n = len(comb['f'])
    pw = [10 ** (x / 10) * 1e-3 for x in comb['p_dbm']]
    results = []
    for tag, pumps in (('given order', case['pumps']), ('reversed order', case['pumps'][::-1])):
        fiber = FB.mk_fiber(p, cls=RamanFiber, operational={'temperature': case['temperature'], 'raman_pumps': pumps})
        si = _si(comb, case['init'], pw=pw)
        with FB.sim_params(_raman_sim(case)):
            srs = RamanSolver.calculate_stimulated_raman_scattering(si, fiber)
            ase = [float(x) for x in RamanSolver.calculate_spontaneous_raman_scattering(si, srs, fiber)]
        cr = np.asarray(fiber.cr(srs.frequency))[:n, n:]
        ans = drv.ask('c05.sprs', temperature=f2b(case['temperature']), z=fl(srs.z), baud=fl(si.baud_rate),
                      f=fl(si.frequency), loss=[fl(r) for r in srs.loss_profile[:n]], pump_f=fl(srs.frequency[n:]),
                      pump_cr=[fl(cr[:, k]) for k in range(cr.shape[1])], pump_profile=[fl(r) for r in srs.power_profile[n:]])
        res.cmp_floats(f'RamanSolver.calculate_spontaneous_raman_scattering[{tag}]', ase, [b2f(x) for x in ans['ase']],
                       abs_=1e-30)
        # ASE >= 0 and its independence of the pump-list order are not C05 clauses (C02 owns ASE >= 0; theorems
        # sprs_ase_nonneg / sprs_pump_order_irrelevant are about the model): correspondence
        neg = [i for i in range(n) if not (ase[i] >= 0.0)]
        if neg:
            res.mismatch(f'spontaneous Raman ASE sign[{tag}]', ase[neg[0]], '>= 0 (sprs_ase_nonneg)', channel=neg[0],
                         pumps=[(q['propagation_direction'], q['frequency']) for q in pumps])
        results.append(ase)
    a, b = results
    res.cmp_floats('spontaneous Raman ASE: pump list as given vs reversed (sprs_pump_order_irrelevant)', a, b, rel=1e-9,
                   abs_=1e-30)
    dirs = [q['propagation_direction'] for q in case['pumps']]
    first_co = dirs.index('coprop') if 'coprop' in dirs else None
    counter_before_co = first_co is not None and 'counterprop' in dirs[:first_co]
    res.nontrivial = any(x > 0 for x in a)
    res.stats.update({'kind_sprs': 1, f'sprs_pumps_{len(dirs)}': 1, 'sprs_mixed_directions': int(len(set(dirs)) == 2),
                      'sprs_counter_listed_before_co': int(counter_before_co),
                      'sprs_pump_below_band': int(any(q['frequency'] < min(comb['f']) for q in case['pumps'])),
                      'sprs_pump_above_band': int(any(q['frequency'] > max(comb['f']) for q in case['pumps'])),
                      'sprs_ase_positive': int(any(x > 0 for x in a))})
    return res


def json_key(e):
    import json
    return json.dumps(e, sort_keys=True)


# ---------------------------------------------------------------------------------------------------------------------
# shrinking
# ---------------------------------------------------------------------------------------------------------------------

def _drop_channels(case):
    comb = case['comb']
    n = len(comb['f'])
    lo = 2 if case['kind'] == 'path' else 1
    if n > lo:
        for chunk in (n // 2, 1):
            if chunk < 1:
                continue
            for start in range(0, n, chunk):
                keep = [i for i in range(n) if not (start <= i < start + chunk)]
                if len(keep) < lo:
                    continue
                c = copy.deepcopy(case)
                for key in ('f', 'b', 'slot', 'p_dbm'):
                    c['comb'][key] = [comb[key][i] for i in keep]
                for ini in ('init', 'init2'):
                    if ini in c:
                        c[ini] = {k: [v[i] for i in keep] for k, v in case[ini].items()}
                yield c


def _simplify_fibre(p, malformed=False):
    for key in ('att_in', 'dispersion_slope', 'ref_wavelength', 'ref_frequency', 'effective_area', 'gamma'):
        if key in p:
            q = copy.deepcopy(p)
            del q[key]
            yield q
    ll = p.get('lumped_losses', [])
    for i in range(len(ll)):
        q = copy.deepcopy(p)
        del q['lumped_losses'][i]
        if not q['lumped_losses']:
            del q['lumped_losses']
        yield q
    if isinstance(p['loss_coef'], dict) and not malformed:
        q = copy.deepcopy(p)
        q['loss_coef'] = 0.2
        yield q
    if 'dispersion_per_frequency' in p:
        q = copy.deepcopy(p)
        del q['dispersion_per_frequency']
        q['dispersion'] = 1.67e-5
        yield q
    for key in ('con_in', 'con_out'):
        if p[key] != 0:
            q = copy.deepcopy(p)
            q[key] = 0
            yield q


def shrink_candidates(case):
    if case['kind'] != 'designed':
        yield from _drop_channels(case)
    if case['kind'] == 'sprs' and len(case['pumps']) > 1:
        for i in range(len(case['pumps'])):
            c = copy.deepcopy(case)
            del c['pumps'][i]
            yield c
    if case['kind'] in ('span', 'malformed', 'raman', 'sprs'):
        for q in _simplify_fibre(case['fibre'], case['kind'] == 'malformed'):
            c = copy.deepcopy(case)
            c['fibre'] = q
            yield c
    if case['kind'] == 'designed':
        k = len(case['line'])
        for i in range(k):
            if k > 1:
                c = copy.deepcopy(case)
                del c['line'][i]
                yield c
        for i, e in enumerate(case['line']):
            for key in ('pmd_coef', 'att_in', 'lumped_losses'):
                if key in e:
                    c = copy.deepcopy(case)
                    del c['line'][i][key]
                    yield c
            if isinstance(e['loss_coef'], dict):
                c = copy.deepcopy(case)
                c['line'][i]['loss_coef'] = 0.2
                yield c
            for L in (151.0, 300.0, 80.0):
                if e['length'] > L:
                    c = copy.deepcopy(case)
                    c['line'][i]['length'] = L
                    yield c
        return
    if case['kind'] == 'path':
        k = len(case['elements'])
        if k > 2:
            for i in range(k):
                c = copy.deepcopy(case)
                del c['elements'][i]
                c['order2'] = [j - (1 if j > i else 0) for j in case['order2'] if j != i]
                yield c
        for i, e in enumerate(case['elements']):
            if e['type'] == 'fiber':
                for q in _simplify_fibre(e['params']):
                    c = copy.deepcopy(case)
                    c['elements'][i]['params'] = q
                    yield c
