"""C01 — per-channel power always splits exactly into signal + ASE + NLI.

Correspondence: the six mutating methods of SpectralInformation, select/demux/mux, every element `__call__` on real
designed paths (op list recorded at run time, see common/specrec.py) and Transceiver._calc_snr/update_snr
vs Gnpy.Spectrum.run / demux / mux / calcSnr / updateSnr (class F on p, s, a, n and the derived powers / dB figures).
Monitor (own arithmetic on the raw arrays of the implementation): shares in [0,1] and summing to 1, signal+ase+nli = pch,
1/GSNR = 1/OSNR + 1/SNR_NLI on SpectralInformation and on the Transceiver figures, power bookkeeping of every single
mutating call (ASE adds exactly its power, NLI is a pure transfer, attenuation/gain scale all three alike), band
split/merge neither loses nor duplicates a channel nor changes its record.
"""
import copy
import math

import numpy as np

from common.util import Result, f2b, b2f, err_kind
from common import nets, specrec as S

ID = 'C01'
N = {'quick': 700, 'thorough': 30000}
LEAN_MODULES = ['GnpyProofs.Props.C01']
THEOREMS = [f'Gnpy.Spectrum.{t}' for t in (
    'attLin_inv', 'gainLin_inv', 'attDb_inv', 'gainDb_inv', 'addAse_inv', 'addNli_inv', 'addNli_live', 'addAse_live',
    'step_inv', 'step_live', 'run_inv', 'run_live', 'shares_le_one', 'power_split', 'run_power_split', 'path_inv',
    'path_power_split', 'addAse_powers', 'addNli_powers', 'addNli_transfer', 'attLin_powers', 'gainLin_powers',
    'attDb_dbm', 'gainDb_dbm', 'gsnr_harmonic', 'nsr_split', 'nsr_eq_inv_gsnr', 'gsnr_no_ase', 'gsnr_no_nli',
    'gsnr_harmonic_db', 'snrSum_lin', 'updateSnr_harmonic', 'demux_mem', 'demux_sublist', 'mux_spec', 'mux_sorted',
    'split_merge_perm', 'split_merge_power', 'mux_power', 'demux_mux_inv', 'multiband_mem', 'multiband_inv',
    'snrAdded_lin', 'updateSnr_lin', 'updateSnr_le', 'applyElems_inv', 'update_raw', 'update_history_free', 'updates_snoc',
    'updates_raw', 'updates_last', 'updates_harmonic', 'update_01nm')]
RULE = ('cases from one PRNG: (a) "ops": a SpectralInformation built by the real constructor (1-40 channels, quick; up to '
        '200 thorough; mixed baud/slot, -30..+10 dBm, arbitrary initial shares) taken through a random sequence of '
        'stages, a stage being either 1-6 mutating calls (attenuation/gain lin or dB, add_ase, add_nli; scalar or '
        'per-channel arguments) or a band split (2-3 bands, demuxed_spectral_information), different calls per band, and '
        'muxed_spectral_information; (b) "path": request.propagate on a designed network (shipped examples edfa, mesh, '
        'fused, multiband, raman[, openroadm in thorough]; generated ROADM chains with 1-3 spans per hop, fused splices, all '
        'stock amplifier varieties, Raman fibres) with a uniform grid or a mixed-rate carrier list; (c) "shuffle": the '
        'elements of such a path applied in random order to a random spectrum; (e) "trxseq": a Transceiver fed one spectrum '
        'and then 2-4 update_snr calls with different contribution lists (scalars, per-channel arrays, None); (f) "automode": '
        'propagate_and_optimize_mode (trx_mode None) on a library whose transceiver has 2-4 modes of one baud rate, the '
        'first 1..all of them infeasible, different tx_osnr / offsets per mode, so that update_snr is called several times '
        'on the same receiver between propagations; (d) malformed: empty merge (ValueError), '
        'amplifier called with no channel in its band (ValueError). Non-trivial: at least one add_ase or add_nli was executed '
        'on >= 1 channel (a) / the path contains >= 1 fibre and >= 1 amplifier (b, c) / >= 2 update_snr calls hit one receiver '
        'between two propagations (e, f); distinct = canonical JSON of the case')
MODEL_SCOPE = ('modelled: SpectralInformation.add_ase/add_nli/apply_attenuation_lin/_db/apply_gain_lin/_db, signal/ase/nli, '
               'snr_lin/snr_nli/gsnr and dB views, select_channels/demuxed/muxed_spectral_information and __add__ (power '
               'bookkeeping; rejections are C07), op lists of Fused/Roadm/Fiber/RamanFiber/Edfa.propagate and '
               'Multiband_amplifier.__call__, Transceiver._calc_snr/update_snr, utils.snr_sum. Inputs of the model taken from '
               'the implementation at run time: the NLI, ASE, gain and loss vectors (pinned by C03, C04, C05, C06). Generated inputs stay within the property\'s '
               'stated scope (per-channel power <= +10 dBm at every fibre / amplifier input; see the partial_statements entry)')
PARTIAL = ['scope of the generated inputs (the property scopes itself to launch powers up to +10 dBm): in the "shuffle" stream (elements '
           'of a path in random order) a non-passive element is skipped when a channel entering it exceeds +10 dBm (piled-up '
           'amplifiers); "raman_ggn" cases (ggn_spectrally_separated with a sparse computed_channels list, thorough tier) launch '
           'combs with a +-3 dB power spread only, because that method interpolates the NLI density of non-computed channels in '
           'frequency and would give a -30 dBm channel next to a +3 dBm one more NLI than it has power; ggn_approx cases use '
           'per-block offsets of at most 3 dB for the same reason']
TRUSTED = ['the op list of an element call is observed by wrapping the six mutating methods in the harness process; a '
           'mutation of the shares that bypasses these methods is seen only through the state comparison after the call']



# ---------------------------------------------------------------------------------------------------------------------
# generator
# ---------------------------------------------------------------------------------------------------------------------

def gen(rng, tier, widen=False):
    k = rng.random()
    if k < 0.50:
        return gen_ops(rng, tier, widen)
    if k < 0.58:
        return gen_trxseq(rng, tier)
    if k < 0.80:
        return gen_path(rng, tier, widen)
    if k < 0.87:
        return gen_automode(rng, tier)
    if k < 0.94:
        return gen_path(rng, tier, widen, shuffle=True)
    return gen_malformed(rng)


def gen_trxseq(rng, tier):
    """a receiver driven directly: one spectrum, then 2-4 update_snr calls with different contribution lists"""
    nch = rng.choice([1, 2, 5, 12])
    car = S.gen_carriers(rng, [(191_000_000_000_000, 196_000_000_000_000)], nch)
    chans = []
    for c in car:
        a = 10 ** -rng.uniform(1, 4)
        n = rng.choice([0.0, 10 ** -rng.uniform(1, 4)])
        chans.append({'f': c['f'], 'baud': c['baud'], 'slot': c['slot'], 'p': c['tx_power'], 's': 1.0 - a - n, 'a': a, 'n': n})
    calls = []
    for _ in range(rng.randint(2, 4)):
        args = []
        for _ in range(rng.randint(1, 4)):
            kind = rng.random()
            if kind < 0.15:
                args.append(None)
            elif kind < 0.6:
                args.append(rng.choice([40.0, 35.0, 45.0, 38.0, round(rng.uniform(25, 55), 2)]))
            else:
                args.append([round(rng.uniform(25, 55), 2) for _ in chans])
        if all(a is None for a in args):
            args.append(40.0)
        calls.append(args)
    return {'kind': 'trxseq', 'chans': chans, 'calls': calls}


def gen_automode(rng, tier):
    """automatic mode selection on a library whose transceiver has 2-4 modes of ONE baud rate, the first k of which
    cannot be met: propagate_and_optimize_mode calls update_snr once per explored mode on the same receiver"""
    nm = rng.choice([2, 3, 4])
    nfail = rng.randint(1, nm)          # nfail == nm: no feasible mode at all
    baud = rng.choice([32_000_000_000, 44_000_000_000, 66_000_000_000])
    modes = []
    for i in range(nm):
        modes.append({'format': f'm{i}', 'baud_rate': float(baud), 'OSNR': 70.0 if i < nfail else rng.choice([5.0, 9.0, 11.0]),
                      'bit_rate': float((nm - i) * 100_000_000_000), 'roll_off': 0.15,
                      'tx_osnr': rng.choice([40.0, 36.0, 45.0, 33.5, 100.0]), 'min_spacing': 37_500_000_000.0, 'cost': 1,
                      'penalties': {}, 'equalization_offset_db': rng.choice([0, 0, 0, 1.5])})
    if rng.random() < 0.5:
        net = {'desc': S.gen_topology(rng, max_roadms=3)}
        n = len(net['desc']['roadms'])
        a, b = rng.sample(range(n), 2)
        src, dst = f'trx {a}', f'trx {b}'
    else:
        net, src, dst = rng.choice(['mesh', 'mesh', 'edfa']), None, None
    return {'kind': 'automode', 'net': net, 'src': src, 'dst': dst, 'pick': [rng.random(), rng.random()], 'modes': modes,
            'spacing': float(rng.choice([75_000_000_000, 100_000_000_000, 87_500_000_000])), 'nfail': nfail,
            'nchan_band': rng.choice([4, 10, 20])}


def _shares(rng):
    k = rng.random()
    if k < 0.3:
        return 1.0, 0.0, 0.0
    a = rng.choice([0.0, 10 ** -rng.uniform(1, 5)])
    n = rng.choice([0.0, 10 ** -rng.uniform(1, 5)])
    return 1.0 - a - n, a, n


def gen_ops(rng, tier, widen):
    nmax = 40 if tier == 'quick' else 200
    nch = rng.choice([1, 2, 3, 5, 8, 16, nmax])
    bands = [(186_000_000_000_000, 190_000_000_000_000), (191_000_000_000_000, 196_000_000_000_000)]
    if rng.random() < 0.5:
        bands = bands[1:]
    if nch > 40:
        bands = [(180_000_000_000_000, 200_000_000_000_000)]
    car = S.gen_carriers(rng, bands, nch)
    chans = []
    for c in car:
        s, a, n = _shares(rng)
        chans.append({'f': c['f'], 'baud': c['baud'], 'slot': c['slot'], 'p': c['tx_power'], 's': s, 'a': a, 'n': n})
    p = {c['f']: c['p'] for c in chans}
    fmax = 0.99 if widen else 0.6

    def mk_ops(freqs, kmax=6):
        ops = []
        for _ in range(rng.randint(1, kmax)):
            kind = rng.choice(['attLin', 'attDb', 'attDb', 'gainLin', 'gainDb', 'addAse', 'addAse', 'addNli', 'addNli'])
            per = rng.random() < 0.5
            if kind == 'attLin':
                arg = [10 ** -rng.uniform(0, 3) for _ in freqs] if per else [10 ** -rng.uniform(0, 3)] * len(freqs)
                for f, g in zip(freqs, arg):
                    p[f] *= g
            elif kind == 'attDb':
                arg = [round(rng.uniform(-1, 30), 2) for _ in freqs] if per else [rng.choice([0.0, 0.5, 16.0, 22.3])] * len(freqs)
                for f, d in zip(freqs, arg):
                    p[f] *= 10 ** (-d / 10)
            elif kind == 'gainLin':
                arg = [10 ** rng.uniform(0, 3) for _ in freqs] if per else [10 ** rng.uniform(0, 3)] * len(freqs)
                for f, g in zip(freqs, arg):
                    p[f] *= g
            elif kind == 'gainDb':
                arg = [round(rng.uniform(-3, 30), 2) for _ in freqs] if per else [rng.choice([0.0, 17.0, 25.5])] * len(freqs)
                for f, d in zip(freqs, arg):
                    p[f] *= 10 ** (d / 10)
            elif kind == 'addAse':
                arg = [rng.choice([0.0, p[f] * 10 ** -rng.uniform(0.5, 6)]) for f in freqs]
                for f, e in zip(freqs, arg):
                    p[f] += e
            else:
                arg = [rng.choice([0.0, p[f] * rng.uniform(0, fmax), p[f] * 10 ** -rng.uniform(1, 5)]) for f in freqs]
            ops.append({'k': kind, 'arg': arg, 'scalar': (not per) and kind not in ('addAse', 'addNli')})
        return ops

    stages = []
    freqs = [c['f'] for c in chans]
    for _ in range(rng.randint(1, 4)):
        if rng.random() < 0.35 and len(freqs) >= 1:
            # band split: cut points between channels (band edges exactly on slot edges) or anywhere
            edges = sorted({c['f'] + c['slot'] // 2 for c in chans})
            cuts = sorted(rng.sample(edges, min(len(edges), rng.choice([1, 2]))))
            lo = min(c['f'] - c['slot'] // 2 for c in chans)
            hi = max(edges)
            bnds = []
            prev = lo
            for cpt in cuts:
                if cpt > prev:
                    bnds.append([prev, cpt])
                    prev = cpt
            if prev < hi:
                bnds.append([prev, hi])
            parts = []
            for (blo, bhi) in bnds:
                fs = [c['f'] for c in chans if c['f'] - c['slot'] // 2 >= blo and c['f'] + c['slot'] // 2 <= bhi]
                parts.append({'band': [blo, bhi], 'ops': mk_ops(fs, 3) if fs else []})
            rng.shuffle(parts)
            stages.append({'split': parts})
        else:
            stages.append({'ops': mk_ops(freqs)})
    return {'kind': 'ops', 'chans': chans, 'stages': stages}


def gen_path(rng, tier, widen, shuffle=False):
    return S.gen_path_case(rng, tier, shuffle)


def gen_malformed(rng):
    return {'kind': 'malformed', 'what': rng.choice(['mux_empty', 'edfa_out_of_band', 'demux_none'])}


# ---------------------------------------------------------------------------------------------------------------------
# monitors (own arithmetic on raw arrays)
# ---------------------------------------------------------------------------------------------------------------------
TOL = 1e-9


def monitor_state(res, snap, where):
    """shares in [0,1], sum 1, p > 0"""
    s, a, n, p = snap['s'], snap['a'], snap['n'], snap['p']
    tot = s + a + n
    bad = np.nonzero(~(np.abs(tot - 1.0) <= TOL))[0]
    if len(bad):
        i = int(bad[0])
        res.fail(f'shares-sum: after {where} channel {i} has signal+ase+nli shares = {tot[i]!r} (must be 1)', where=where)
    for nm, x in (('signal', s), ('ase', a), ('nli', n)):
        bad = np.nonzero(~((x >= -1e-12) & (x <= 1 + 1e-12)))[0]
        if len(bad):
            i = int(bad[0])
            res.fail(f'share-range: after {where} channel {i} has {nm} share {x[i]!r} outside [0,1]', where=where)
    if np.any(~(p > 0)):
        res.fail(f'power-sign: after {where} a channel has non-positive total power', where=where)


def monitor_si(res, si, where):
    """the views the implementation offers: signal+ase+nli = pch, 1/gsnr = 1/snr_lin + 1/snr_nli"""
    with np.errstate(divide='ignore', invalid='ignore'):
        sig, ase, nli, pch = np.array(si.signal), np.array(si.ase), np.array(si.nli), np.array(si.pch)
        d = np.abs(sig + ase + nli - pch)
        bad = np.nonzero(~(d <= TOL * np.abs(pch)))[0]
        if len(bad):
            i = int(bad[0])
            res.fail(f'power-split: after {where} channel {i}: signal+ase+nli = {sig[i] + ase[i] + nli[i]!r} W but pch = '
                     f'{pch[i]!r} W', where=where)
        g, o, nl = np.array(si.gsnr, dtype=float), np.array(si.snr_lin, dtype=float), np.array(si.snr_nli, dtype=float)
        lhs = 1.0 / g
        rhs = 1.0 / o + 1.0 / nl
        bad = np.nonzero(~(np.abs(lhs - rhs) <= TOL * np.maximum(np.abs(lhs), 1e-300)))[0]
        if len(bad):
            i = int(bad[0])
            res.fail(f'harmonic: after {where} channel {i}: 1/gsnr = {lhs[i]!r} but 1/snr_lin + 1/snr_nli = {rhs[i]!r}',
                     where=where)
        # dB views must be the dB of the linear ones
        for nm, lin, db in (('gsnr', g, si.gsnr_db), ('snr_lin', o, si.snr_lin_db), ('snr_nli', nl, si.snr_nli_db)):
            db = np.array(db, dtype=float)
            ok = np.isinf(lin) & np.isinf(db) | (np.abs(db - 10 * np.log10(lin)) <= 1e-9)
            if np.any(~ok):
                i = int(np.nonzero(~ok)[0][0])
                res.fail(f'db-view: after {where} channel {i}: {nm}_db = {db[i]!r} for linear {lin[i]!r}', where=where)


def monitor_op_events(res, events):
    """power bookkeeping of every outermost mutating call"""
    for kind, (p0, s0, a0, n0), arg, (p1, s1, a1, n1), uid in events:
        where = f'{kind} in {uid}' if uid else kind
        scale = np.maximum(np.abs(p0), np.abs(p1))
        if kind in ('attLin', 'attDb', 'gainLin', 'gainDb'):
            # C01 only says that no power is created or lost: the three powers scale alike within TOL (that the shares are
            # literally untouched is C02's statement and the correspondence with the model)
            if any(np.any(~(np.abs(x1 - x0) <= TOL)) for x0, x1 in ((s0, s1), (a0, a1), (n0, n1))):
                res.fail(f'bookkeeping-scale: {where} changed a share (attenuation/gain must scale signal, ASE and NLI alike)')
            f = {'attLin': arg, 'gainLin': arg, 'attDb': 10 ** (-arg / 10), 'gainDb': 10 ** (arg / 10)}[kind]
            if np.any(~(np.abs(p1 - p0 * f) <= TOL * scale)):
                i = int(np.nonzero(~(np.abs(p1 - p0 * f) <= TOL * scale))[0][0])
                res.fail(f'bookkeeping-scale: {where} channel {i}: power {p0[i]!r} W -> {p1[i]!r} W, expected factor {f[i]!r}')
        elif kind == 'addAse':
            chk = [('total', p1, p0 + arg), ('signal', s1 * p1, s0 * p0), ('nli', n1 * p1, n0 * p0),
                   ('ase', a1 * p1, a0 * p0 + arg)]
            for nm, got, exp in chk:
                badm = ~(np.abs(got - exp) <= TOL * scale)
                if np.any(badm):
                    i = int(np.nonzero(badm)[0][0])
                    res.fail(f'bookkeeping-ase: {where} channel {i}: {nm} power {got[i]!r} W, expected {exp[i]!r} W '
                             f'(adding {arg[i]!r} W of ASE)')
        elif kind == 'addNli':
            if np.any(~(np.abs(p1 - p0) <= TOL * scale)):
                res.fail(f'bookkeeping-nli: {where} changed the total channel power (NLI is a transfer inside the channel)')
            dn = (n1 - n0) * p0
            ds = (s0 - s1) * p0
            da = (a0 - a1) * p0
            badm = ~(np.abs(dn - (ds + da)) <= TOL * scale)
            if np.any(badm):
                i = int(np.nonzero(badm)[0][0])
                res.fail(f'bookkeeping-nli: {where} channel {i}: NLI power grew by {dn[i]!r} W but signal+ASE lost '
                         f'{ds[i] + da[i]!r} W')
            badm = ~((dn >= -TOL * scale) & (dn <= arg + TOL * scale) & (ds >= -TOL * scale) & (da >= -TOL * scale))
            if np.any(badm):
                i = int(np.nonzero(badm)[0][0])
                res.fail(f'bookkeeping-nli: {where} channel {i}: adding {arg[i]!r} W of NLI moved {dn[i]!r} W into NLI, '
                         f'{ds[i]!r} W out of signal, {da[i]!r} W out of ASE')


# ---------------------------------------------------------------------------------------------------------------------
# correspondence helpers
# ---------------------------------------------------------------------------------------------------------------------

def _chan_bits(snap, i):
    return [f2b(snap['p'][i]), f2b(snap['s'][i]), f2b(snap['a'][i]), f2b(snap['n'][i])]


def compare_call(res, drv, call, tag):
    """one element call: model run of the recorded op list from the recorded state vs the state after"""
    before, after = call.before, call.after
    ops = call.per_channel_ops()
    fb = [float(f) for f in before['freq']]
    fa = [float(f) for f in after['freq']]
    if not set(fa) <= set(fb):
        res.mismatch(tag + '.channels', sorted(set(fa) - set(fb)), [], uid=call.uid)
        return
    idx = {f: i for i, f in enumerate(fb)}
    sel = [idx[f] for f in fa]
    ans = drv.ask('c01.run', chans=[_chan_bits(before, i) for i in sel],
                  ops=[[[k, f2b(x)] for k, x in ops[fb[i]]] for i in sel])
    model = [[b2f(x) for x in row] for row in ans]
    for j, nm in enumerate(('p', 's', 'a', 'n')):
        res.cmp_floats(f'{tag}.{nm}', after[nm], [row[j] for row in model], abs_=1e-300 if nm == 'p' else 1e-15,
                       uid=call.uid, element=call.kind)
    return model


def compare_views(res, si, model, tag):
    with np.errstate(divide='ignore', invalid='ignore'):
        res.cmp_floats(tag + '.signal', si.signal, [r[4] for r in model], abs_=1e-300)
        res.cmp_floats(tag + '.ase', si.ase, [r[5] for r in model], abs_=1e-300)
        res.cmp_floats(tag + '.nli', si.nli, [r[6] for r in model], abs_=1e-300)
        res.cmp_floats(tag + '.snr_lin_db', si.snr_lin_db, [r[7] for r in model], abs_=1e-9)
        res.cmp_floats(tag + '.snr_nli_db', si.snr_nli_db, [r[8] for r in model], abs_=1e-9)
        res.cmp_floats(tag + '.gsnr_db', si.gsnr_db, [r[9] for r in model], abs_=1e-9)


# ---------------------------------------------------------------------------------------------------------------------
# run
# ---------------------------------------------------------------------------------------------------------------------

def run(case, drv):
    return {'ops': run_ops, 'path': run_path, 'shuffle': run_path, 'malformed': run_malformed, 'trxseq': run_trxseq,
            'automode': run_automode}[case['kind']](case, drv)


def _mk_si(chans):
    from gnpy.core.info import SpectralInformation
    n = len(chans)
    arr = lambda k: np.array([float(c[k]) for c in chans])  # noqa: E731
    z = np.zeros(n)
    return SpectralInformation(frequency=arr('f'), baud_rate=arr('baud'), slot_width=arr('slot'), pch=arr('p'),
                               signal_ratio=arr('s'), ase_ratio=arr('a'), nli_ratio=arr('n'), roll_off=z.copy(),
                               chromatic_dispersion=z.copy(), pmd=z.copy(), pdl=z.copy(), latency=z.copy(),
                               delta_pdb_per_channel=z.copy(), tx_osnr=z + 40.0, tx_power=arr('p'),
                               label=np.array(['x'] * n))


def _apply_ops(si, ops):
    meth = {v: k for k, v in S.OPS.items()}
    for o in ops:
        arg = o['arg'][0] if (o['scalar'] and o['arg']) else np.array(o['arg'], dtype=float)
        getattr(si, meth[o['k']])(arg)


def _kchan(snap, i):
    return [int(snap['freq'][i]), _chan_bits(snap, i)]


def run_ops(case, drv):
    from gnpy.core.info import demuxed_spectral_information, muxed_spectral_information
    res = Result()
    si = _mk_si(case['chans'])
    noise_ops = 0
    nsplit = 0
    with S.Recorder() as rec:
        for st_i, st in enumerate(case['stages']):
            before = S.snapshot(si)
            if 'ops' in st:
                rec.loose_ops.clear()
                _apply_ops(si, st['ops'])
                fake = S.Call.__new__(S.Call)
                fake.uid, fake.kind, fake.before, fake.after, fake.ops, fake.error = f'stage{st_i}', 'ops', before, \
                    S.snapshot(si), list(rec.loose_ops), None
                model = compare_call(res, drv, fake, 'SpectralInformation.ops')
                if model is not None:
                    compare_views(res, si, model, 'SpectralInformation.views')
                noise_ops += sum(1 for o in st['ops'] if o['k'] in ('addAse', 'addNli') and any(x > 0 for x in o['arg']))
            else:
                nsplit += 1
                parts_impl, parts_model = [], []
                sp = [_kchan(before, i) for i in range(len(before['freq']))]
                for part in st['split']:
                    lo, hi = part['band']
                    sub = demuxed_spectral_information(si, {'f_min': float(lo), 'f_max': float(hi)})
                    keep = [int(f) for f, sw in zip(before['freq'], before['slot'])
                            if 2 * int(f) - int(sw) >= 2 * lo and 2 * int(f) + int(sw) <= 2 * hi]
                    md = drv.ask('c01.demux', sp=sp, keep=keep)
                    if sub is None:
                        res.cmp_exact('demuxed_spectral_information.empty', True, len(md) == 0)
                        continue
                    s0 = S.snapshot(sub)
                    res.cmp_exact('demuxed_spectral_information.freq', [int(f) for f in s0['freq']], [m[0] for m in md])
                    for j, nm in enumerate(('p', 's', 'a', 'n')):
                        res.cmp_exact(f'demuxed_spectral_information.{nm}', [f2b(x) for x in s0[nm]], [m[1][j] for m in md])
                    rec.loose_ops.clear()
                    _apply_ops(sub, part['ops'])
                    fake = S.Call.__new__(S.Call)
                    fake.uid, fake.kind, fake.before, fake.after, fake.ops, fake.error = f'stage{st_i}', 'ops', s0, \
                        S.snapshot(sub), list(rec.loose_ops), None
                    compare_call(res, drv, fake, 'SpectralInformation.ops')
                    noise_ops += sum(1 for o in part['ops'] if o['k'] in ('addAse', 'addNli') and any(x > 0 for x in o['arg']))
                    parts_impl.append(sub)
                    s1 = fake.after
                    parts_model.append([_kchan(s1, i) for i in range(len(s1['freq']))])
                if not parts_impl:
                    continue
                si = muxed_spectral_information(parts_impl)
                mm = drv.ask('c01.mux', parts=parts_model)
                after = S.snapshot(si)
                res.cmp_exact('muxed_spectral_information.freq', [int(f) for f in after['freq']],
                              None if mm is None else [m[0] for m in mm])
                if mm is not None and len(mm) == len(after['freq']):
                    for j, nm in enumerate(('p', 's', 'a', 'n')):
                        res.cmp_exact(f'muxed_spectral_information.{nm}', [f2b(x) for x in after[nm]], [m[1][j] for m in mm])
                # monitor: split + merge neither loses nor duplicates a channel and keeps the untouched record of each
                fb = [float(f) for f in before['freq']]
                fa = [float(f) for f in after['freq']]
                if fa != fb:
                    res.fail(f'split-merge: {len(fb)} channels before a band split/merge, {len(fa)} after '
                             f'(lost {sorted(set(fb) - set(fa))[:3]}, extra/duplicated {[f for f in fa if fa.count(f) > 1 or f not in fb][:3]})')
            monitor_state(res, S.snapshot(si), f'stage {st_i}')
            monitor_si(res, si, f'stage {st_i}')
    monitor_op_events(res, rec.op_events)
    res.nontrivial = noise_ops > 0
    res.stats.update({'ops_cases': 1, 'ops_stages': len(case['stages']), 'ops_splits': nsplit, 'ops_noise_calls': noise_ops,
                      f'ops_nch_{_bucket(len(case["chans"]))}': 1, 'op_calls_monitored': len(rec.op_events)})
    return res


def _bucket(n):
    for b in (1, 2, 5, 10, 25, 50, 100):
        if n <= b:
            return f'le{b}'
    return 'gt100'


_setup_path = S.setup_path


def run_path(case, drv):
    from gnpy.topology.request import propagate, filter_si
    from gnpy.core.info import carriers_to_spectral_information, create_input_spectral_information
    from gnpy.core.elements import Roadm, Fused
    res = Result()
    eq, path, req, sim = _setup_path(case)
    shuffle = case['kind'] == 'shuffle'
    with S.sim_params(sim):
        with S.Recorder() as rec:
            if not shuffle:
                si = propagate(path, req, eq)
            else:
                si = carriers_to_spectral_information(req.initial_spectrum, req.power) if req.initial_spectrum else \
                    create_input_spectral_information(f_min=req.f_min, f_max=req.f_max, roll_off=req.roll_off,
                                                      baud_rate=req.baud_rate, spacing=req.spacing, tx_osnr=req.tx_osnr,
                                                      tx_power=req.tx_power)
                si = filter_si(path, eq, si)
                idx = list(range(1, len(path) - 1))
                order = case['order']
                idx.sort(key=lambda i: order[i % len(order)])
                idx = idx[:max(1, int(len(idx) * (0.4 + 0.6 * order[0])))]
                for i in idx:
                    el = path[i]
                    if isinstance(el, Roadm):
                        si = el(si, degree=path[i + 1].uid, from_degree=path[i - 1].uid)
                    elif not isinstance(el, Fused) and float(np.max(si.pch)) > 10e-3:
                        # a random order can pile amplifiers up: beyond +10 dBm per channel the property does not apply
                        # (the NLI estimate exceeds the channel power, amplifier models leave their domain)
                        res.stats['shuffle_element_skipped_above_10dBm'] += 1
                    else:
                        si = el(si)
                si = path[-1](si)
                path[-1].update_snr(si.tx_osnr)
    kinds = [c.kind for c in rec.calls]
    nli_guard = 0
    for ci, call in enumerate(rec.calls):
        where = f'{call.kind} {call.uid!r} (element {ci})'
        if call.after is None:
            res.fail(f'exception: {where} raised {err_kind(call.error)}')
            continue
        compare_call(res, drv, call, f'{call.kind}.__call__')
        monitor_state(res, call.after, where)
        # every channel that entered leaves (power is not lost by dropping a channel), none twice
        fb = [float(f) for f in call.before['freq']]
        fa = [float(f) for f in call.after['freq']]
        if fa != fb:
            res.fail(f'split-merge: {where}: {len(fb)} channels in, {len(fa)} out')
        for kind, freq, arg in call.ops:
            if kind == 'addNli':
                nli_guard += 1
    monitor_si(res, si, 'the last element')
    monitor_op_events(res, rec.op_events)
    # NLI below channel power (guard of the theorems; the property scopes launch powers to <= +10 dBm)
    for kind, (p0, s0, a0, n0), arg, _, uid in rec.op_events:
        if kind == 'addNli' and np.any(~(arg < p0)):
            res.stats['nli_not_below_pch'] += 1
        if kind in ('addNli', 'addAse') and np.any(arg < -TOL * p0):      # a rounding residue is not a violation
            res.fail(f'negative-noise: {kind} in {uid} was given a negative power')
    check_update_calls(res, drv, rec.update_snr_calls)
    # Transceiver figures
    rx = path[-1]
    last = rec.calls[-1].after
    args = [a for a in rec.update_snr_args.get(rx.uid, []) if a is not None]
    nchan = len(last['freq'])
    per_ch_args = [[f2b(float(np.broadcast_to(a, (nchan,))[i])) for a in args] for i in range(nchan)]
    ans = drv.ask('c01.trx', chans=[_chan_bits(last, i) for i in range(nchan)], baud=[f2b(x) for x in last['baud']],
                  args=per_ch_args)
    rows = [[b2f(x) for x in r] for r in ans]
    with np.errstate(divide='ignore', invalid='ignore'):
        for j, nm in enumerate(('raw_osnr_ase', 'raw_osnr_nli', 'raw_snr', 'raw_osnr_ase_01nm', 'raw_snr_01nm',
                                'osnr_ase', 'osnr_nli', 'snr', 'osnr_ase_01nm', 'snr_01nm')):
            res.cmp_floats(f'Transceiver.{nm}', getattr(rx, nm), [r[j] for r in rows], abs_=1e-9)
        # monitor: the reported figures obey 1/GSNR = 1/OSNR_ASE + 1/SNR_NLI
        for pre in ('raw_', ''):
            g = 10 ** (-np.array(getattr(rx, pre + 'snr'), dtype=float) / 10)
            o = 10 ** (-np.array(getattr(rx, pre + 'osnr_ase'), dtype=float) / 10)
            nl = 10 ** (-np.array(getattr(rx, pre + 'osnr_nli'), dtype=float) / 10)
            bad = np.nonzero(~(np.abs(g - (o + nl)) <= 1e-9 * g))[0]
            if len(bad):
                i = int(bad[0])
                res.fail(f'harmonic-trx: receiver {rx.uid!r} channel {i}: 1/{pre}snr = {g[i]!r} but 1/{pre}osnr_ase + '
                         f'1/{pre}osnr_nli = {o[i] + nl[i]!r}')
        # the receiver's raw figures are those of the spectrum that reached it
        sg, sa, sn = last['s'], last['a'], last['n']
        exp_g = 10 * np.log10(sg / (sa + sn))
        got_g = np.array(rx.raw_snr, dtype=float)
        if np.any(~((np.abs(got_g - exp_g) <= 1e-9) | (np.isinf(exp_g) & (got_g == exp_g)))):
            res.fail(f'trx-report: receiver {rx.uid!r} reports a GSNR that is not signal/(ase+nli) of the received spectrum')
    res.nontrivial = ('Fiber' in kinds or 'RamanFiber' in kinds) and ('Edfa' in kinds or 'Multiband_amplifier' in kinds)
    res.stats.update({f'{case["kind"]}_cases': 1, 'path_elements': len(rec.calls), 'path_channels': nchan,
                      'path_addNli_calls': nli_guard, 'op_calls_monitored': len(rec.op_events),
                      f'net_{case["net"] if isinstance(case["net"], str) else ("mbchain" if "mbhops" in case["net"] else "generated")}': 1,
                      'sim_' + str(case['sim']): 1})
    for k in set(kinds):
        res.stats[f'elem_{k}'] += kinds.count(k)
    return res


def check_update_calls(res, drv, events):
    """every recorded Transceiver.update_snr call: correspondence with the history-free model (`TrxFig.updates` on the
    figures of the spectrum that last reached this receiver) and the monitor 1/GSNR = 1/OSNR_ASE + 1/SNR_NLI on the
    reported figures (signal bandwidth and 0.1 nm) after EVERY call"""
    groups = {}
    for ev in events:
        if ev['state'] is None:
            continue
        groups.setdefault((ev['uid'], ev['call_index']), []).append(ev)
    maxlen = 0
    for (uid, _), evs in groups.items():
        st = evs[0]['state']
        n = len(st['freq'])
        maxlen = max(maxlen, len(evs))
        per_ch_calls = [[[f2b(float(np.broadcast_to(a, (n,))[i])) for a in ev['args'] if a is not None] for ev in evs]
                        for i in range(n)]
        ans = drv.ask('c01.trxseq', chans=[_chan_bits(st, i) for i in range(n)], baud=[f2b(x) for x in st['baud']],
                      calls=per_ch_calls)
        for k, ev in enumerate(evs):
            rows = [[b2f(x) for x in ans[i][k + 1]] for i in range(n)]
            for j, nm in enumerate(S.TRX_FIGS):
                res.cmp_floats(f'Transceiver.update_snr.{nm}', ev['figs'][nm], [r[j] for r in rows], abs_=1e-9,
                               uid=uid, call=k + 1)
            f = ev['figs']
            with np.errstate(divide='ignore', invalid='ignore', over='ignore'):
                shift = 10 * np.log10(12.5e9 / st['baud'])
                for tag, g_db, o_db, n_db in (('', f['snr'], f['osnr_ase'], f['osnr_nli']),
                                              ('_01nm', f['snr_01nm'], f['osnr_ase_01nm'], f['osnr_nli'] - shift)):
                    g, o, nl = 10 ** (-g_db / 10), 10 ** (-o_db / 10), 10 ** (-n_db / 10)
                    bad = np.nonzero(~(np.abs(g - (o + nl)) <= 1e-9 * g))[0]
                    if len(bad):
                        i = int(bad[0])
                        res.fail(f'harmonic-trx: receiver {uid!r}, after update_snr call {k + 1} of {len(evs)} without a new '
                                 f'propagation, channel {i}: 1/snr{tag} = {g[i]!r} but 1/osnr_ase{tag} + 1/osnr_nli{tag} = '
                                 f'{o[i] + nl[i]!r}', call=k + 1)
                        break
    res.stats['update_snr_calls_checked'] += len(events)
    res.stats[f'update_snr_max_calls_per_propagation_{min(maxlen, 4)}'] += 1
    return maxlen


def run_trxseq(case, drv):
    from gnpy.core.elements import Transceiver
    res = Result()
    si = _mk_si(case['chans'])
    rx = Transceiver(uid='rx', metadata=nets.loc())
    with S.Recorder(keep_op_events=False) as rec:
        rx(si)
        for args in case['calls']:
            rx.update_snr(*[None if a is None else (np.array(a, dtype=float) if isinstance(a, list) else a) for a in args])
    m = check_update_calls(res, drv, rec.update_snr_calls)
    res.nontrivial = m >= 2
    res.stats.update({'trxseq_cases': 1, 'trxseq_calls': len(case['calls'])})
    return res


def run_automode(case, drv):
    from gnpy.topology.request import propagate_and_optimize_mode, compute_constrained_path
    from gnpy.tools.json_io import requests_from_json
    res = Result()
    if isinstance(case['net'], str):
        eq, net, trx = S.example(case['net'])
        a = int(case['pick'][0] * len(trx))
        b = int(case['pick'][1] * (len(trx) - 1))
        if b >= a:
            b += 1
        src, dst = trx[a], trx[b]
    else:
        eq, net = S.designed_from_desc(case['net']['desc'])
        src, dst = case['src'], case['dst']
    eq = copy.deepcopy(eq)
    tr = eq['Transceiver']['Voyager']
    tr.mode = copy.deepcopy(case['modes'])
    # a narrow request band keeps the comb small
    tr.frequency = {'min': 193_000_000_000_000.0, 'max': 193_000_000_000_000.0 + (case['nchan_band'] + 0.6) * case['spacing']}

    def mk_req(s, d):
        data = {'path-request': [{'request-id': 'r', 'source': s, 'destination': d, 'src-tp-id': s, 'dst-tp-id': d,
                                  'bidirectional': False,
                                  'path-constraints': {'te-bandwidth': {'technology': 'flexi-grid', 'trx_type': 'Voyager',
                                                                        'trx_mode': None, 'spacing': case['spacing'],
                                                                        'path_bandwidth': 100e9}}}]}
        r = requests_from_json(data, eq)[0]
        r.nodes_list, r.loose_list = [d], ['STRICT']
        return r
    req = mk_req(src, dst)
    path = compute_constrained_path(net, req)
    if not path:
        req = mk_req(dst, src)
        path = compute_constrained_path(net, req)
    with S.Recorder(keep_op_events=False) as rec:
        _, mode = propagate_and_optimize_mode(path, req, eq)
    for call in rec.calls:
        if call.after is not None:
            monitor_state(res, call.after, f'{call.kind} {call.uid!r}')
    rx_events = [ev for ev in rec.update_snr_calls if ev['uid'] == path[-1].uid]
    m = check_update_calls(res, drv, rec.update_snr_calls)
    explored = len(rx_events)
    res.nontrivial = m >= 2
    res.stats.update({'automode_cases': 1, 'automode_modes_explored': explored,
                      'automode_selected_' + ('none' if mode is None else 'some'): 1,
                      f'automode_blocking_{getattr(req, "blocking_reason", None)}': 1,
                      f'net_{case["net"] if isinstance(case["net"], str) else ("mbchain" if "mbhops" in case["net"] else "generated")}': 1})
    return res


def run_malformed(case, drv):
    from gnpy.core.info import muxed_spectral_information, demuxed_spectral_information
    res = Result()
    what = case['what']
    if what == 'mux_empty':
        try:
            muxed_spectral_information([])
            impl = 'accepted'
        except Exception as e:
            impl = err_kind(e)
        model = 'ValueError' if drv.ask('c01.mux', parts=[]) is None else 'accepted'
        res.cmp_exact('muxed_spectral_information.empty', impl, model)
    elif what == 'demux_none':
        si = _mk_si([{'f': 193_000_000_000_000, 'baud': 32e9, 'slot': 50_000_000_000, 'p': 1e-3, 's': 1.0, 'a': 0.0, 'n': 0.0}])
        out = demuxed_spectral_information(si, {'f_min': 186e12, 'f_max': 190e12})
        md = drv.ask('c01.demux', sp=[[193_000_000_000_000, [f2b(1e-3), f2b(1.0), f2b(0.0), f2b(0.0)]]], keep=[])
        res.cmp_exact('demuxed_spectral_information.none', out is None, md == [])
    else:
        eq, net, trx = S.example('edfa')
        from gnpy.core.elements import Edfa
        amp = next(n for n in net.nodes() if isinstance(n, Edfa))
        si = _mk_si([{'f': 150_000_000_000_000, 'baud': 32e9, 'slot': 50_000_000_000, 'p': 1e-3, 's': 1.0, 'a': 0.0, 'n': 0.0}])
        try:
            amp(si)
            impl = 'accepted'
        except Exception as e:
            impl = err_kind(e)
        # model: multiband with one amplifier whose band holds no channel
        md = drv.ask('c02.multiband', sp=[[150_000_000_000_000, [f2b(1e-3), f2b(1.0), f2b(0.0), f2b(0.0)]]],
                     slot=[[150_000_000_000_000, 50_000_000_000]],
                     amps=[{'fmin': 191_000_000_000_000, 'fmax': 196_000_000_000_000, 'elems': []}])
        res.cmp_exact('Edfa.__call__.out_of_band', impl, 'ValueError' if md is None else 'accepted')
        if impl != 'ValueError':
            res.fail(f'out-of-band: an amplifier called with no channel in its band answered {impl}')
    res.nontrivial = True
    res.stats.update({'malformed_' + what: 1})
    return res


def shrink_candidates(case):
    if case['kind'] == 'ops':
        if len(case['stages']) > 1:
            for i in range(len(case['stages'])):
                c = copy.deepcopy(case)
                del c['stages'][i]
                yield c
        for i, st in enumerate(case['stages']):
            if 'ops' in st and len(st['ops']) > 1:
                for j in range(len(st['ops'])):
                    c = copy.deepcopy(case)
                    del c['stages'][i]['ops'][j]
                    yield c
        n = len(case['chans'])
        if n > 1 and all('ops' in st for st in case['stages']):
            for i in range(n):
                c = copy.deepcopy(case)
                del c['chans'][i]
                for st in c['stages']:
                    for o in st['ops']:
                        del o['arg'][i]
                yield c
    elif case['kind'] in ('path', 'shuffle'):
        if case['nch'] > 1:
            c = copy.deepcopy(case)
            c['nch'] = max(1, case['nch'] // 2)
            yield c
        if not isinstance(case['net'], str) and 'desc' in case['net']:
            d = case['net']['desc']
            for h in range(len(d['hops'])):
                if len(d['hops'][h]) > 1:
                    c = copy.deepcopy(case)
                    c['net']['desc']['hops'][h].pop()
                    yield c
