"""C16 — each request's result is independent of the other requests in the batch.

Monitor (the property itself): for generated batches on generated designed networks, planning() is run on the whole
batch, on every request alone, and on permutations of the batch; for every request the route, transponder mode, verdict
and metrics of ResultElement.json (N/M labels and the batch-dependent NO_SPECTRUM outcome excluded) and the receiver's
per-channel GSNR/OSNR arrays must coincide; network_to_json and the amplifiers' run-time gains before/after every call
must coincide.
Correspondence: the pipeline model (Gnpy.Plan.plan: results = map computeOne) fed with the alone-results reproduces the
batch results in batch order; Edfa.interpol_params' persistent effective_gain vs Gnpy.Plan.Edfa.call on real amplifiers.
"""
import copy
import itertools
import math

import warnings

import numpy as np

from common.util import Result, f2b, b2f, fl, err_kind, canon_hash
from common import nets, nets_g, batch_g

warnings.filterwarnings('ignore', message='Polyfit may be poorly conditioned')

ID = 'C16'
N = {'quick': 120, 'thorough': 1500}
LEAN_MODULES = ['GnpyProofs.Props.C16']
THEOREMS = [f'Gnpy.Plan.{t}' for t in (
    'plan_results_pointwise', 'plan_result_context', 'plan_perm', 'plan_leaves_settings', 'copy_leaves_settings',
    'call_spec', 'call_reduced_only_as_needed', 'call_history_free', 'setGain_invariant', 'propagate_settings',
    'planCopy_spec', 'planCopy_pointwise', 'planShared_results_eq_planCopy',
    'leaky_effGain_antitone', 'leaky_call_saturated', 'edfa_state_leaks', 'shared_differs',
    'plan_leaves_simparams', 'cutIndices_order_free', 'cutIndices_ends', 'simparams_leak_example')]
RULE = ('one PRNG; batch cases (85 %): random mesh of 3-5 ROADM sites + island, generated library, design power 0/2/3 dBm, '
        '2-8 requests of the kinds fixed/auto/hard/autohard/narrow/nopath/constraint/loose/huge/reserved/multislot/dense/'
        'saturating (a +3..5 dB offset comb over the full band that drives amplifiers into their p_max clamp; the number of '
        'clamped amplifier calls is counted in the evidence), run as a whole, one by one and in 3 permutations (thorough: all '
        'permutations up to 4 requests, 8 otherwise); 10 % of the batches are malformed (duplicate id, unknown transceiver, '
        'unknown node) and must be rejected leaving the network unchanged; multiband batches (18 %: shipped multiband example '
        'or generated C+L chains, a dense 37.5 GHz request that clamps band amplifiers followed by ordinary requests over the same '
        'Multiband_amplifier elements; per-band gains are part of the snapshot); batches under NON-DEFAULT process-wide SimParams '
        '(9 %: ggn_approx, thorough also ggn_spectrally_separated, computed_number_of_channels 5/8, Raman flag on/off, a request '
        'with fewer carriers than that number before a full-comb one, both orders; SimParams._shared_dict is snapshotted before '
        'and after every planning and restored by the harness); edfa cases (12 %): one real amplifier of a '
        'designed line called with 2-6 successive spectra of different total power. Non-trivial: a batch with >= 2 requests '
        'sharing at least one amplifier, or an amplifier sequence with at least one clamped call')
MODEL_SCOPE = ('modelled: planning as a function (results = map of a per-request computation, slots = fold), the per-request '
               'deep copy of compute_path_with_disjunction (propagateOnCopy), Edfa.interpol_params clamp from the SET gain '
               '_effective_gain = min(_set_gain, p_max - pin) (the pre-repair persistent clamp is kept as the counter-model callLeaky), the process-wide SimParams as part of the settings (World) and the '
               'read-only channel selection of the GGN methods (cutIndices). not modelled: what computeOne computes (C11-C14), '
               'Python object identity')
MANIFEST = {'level_note': 'proof of the pipeline model; run-time aliasing (is every mutable object really copied) is partial: '
                          'correspondence + monitor only'}
PARTIAL = ['run-time aliasing (whether deepcopy really separates every mutable object reachable from a path, shared library '
           'dicts, class attributes) cannot be a theorem about the functional model: it is carried by the correspondence '
           'check and the monitor only; edfa_state_leaks / shared_differs (about the pre-repair leaky amplifier) show why the copy was '
           'needed, planShared_results_eq_planCopy that the repaired amplifier no longer depends on it']
KINDS = ['fixed', 'fixed', 'auto', 'auto', 'hard', 'autohard', 'narrow', 'nopath', 'constraint', 'loose', 'huge', 'reserved',
         'multislot', 'dense', 'saturating', 'saturating', 'saturating']
NOPATH = ('NO_PATH', 'NO_PATH_WITH_CONSTRAINT', 'NO_FEASIBLE_BAUDRATE_WITH_SPACING', 'NO_COMPUTED_SNR')


def gen(rng, tier, widen=False):
    u = rng.random()
    if u < 0.12 and not widen:
        return gen_edfa(rng)
    if u < 0.30:
        case = gen_multiband(rng, tier)
    elif u < 0.39:
        case = gen_sim(rng, tier)
    else:
        case = batch_g.gen_batch(rng, tier, kinds=KINDS)
        case['kind'] = 'batch'
    case.setdefault('sim', None)
    case['malformed'] = None
    k = len(case['requests'])
    perms = []
    if tier == 'thorough' and k <= 4:
        perms = [list(p) for p in itertools.permutations(range(k))][1:]
    else:
        for _ in range(3 if tier == 'quick' else 8):
            p = list(range(k))
            rng.shuffle(p)
            perms.append(p)
        perms[0] = list(reversed(range(k)))
    if case['sim']:
        perms = perms[:2] if (case['sim']['method'] == 'ggn_approx' and tier == 'thorough') else perms[:1]
        perms[0] = list(reversed(range(k)))
    case['perms'] = perms
    if case['kind'] == 'batch' and case['sim'] is None and rng.random() < 0.10:
        t = rng.choice(['dup_id', 'unknown_trx', 'unknown_node'])
        r = rng.choice(case['requests'])
        if t == 'dup_id' and k > 1:
            r['id'] = rng.choice([x for x in case['requests'] if x is not r])['id']
            case['malformed'] = t
        elif t == 'unknown_trx':
            r['type'] = 'nope'
            case['malformed'] = t
        elif t == 'unknown_node':
            r['dst'] = 99
            case['malformed'] = t
    return case


def gen_sim(rng, tier):
    """a batch computed under NON-DEFAULT process-wide simulation parameters (GGN NLI evaluated on
    computed_number_of_channels carriers, Raman flag on/off); a request with FEWER carriers than that number comes before a
    full-comb request (the reversed order is always among the permutations)"""
    # ggn_spectrally_separated costs 10-50 s per batch: thorough tier only
    method = rng.choice(['ggn_approx', 'ggn_approx', 'ggn_approx', 'ggn_spectrally_separated']) if tier == 'thorough' else 'ggn_approx'
    nreq = rng.choice([2, 2, 3] if tier == 'quick' else [2, 3, 3, 4]) if method == 'ggn_approx' else 2
    case = batch_g.gen_batch(rng, tier, nreq=nreq, kinds=['fixed', 'fixed', 'hard', 'sparse'], twins_ok=False)
    case['kind'] = 'batch'
    case['sim'] = {'method': method, 'ncomp': rng.choice([5, 8, 8]), 'raman': rng.random() < 0.4}
    n = case['n']
    case['requests'][0] = batch_g.gen_request(rng, 'r0', 'sparse', n, [])
    case['requests'][1] = batch_g.gen_request(rng, 'r1', 'dense' if (method == 'ggn_approx' and rng.random() < 0.4) else 'fixed', n,
                                              case['requests'][:1])
    if rng.random() < 0.5:      # the two on the same route
        for k_ in ('src', 'dst'):
            case['requests'][1][k_] = case['requests'][0][k_]
    return case


MB_TRX = ['trx Site_A', 'trx Site_D', 'trx Site_G', 'trx Site_L']


def gen_multiband(rng, tier):
    """batches on multiband networks (Multiband_amplifier keeps its per-band Edfa objects in a dict): the shipped example or a
    generated C+L chain; a dense request (37.5 GHz spacing: many more carriers than the design) that saturates band
    amplifiers, followed by ordinary requests over the same amplifiers"""
    from common import specrec
    if rng.random() < 0.6:
        net = {'example': True}
        ends = MB_TRX
        main = ('trx Site_A', 'trx Site_D')
    else:
        hops = specrec.gen_mb_hops(rng)
        net = {'example': False, 'hops': hops}
        ends = [f'trx {i}' for i in range(len(hops) + 1)]
        main = (ends[0], ends[-1])
    reqs = []
    k = rng.choice([2, 2, 3, 4])
    for i in range(k):
        if i < 2 or rng.random() < 0.5:
            s, d = main if rng.random() < 0.7 else main[::-1]
        else:
            s, d = rng.sample(ends, 2)
        dense = (i == 0) or rng.random() < 0.2
        reqs.append({'id': f'r{i}', 'kind': 'mb_dense' if dense else 'mb_plain', 'src_uid': s, 'dst_uid': d, 'src': 0, 'dst': 0,
                     'type': 'Voyager', 'mode': 'mode 1', 'spacing': 37.5e9 if dense else rng.choice([50e9, 50e9, 75e9]),
                     'bidir': rng.random() < 0.4, 'bw': 100e9, 'power': None, 'include': None, 'strict': True, 'nm': None})
    return {'kind': 'multiband', 'net': net, 'requests': reqs, 'n': 0}


def gen_edfa(rng):
    spans = [rng.choice([40.0, 60.0, 80.0, 100.0]) for _ in range(rng.choice([1, 2]))]
    calls = []
    for _ in range(rng.choice([2, 3, 4, 6])):
        calls.append({'nch': rng.choice([2, 8, 20, 40, 76]), 'p_dbm': rng.choice([-25.0, -20.0, -12.0, -5.0, 0.0, 3.0, 6.0]),
                      'on_copy': rng.random() < 0.4})
    return {'kind': 'edfa', 'spans': spans, 'amp': rng.randrange(0, len(spans) + 1), 'calls': calls,
            'p_design': rng.choice([None, 2, 3])}


class _NliSpy:
    """records (number of carriers, cut indices) of every GGN evaluation (run-time wrap of the two static methods)"""

    def __enter__(self):
        from gnpy.core.science_utils import NliSolver
        self.cls, self.calls = NliSolver, []
        self.orig = {n: NliSolver.__dict__[n] for n in ('_ggn_approx', '_ggn_spectrally_separated')}
        spy = self
        for name, sm in self.orig.items():
            f = sm.__func__ if isinstance(sm, staticmethod) else sm

            def wrapped(cut_indices, spectral_info, *a, _f=f, **kw):
                spy.calls.append((int(spectral_info.number_of_channels), [int(x) for x in cut_indices]))
                return _f(cut_indices, spectral_info, *a, **kw)
            setattr(NliSolver, name, staticmethod(wrapped))
        return self

    def __exit__(self, *a):
        for name, sm in self.orig.items():
            setattr(self.cls, name, sm)


class _ClampSpy:
    """counts Edfa calls whose stored effective gain was lowered by the p_max clamp (run-time wrap, no source change)"""

    def __enter__(self):
        from gnpy.core.elements import Edfa
        self.cls, self.orig, self.n = Edfa, Edfa.interpol_params, 0
        spy = self

        def wrapped(obj, si):
            before = obj.effective_gain
            spy.orig(obj, si)
            if obj.effective_gain < before - 1e-9:
                spy.n += 1
        Edfa.interpol_params = wrapped
        return self

    def __exit__(self, *a):
        self.cls.interpol_params = self.orig


def _snapshot(net):
    """designed settings (network_to_json) + run-time operating point of every element"""
    from gnpy.tools.json_io import network_to_json
    from gnpy.core.elements import Edfa, Roadm, Fiber, Multiband_amplifier
    rt = {}
    for n in net.nodes():
        if isinstance(n, Edfa):
            rt[n.uid] = [n.effective_gain, getattr(n, '_set_gain', None), n.delta_p, n.out_voa, n.tilt_target, n.target_pch_out_dbm]
        elif isinstance(n, Roadm):
            rt[n.uid] = [dict(n.per_degree_pch_out_dbm), dict(n.ref_pch_in_dbm)]
        elif isinstance(n, Multiband_amplifier):
            rt[n.uid] = {band: [a.effective_gain, getattr(a, '_set_gain', None), a.delta_p, a.out_voa, a.tilt_target]
                         for band, a in n.amplifiers.items()}
    return batch_g.canon({'json': network_to_json(net), 'rt': rt})


def _sim_snapshot():
    """the process-wide simulation settings (SimParams._shared_dict)"""
    from gnpy.core.parameters import SimParams
    d = SimParams._shared_dict
    return batch_g.canon({'nli_params': d['nli_params'].to_json(), 'raman_params': d['raman_params'].to_json()})


def _set_sim(sim):
    from gnpy.core.parameters import SimParams
    if not sim:
        SimParams.set_params({})
    else:
        SimParams.set_params({'nli_params': {'method': sim['method'], 'computed_number_of_channels': sim['ncomp']},
                              'raman_params': {'flag': bool(sim['raman'])}})


def _build(case):
    if case['kind'] != 'multiband':
        return batch_g.build(case)
    import copy as _c
    from common import specrec
    if case['net']['example']:
        from gnpy.tools.json_io import load_json, network_from_json
        from gnpy.tools.worker_utils import designed_network
        eq = nets.eqpt('eqpt_config_multiband.json')
        net = network_from_json(load_json(nets.EX / 'multiband_example_network.json'), eq)
        net, _, _ = designed_network(eq, net)
    else:
        eq, net = _c.deepcopy(specrec.mb_chain_net(case['net']['hops']))
    return {'eq': eq, 'net': net}


def _core(j, aggregated):
    """what must not depend on the batch: route, transponder, verdict, metrics (labels and NO_SPECTRUM excluded)"""
    if 'no-path' in j:
        reason = j['no-path']['no-path']
        props = j['no-path'].get('path-properties')
    else:
        reason, props = None, j['path-properties']
    verdict = 'feasible' if reason in (None, 'NO_SPECTRUM') else reason
    core = {'verdict': verdict}
    if props is not None:
        pros = [x['path-route-object'] for x in props['path-route-objects']]
        core['hops'] = [x['num-unnum-hop']['node-id'] for x in pros if 'num-unnum-hop' in x]
        core['tsp'] = [x['transponder'] for x in pros if 'transponder' in x]
        for k in ('path-metric', 'z-a-path-metric'):
            if k in props:
                core[k] = [[x['metric-type'], x['accumulative-value']] for x in props[k]
                           if not (aggregated and x['metric-type'] == 'path_bandwidth')]
    return core


def _arrays(p, rp):
    out = {}
    for name, path in (('fwd', p), ('rev', rp)):
        if path:
            rx = path[-1]
            out[name] = {k: [float(x) for x in getattr(rx, k)] for k in ('snr_01nm', 'snr', 'osnr_ase_01nm', 'osnr_ase')}
            out[name]['pen'] = [float(x) for x in np.broadcast_to(rx.total_penalty, (len(rx.snr),))]
    return out


def _plan(ctx, reqs):
    """planning on the given request list -> {member id: (core, arrays, aggregated?)}, in response order"""
    oms, pp, rpp, rqs, dsjn, result = batch_g.run_planning(ctx, reqs)
    out = {}
    order = []
    for rq, r, p, rp in zip(rqs, result, pp, rpp):
        j = batch_g.norm(r.json)
        parts = rq.request_id.split(' | ')
        agg = len(parts) > 1
        for part in parts:
            out[part] = (_core(j, agg), _arrays(p, rp), agg, sorted(parts))
        order.append(rq.request_id)
    return out, order


def _alone_main():
    """entry point of the FRESH-PROCESS run: stdin = {"case":…, "rid":…}; stdout = core + receiver arrays of that request
    computed alone in a process that has computed nothing else (process-wide state cannot have been touched before)"""
    import json
    import sys
    d = json.load(sys.stdin)
    case, rid = d['case'], d['rid']
    _set_sim(case.get('sim'))
    ctx = _build(case)
    out, _ = _plan(ctx, [r for r in case['requests'] if r['id'] == rid])
    core, arrays, _, _ = out[rid]
    sys.stdout.write('\n@@RESULT@@' + json.dumps({'core': core, 'arrays': arrays}, default=float))


def _fresh_process_alone(case, rid):
    import json
    import os
    import subprocess
    import sys
    here = os.path.dirname(os.path.dirname(os.path.abspath(__file__)))
    code = f'import sys; sys.path.insert(0, {here!r}); from props import c16; c16._alone_main()'
    p = subprocess.run([sys.executable, '-W', 'ignore', '-c', code], input=json.dumps({'case': case, 'rid': rid}),
                       capture_output=True, text=True, timeout=600)
    if '@@RESULT@@' not in p.stdout:
        return None, (p.stderr or p.stdout)[-600:]
    return json.loads(p.stdout.split('@@RESULT@@')[1]), None


def _num_close(u, v):
    if isinstance(u, bool) or isinstance(v, bool) or not isinstance(u, (int, float)) or not isinstance(v, (int, float)):
        return u == v
    u, v = float(u), float(v)
    if math.isnan(u) or math.isnan(v):
        return math.isnan(u) and math.isnan(v)
    if math.isinf(u) or math.isinf(v):
        return u == v
    return abs(u - v) <= 1e-9 * max(1.0, abs(u))


def _tree_close(a, b):
    """response trees equal up to rel 1e-9 on floats (NaN equal to NaN)"""
    if isinstance(a, dict) and isinstance(b, dict):
        return a.keys() == b.keys() and all(_tree_close(a[k], b[k]) for k in a)
    if isinstance(a, list) and isinstance(b, list):
        return len(a) == len(b) and all(_tree_close(x, y) for x, y in zip(a, b))
    return _num_close(a, b)


def _arr_close(a, b):
    if a.keys() != b.keys():
        return False
    for d in a:
        if a[d].keys() != b[d].keys():
            return False
        for k in a[d]:
            x, y = a[d][k], b[d][k]
            if len(x) != len(y) or any(not _num_close(u, v) for u, v in zip(x, y)):
                return False
    return True


def _eq_snapshot(eq):
    """the equipment library the requests are computed with: SI / Span defaults, transceiver modes, amplifier and ROADM entries"""
    def plain(o):
        d = vars(o) if hasattr(o, '__dict__') else o
        return {k: v for k, v in d.items()} if isinstance(d, dict) else d
    import json

    def dflt(o):
        if hasattr(o, 'tolist'):
            return o.tolist()
        if hasattr(o, '_asdict'):
            return o._asdict()
        if hasattr(o, '__dict__'):
            return {k: v for k, v in vars(o).items()}
        return repr(o)
    return json.dumps({kind: {name: plain(obj) for name, obj in eq[kind].items()}
                       for kind in ('SI', 'Span', 'Transceiver', 'Edfa', 'Roadm') if kind in eq}, sort_keys=True, default=dflt)


def run(case, drv):
    if case['kind'] == 'edfa':
        return run_edfa(case, drv)
    _set_sim(case.get('sim'))
    try:
        return _run_batch(case, drv)
    finally:
        _set_sim(None)     # the harness restores the process-wide settings whatever happened


def _run_batch(case, drv):
    from gnpy.core.exceptions import ServiceError, EquipmentConfigError
    res = Result()
    ctx = _build(case)
    net = ctx['net']
    sim0 = _sim_snapshot()
    reqs = case['requests']
    snap0 = _snapshot(net)
    eq0 = _eq_snapshot(ctx['eq'])
    mal = case.get('malformed')
    exp_err = {'dup_id': 'ValueError', 'unknown_trx': 'EquipmentConfigError', 'unknown_node': 'ServiceError'}.get(mal)

    def unchanged(what):
        ok = True
        if _snapshot(net) != snap0:
            res.fail(f'settings changed: the designed network differs after {what}')
            ok = False
        if _eq_snapshot(ctx['eq']) != eq0:
            res.fail(f'settings changed: the equipment library (SI / transceiver modes / amplifier entries) differs after {what}')
            ok = False
        s1 = _sim_snapshot()
        if s1 != sim0:
            res.fail(f'settings changed: the process-wide simulation parameters differ after {what}: {s1[:200]} (before: {sim0[:200]})')
            _set_sim(case.get('sim'))     # put them back so that the remaining comparisons of this case are meaningful
            ok = False
        return ok
    # ---- the references FIRST: every request ALONE, each on a FRESH context (network designed anew from the documents, equipment
    # loaded anew), before this process has computed the batch — whatever the batch leaves behind cannot reach them
    alone = {}
    if not mal:
        for r in reqs:
            c1 = _build(case)
            s_net, s_eq = _snapshot(c1['net']), _eq_snapshot(c1['eq'])
            a, _ = _plan(c1, [r])
            alone[r['id']] = a[r['id']]
            if _snapshot(c1['net']) != s_net or _eq_snapshot(c1['eq']) != s_eq or _sim_snapshot() != sim0:
                res.fail(f'settings changed: network / equipment / simulation parameters differ after planning of request {r["id"]} alone')
                _set_sim(case.get('sim'))
    with _ClampSpy() as spy, _NliSpy() as nspy:
        try:
            full, order = _plan(ctx, reqs)
            impl_err = None
        except (ServiceError, EquipmentConfigError, ValueError) as e:
            impl_err = err_kind(e)
        model_err = drv.ask('c19.batch_check', trx_known=[r['type'] in ctx['eq']['Transceiver'] for r in reqs],
                            ids=[r['id'] for r in reqs],
                            endpoints_known=[bool(r.get('src_uid')) or (r['dst'] <= case['n'] + 1 and r['src'] <= case['n'] + 1)
                                             for r in reqs],
                            strict_unknown_include=[bool(r['include']) and r['strict'] and any(
                                x not in {n.uid for n in net.nodes()} for x in r['include']) for r in reqs])
        res.cmp_exact('planning.error_kind', impl_err, model_err)
        # monitor: rejected (network unchanged, checked next) vs accepted; the error KIND is correspondence
        if (impl_err is None) != (exp_err is None):
            res.fail(f'batch check: a batch with {mal or "valid"} requests was {"accepted" if impl_err is None else "rejected (" + impl_err + ")"}'
                     f', must be {"accepted" if exp_err is None else "rejected"}')
        unchanged('planning of the whole batch' + (f' (rejected: {impl_err})' if impl_err else ''))
        res.stats.update({'batches': 1, f'batch_{impl_err or "accepted"}': 1})
        if impl_err or exp_err:
            res.nontrivial = True
            return res
        clamped_full = spy.n
        # ---- every request alone once more AFTER the batch, on the batch's own context (state the batch left in the network /
        # library objects shows here)
        after = {}
        for r in reqs:
            a, _ = _plan(ctx, [r])
            after[r['id']] = a[r['id']]
            unchanged(f'planning of request {r["id"]} alone')
        # ---- permutations --------------------------------------------------------------------------------------------------------
        perms = []
        for p in case['perms']:
            pr, _ = _plan(ctx, [reqs[i] for i in p])
            perms.append((p, pr))
            unchanged(f'planning of the batch in order {p}')
    # ---- correspondence: the channels every GGN evaluation was made on = cutIndices of the (unchanged) parameters ---------------------
    if case.get('sim') and nspy.calls:
        sizes = sorted({n_ for n_, _ in nspy.calls})
        m = drv.ask('c16.cut_indices', method=case['sim']['method'], computed_channels=None,
                    computed_number_of_channels=case['sim']['ncomp'], nb_ch=sizes)
        model = dict(zip(sizes, m))
        bad = next(((n_, ix) for n_, ix in nspy.calls if model[n_] != ix), None)
        res.cmp_exact('NliSolver.compute_nli.cut_indices', None if bad is None else [bad[0], bad[1]],
                      None if bad is None else [bad[0], model[bad[0]]])
        res.stats['ggn_evaluations_checked'] += len(nspy.calls)
        res.stats['ggn_evaluations_on_combs_smaller_than_computed_number'] += sum(1 for n_, _ in nspy.calls if n_ < case['sim']['ncomp'])
    # ---- monitor: same route/mode/figures/verdict alone, in the batch and in every order ----------------------------------------------
    shared_amp = False
    routes = [set(full[r['id']][0].get('hops', [])) for r in reqs]
    for i in range(len(routes)):
        for k in range(i + 1, len(routes)):
            if any(('Edfa' in h or 'edfa' in h or h.startswith('amp ')) for h in routes[i] & routes[k]):
                shared_amp = True
    for r in reqs:
        rid = r['id']
        c_full, a_full, agg, _ = full[rid]
        c_alone, a_alone, _, _ = alone[rid]
        variants = [('alone on a freshly built network, before the batch', c_alone, a_alone, False),
                    ('alone after the batch', after[rid][0], after[rid][1], False)] + \
                   [(f'in order {p}', pr[rid][0], pr[rid][1], pr[rid][2]) for p, pr in perms]
        for name, c, a, agg2 in variants:
            ca, cb = c_full, c
            if agg or agg2:   # an aggregated response carries the summed bandwidth: compare without that metric
                ca = {**c_full, **{k: [m for m in c_full[k] if m[0] != 'path_bandwidth'] for k in ('path-metric', 'z-a-path-metric')
                                    if k in c_full}}
                cb = {**c, **{k: [m for m in c[k] if m[0] != 'path_bandwidth'] for k in ('path-metric', 'z-a-path-metric') if k in c}}
                if 'z-a-path-metric' in ca and 'z-a-path-metric' not in cb or 'z-a-path-metric' in cb and 'z-a-path-metric' not in ca:
                    ca = {k: v for k, v in ca.items() if k != 'z-a-path-metric'}     # aggregation keeps the absorbing request's bidir
                    cb = {k: v for k, v in cb.items() if k != 'z-a-path-metric'}
                    a = {k: v for k, v in a.items() if k != 'rev'}
                    a_f = {k: v for k, v in a_full.items() if k != 'rev'}
                else:
                    a_f = a_full
            else:
                a_f = a_full
            if not _tree_close(ca, cb):
                diff = next((k for k in ca if not _tree_close(ca.get(k), cb.get(k))), None) or next(iter(set(cb) - set(ca)), '?')
                res.fail(f'batch dependence: request {rid} ({r["kind"]}) reports a different {diff} in the batch than {name}: '
                         f'{str(ca.get(diff))[:160]} vs {str(cb.get(diff))[:160]}', request=rid)
            elif not _arr_close(a_f, a):
                res.fail(f'batch dependence: request {rid} ({r["kind"]}): per-channel GSNR/OSNR at the receiver differ between '
                         f'the batch and {name}', request=rid)
    # ---- process-wide state: under non-default SimParams one request (the full comb that follows the sparse one) is ALSO computed
    # alone in a FRESH PROCESS, where nothing can have been left behind by earlier computations of this process
    sampled = int(canon_hash(case['requests']), 16) % 7 == 0           # ~14 % of the ordinary and multiband batches as well
    pick = reqs[1] if case.get('sim') else reqs[-1]
    forced = next((r for r in reqs if r['id'] == case.get('fresh_pick')), None)      # low-power-first / grid twins: the later twin
    if forced is not None:
        pick = forced
    if (case.get('sim') or sampled or forced is not None) and len(reqs) >= 2 and not full[pick['id']][2]:
        rid = pick['id']
        fresh, err = _fresh_process_alone(case, rid)
        res.stats['fresh_process_alone_runs'] += 1
        if fresh is None:
            res.fail(f'batch dependence: request {rid} cannot be computed alone in a fresh process: {err}', request=rid)
        else:
            c_full, a_full = full[rid][0], full[rid][1]
            if not _tree_close(fresh['core'], c_full):
                diff = next((k for k in c_full if not _tree_close(c_full.get(k), fresh['core'].get(k))), '?')
                res.fail(f'batch dependence: request {rid} ({pick["kind"]}) reports a different {diff} in the batch than alone in '
                         f'a fresh process: {str(c_full.get(diff))[:160]} vs {str(fresh["core"].get(diff))[:160]}', request=rid)
            elif not _arr_close(a_full, fresh['arrays']):
                res.fail(f'batch dependence: request {rid} ({pick["kind"]}): per-channel GSNR/OSNR at the receiver differ between '
                         f'the batch and the request computed alone in a fresh process', request=rid)
    # ---- correspondence: the pipeline model reproduces the batch from the alone results ----------------------------------------------
    if not any(v[2] for v in full.values()):
        table = [{'key': r['id'], 'result': batch_g.canon(alone[r['id']][0])} for r in reqs]
        m = drv.ask('c16.plan', alone=table, batch=order)
        res.cmp_exact('planning.results', [batch_g.canon(full[i][0]) for i in order], m['results'])
        res.cmp_exact('planning.settings_unchanged', _snapshot(net) == snap0, m['settings_unchanged'])
        for p, pr in perms:
            ordp = [reqs[i]['id'] for i in p]
            mp = drv.ask('c16.plan', alone=table, batch=ordp)
            res.cmp_exact('planning.results(permuted)', [batch_g.canon(pr[i][0]) for i in ordp], mp['results'])
    res.nontrivial = len(reqs) >= 2 and shared_amp
    res.stats.update({'requests': len(reqs), 'plannings': 1 + 2 * len(reqs) + len(perms), 'clamped_amplifier_calls_in_batch': clamped_full,
                      'batches_with_clamped_amplifier': int(clamped_full > 0), 'batches_sharing_an_amplifier': int(shared_amp),
                      'aggregated_batches': int(any(v[2] for v in full.values())),
                      'multiband_batches': int(case['kind'] == 'multiband'),
                      'multiband_batches_with_clamped_band_amplifier': int(case['kind'] == 'multiband' and clamped_full > 0),
                      'non_default_simparams_batches': int(bool(case.get('sim'))),
                      f'nli_method_{(case.get("sim") or {}).get("method", "gn_model_analytic")}': 1})
    for r in reqs:
        res.stats[f'kind_{r["kind"]}'] += 1
        res.stats[f'verdict_{full[r["id"]][0]["verdict"]}'] += 1
    return res


def run_edfa(case, drv):
    from gnpy.core.elements import Edfa
    from gnpy.core.info import create_input_spectral_information
    from gnpy.core.utils import dbm2watt
    res = Result()
    doc = nets_g.library_doc(batch_g.library({'band': [191.35e12, 192e12], 'osnr': {k: 10 for k in ('m100', 'm200', 'm400', 'mhard', 'h1', 'h2')},
                                              'penalties': False, 'offset200': 0}),
                             si=({'power_dbm': case['p_design'], 'tx_power_dbm': case['p_design']} if case['p_design'] is not None else None))
    eq = nets_g.build_equipment(doc)
    net = nets_g.build_network(nets_g.line_topo([case['spans']], [case['spans']]), eq)
    amps = sorted([n for n in net.nodes() if isinstance(n, Edfa) and '(N0 -> N1)' in n.uid], key=lambda n: n.uid)
    amp = amps[case['amp'] % len(amps)]
    g0, pmax = float(amp.effective_gain), float(amp.params.p_max)     # the SET gain: what the design left on the amplifier
    shared = copy.deepcopy(amp)     # the object that is called again and again
    pins, gains, clamped, hot_then_cold = [], [], 0, 0
    prev_clamped = False
    for c in case['calls']:
        si = create_input_spectral_information(f_min=191.35e12, f_max=191.35e12 + (c['nch'] + 0.5) * 50e9, roll_off=0.15,
                                               baud_rate=32e9, spacing=50e9, tx_osnr=40, tx_power=float(dbm2watt(c['p_dbm'])))
        pin = 10 * math.log10(float(np.sum(si.pch)) * 1e3)
        exp = min(g0, pmax - pin)          # set gain, reduced only as far as p_max requires - whatever was computed before
        if c['on_copy']:
            before = shared.effective_gain
            cp = copy.deepcopy(shared)
            cp(copy.deepcopy(si))
            if shared.effective_gain != before:
                res.fail('copy: calling a deep copy of an amplifier changed the original amplifier\'s effective gain')
            if abs(cp.effective_gain - exp) > 1e-9:
                res.fail(f'history: a copy of the shared amplifier called with {pin:.3f} dBm total input has gain {cp.effective_gain}; '
                         f'min(set gain {g0}, p_max {pmax} - pin) = {exp}')
            continue
        fresh = copy.deepcopy(amp)          # never called before
        fresh(copy.deepcopy(si))
        shared(si)
        pins.append(pin)
        gains.append(float(shared.effective_gain))
        is_clamped = exp < g0 - 1e-12
        clamped += int(is_clamped)
        hot_then_cold += int(prev_clamped and not is_clamped)
        prev_clamped = is_clamped
        if abs(shared.effective_gain - exp) > 1e-9 or abs(shared.effective_gain - fresh.effective_gain) > 1e-9:
            res.fail(f'history: the shared amplifier called with {pin:.3f} dBm total input has gain {shared.effective_gain}; a fresh copy '
                     f'has {fresh.effective_gain}, min(set gain {g0}, p_max {pmax} - pin) = {exp}')
    if pins:
        m = drv.ask('c16.edfa_seq', eff_gain=f2b(g0), p_max=f2b(pmax), pin_db=fl(pins))
        res.cmp_floats('Edfa.interpol_params.effective_gain', gains, [b2f(x['eff_gain']) for x in m], abs_=1e-9)
    # settings unchanged: the SET gain of the called object (attribute _set_gain where the implementation keeps one)
    sg = getattr(shared, '_set_gain', None)
    if sg is not None and float(sg) != g0:
        res.fail(f'settings changed: the set gain of the amplifier is {sg} after the calls, it was {g0}')
    if float(amp.effective_gain) != g0:
        res.fail('copy: the network amplifier changed although only copies were called')
    res.stats['edfa_hot_then_cold_calls'] += hot_then_cold
    res.nontrivial = clamped > 0
    res.stats.update({'edfa_sequences': 1, 'edfa_calls': len(case['calls']), 'edfa_clamped_calls': clamped})
    return res


def shrink_candidates(case):
    if case['kind'] == 'edfa':
        if len(case['calls']) > 1:
            for i in range(len(case['calls'])):
                c = copy.deepcopy(case)
                del c['calls'][i]
                yield c
        return
    k = len(case['requests'])
    if k > 1:
        for i in range(k):
            c = copy.deepcopy(case)
            del c['requests'][i]
            c['perms'] = [list(reversed(range(k - 1)))]
            yield c
    if len(case['perms']) > 1:
        for i in range(len(case['perms'])):
            c = copy.deepcopy(case)
            c['perms'] = [case['perms'][i]]
            yield c
    for i, r in enumerate(case['requests']):
        if r['bidir']:
            c = copy.deepcopy(case)
            c['requests'][i]['bidir'] = False
            yield c
