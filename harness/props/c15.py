"""C15 — every designed network yields a consistent OMS partition and spectrum map.

Correspondence (class E): designed networks whose OMS differ in amplifier bands (C, L, C+L multiband, reduced band,
user models with explicit band edges, mixed amplifiers inside one OMS, OMS without amplifier) -> `build_oms_list`:
el_id_list, n_min, n_max, freq_index_min/max, freq_index, bitmap, reversed pairing vs `Gnpy.Slots.buildOmsList`;
random sets of maps of different extents -> `align_grids`; `find_common_range`, `create_oms_bitmap`, `Bitmap.__init__`,
`insert_left/right`, the index conversions on random values.
Monitor: partition of the line elements, ROADM to ROADM, reverse pairing, one contiguous index range for all maps,
usable <=> inside the band(s) common to the amplifiers (set semantics, computed from the amplifiers' f_min/f_max with
exact integers), alignment keeps every index unique and every old cell at its index.
"""
import copy
from fractions import Fraction

from common.util import Result, err_kind
from common import nets

ID = 'C15'
N = {'quick': 800, 'thorough': 16000}
LEAN_MODULES = ['GnpyProofs.Props.C15']
THEOREMS = [f'Gnpy.Slots.{t}' for t in (
    'slots_roundtrip', 'frequency_roundtrip', 'bitmap_length', 'usable_iff_in_common_band', 'inBands_iff_frequency',
    'align_index_unique', 'align_preserves_occupancy', 'oms_partition', 'reversed_endpoints', 'reversed_involution',
    'bitmap_length_fails_old', 'insert_right_dup_old', 'createOmsBitmap_spec', 'bandCells_spec', 'insertLeft_spec',
    'insertRight_spec', 'alignOne_spec', 'alignGrids_spec', 'nodup_intRange', 'common_band_is_intersection',
    'commonRange_no_amp', 'walk_terminates', 'oms_partition_graph', 'reversed_pairs_walk', 'walk_ok', 'buildWalks_ok',
    'omsVertices_ok', 'OmsPath.same_start', 'line_on_some_route', 'OmsPath.functional', 'OmsPath.shape', 'OmsPath.linked',
    'nodup_omsStarts')]
PARTIAL = []
MANIFEST = {
    'text': '21 Lean 4 theorems over the executable model: bitmap_length and usable_iff_in_common_band for EVERY band layout '
            'inside the network range (+ inBands_iff_frequency: index view = centre-frequency view for every band edge, '
            'common_band_is_intersection), align_index_unique and align_preserves_occupancy for every set of maps, '
            'oms_partition_graph (walk terminates, one OMS per line element, ROADM to ROADM, ids, back references) on every '
            'well-formed graph, oms_partition/same index range for the maps, reversed_endpoints/reversed_involution, '
            'slots_roundtrip; the negations for the code before ec64bb7b / 5edacf9c are decided on faithful old models '
            '(bitmap_length_fails_old, insert_right_dup_old).',
    'note': 'No partial statement: the DiGraph walk of build_oms_list is modelled (buildWalks on the exported node kinds + '
            'successor lists in networkx order) and oms_partition_graph proves termination within the fuel, ROADM-to-ROADM '
            'routes, ids in construction order, "each line element in exactly one OMS" and the oms_id back reference for '
            'every well-formed network; the el_id_lists, oms_id and oms_list attributes of the REAL build_oms_list are '
            'compared exactly with that walk. Thorough tier adds the complete enumeration of all 1- and 2-band layouts on a '
            '12-slot line (on- and off-grid edges) and of all pairs of map extents in n = -3..3 through align_grids.'}
RULE = ('one PRNG; (a) 40 %: generated networks of 2-4 (thorough: up to 6) ROADMs, line or ring, every OMS with its own '
        'amplifier profile from the multiband library (C, C medium, L, reduced C band, three C+L multiband models), user '
        'amplifier models with explicit band edges (12 % of them off the 6.25 GHz grid), mixed models inside one OMS, '
        'Fused elements, one direction missing (8 %), designed by designed_network, then build_oms_list; (b) 25 %: 0-6 '
        'random maps of different extents/guard bands/contents through align_grids; (c) 35 %: find_common_range, '
        'create_oms_bitmap (incl. touching bands, bands outside the range, no band), Bitmap.__init__ on four grids (incl. '
        'wrong length), insert_left/right, index conversions. Corpus: the shipped multiband example and the shipped mesh '
        'example through the same path, the F3 witness. A network case is non-trivial when its OMS have >= 2 different '
        'amplifier band layouts; an alignment case when the maps have >= 2 different extents; unit cases always')
MODEL_SCOPE = ('modelled (GnpyModel/Slots.lean): frequency_to_n, nvalue_to_frequency, mvalue_to_slots, slots_to_m, m_to_freq, '
               'Bitmap.__init__/insert_left/insert_right, align_grids, find_common_range (f_min/f_max only; spacing plays '
               'no role for the map), create_oms_bitmap, find_network_freq_range, reversed_oms, build_oms_list on the '
               'chain abstraction (list of uids between two ROADMs + the bands of its amplifiers), and the graph walk of '
               'build_oms_list (oms_vertices, the while loop with next(... if uid != nd_in.uid), oms_id numbering, '
               'el_id_list, element.oms_id and node.oms_list) on the DiGraph exported by the harness as node kinds + '
               'successor lists in networkx order; the line systems handed to the map model are the MODEL\'s walk. Integer '
               'Hz. Not modelled: network design (networks whose design fails are counted and skipped). Monitor: a slot is usable '
               'iff its centre frequency 193.1 THz + n*6.25 GHz lies in a band of every amplifier of the OMS (SI band when '
               'the OMS has no amplifier), evaluated with exact integers from the amplifiers\' own f_min/f_max. Every generated OMS has a non-empty common '
               'band (an OMS whose amplifiers share no band can not carry a channel; build_oms_list raises IndexError there: '
               'reported, out of scope).')

GRID = 6250000000
ANCHOR = 193100000000000
GB = 25000000000
EQPT = 'eqpt_config_multiband.json'
CH = {'FREE': '1', 'OCCUPIED': '0', 'UNUSABLE': 'u'}

# amplifier profiles of the multiband library: name -> (element type, type_variety, [sub varieties])
PROFILES = {
    'C': ('Edfa', 'std_low_gain', None),
    'Cm': ('Edfa', 'std_medium_gain', None),
    'L': ('Edfa', 'std_low_gain_L', None),
    'R': ('Edfa', 'std_low_gain_reduced_band', None),
    'CL': ('Multiband_amplifier', 'std_low_gain_multiband', ['std_low_gain', 'std_low_gain_L']),
    'CLm': ('Multiband_amplifier', 'std_medium_gain_multiband', ['std_medium_gain_C', 'std_medium_gain_L']),
    'CLr': ('Multiband_amplifier', 'std_low_gain_multiband_reduced_bis', ['std_low_gain_bis', 'std_low_gain_L_reduced_band']),
}


def tdiv(a, b):
    q = abs(a) // abs(b)
    return q if (a >= 0) == (b >= 0) else -q


def n_of(f, grid=GRID):
    return tdiv(f - ANCHOR, grid)


# ---------------------------------------------------------------------------------------------------------------------
# generators
# ---------------------------------------------------------------------------------------------------------------------

def gen(rng, tier, widen=False):
    k = rng.random()
    if k < 0.4:
        return gen_net(rng, tier, widen)
    if k < 0.65:
        return gen_align(rng, tier, widen)
    return gen_unit(rng, tier, widen)


def gen_edge(rng, lo_thz, hi_thz, offgrid):
    f = ANCHOR + rng.randrange(int((lo_thz * 10 ** 12 - ANCHOR) // GRID), int((hi_thz * 10 ** 12 - ANCHOR) // GRID)) * GRID
    if offgrid:
        f += rng.choice([1, 2, 3, 4, 5]) * 10 ** 9
    return f


def gen_net(rng, tier, widen):
    nroadm = rng.choice([2, 2, 3, 3, 4]) if tier == 'quick' else rng.choice([2, 3, 4, 5, 6])
    ring = nroadm > 2 and rng.random() < 0.6
    links = [(i, i + 1) for i in range(nroadm - 1)] + ([(nroadm - 1, 0)] if ring else [])
    custom = []
    for i in range(rng.choice([0, 0, 1, 2])):
        off = rng.random() < 0.12
        if rng.random() < 0.7:
            lo = gen_edge(rng, 191.2, 193.6, off)
            hi = gen_edge(rng, 194.0, 196.2, off and rng.random() < 0.5)
        else:
            lo = gen_edge(rng, 186.3, 187.8, off)
            hi = gen_edge(rng, 188.5, 190.2, off and rng.random() < 0.5)
        custom.append([f'nar{i}', lo, hi])
    single = ['C', 'Cm', 'L', 'R'] + [c[0] for c in custom]
    multi = ['CL', 'CLm', 'CLr']
    names = single + multi
    base = rng.choice(['C', 'C', 'CL', 'Cm', 'L', rng.choice(names)])
    lines = []
    for (a, b) in links:
        for (s, t) in ((a, b), (b, a)):
            spans = rng.choice([1, 1, 2, 3])
            r = rng.random()
            # amplifiers of the OMS: booster + one per span; design refuses single-band and multiband models in one OMS
            if r < 0.45:
                prof = [base] * (spans + 1)
            elif r < 0.8:
                prof = [rng.choice(names)] * (spans + 1)
            else:
                pool = single if rng.random() < 0.6 else multi
                if pool is single:      # keep a non-empty common band: C-like or L-like models only
                    lband = rng.random() < 0.25
                    pool = [x for x in ('C', 'Cm', 'L', 'R') if (x == 'L') == lband] + \
                           [c[0] for c in custom if (c[2] < ANCHOR - 2 * 10 ** 12) == lband]
                prof = [rng.choice(pool) for _ in range(spans + 1)]      # mixed amplifier models inside one OMS
            lines.append({'from': s, 'to': t, 'amps': prof, 'fused': rng.random() < 0.15})
    # auto-design: design bands on the ROADMs (C or C+L, the same everywhere or mixed) and lines without any amplifier
    # in the topology: booster, in-line and pre-amplifiers (Edfa or Multiband_amplifier) are inserted AND selected by
    # the design itself
    design = None
    r = rng.random()
    if r < 0.45:
        d = rng.random()
        design = ['C'] * nroadm if d < 0.35 else ['CL'] * nroadm if d < 0.7 else [rng.choice(['C', 'CL']) for _ in range(nroadm)]
        share = rng.choice([0.4, 0.7, 1.0])
        for ln in lines:
            if rng.random() < share:
                ln['spans'] = len(ln['amps']) - 1
                ln['km'] = rng.choice([40.0, 50.0, 75.0, 90.0])
                ln['amps'] = None
    r = rng.random()
    odd = 'dangling_trx' if r < 0.03 else ('line_to_trx' if r < 0.07 else None)
    if design is not None:
        odd = None
    return {'kind': 'net', 'nroadm': nroadm, 'lines': lines, 'custom': custom, 'design': design,
            'unidir_drop': rng.random() < 0.08, 'graph_odd': odd}


def gen_cells(rng, length):
    cells = []
    while len(cells) < length:
        cells += [rng.choice('11100u')] * rng.randint(1, 9)
    return ''.join(cells[:length])


def gen_bitmap(rng, grid=GRID, span=None):
    n_min = rng.randrange(-320, 300)
    length = span or rng.choice([1, 2, 5, 12, 24, 40, 64])
    f_min = ANCHOR + n_min * grid
    f_max = ANCHOR + (n_min + length) * grid
    if rng.random() < 0.1:
        f_min += rng.choice([1, 2, 3]) * 10 ** 9
    return {'f_min': f_min, 'f_max': f_max, 'guardband': rng.choice([GB, GB, 0, 12500000000, 50 * 10 ** 9]), 'grid': grid,
            'cells': None if rng.random() < 0.2 else gen_cells(rng, n_of(f_max, grid) - n_of(f_min, grid) + 1)}


def gen_align(rng, tier, widen):
    k = rng.choice([1, 2, 2, 3, 4, 6])
    bms = [gen_bitmap(rng) for _ in range(k)]
    if rng.random() < 0.3:          # close extents: exercises 0- and 1-cell insertions
        b0 = bms[0]
        for b in bms[1:]:
            b['f_min'] = b0['f_min'] + rng.choice([-1, 0, 0, 1, 2]) * GRID
            b['f_max'] = b0['f_max'] + rng.choice([-2, -1, 0, 0, 1]) * GRID
            if b['f_max'] < b['f_min']:
                b['f_max'] = b['f_min']
            b['cells'] = gen_cells(rng, n_of(b['f_max']) - n_of(b['f_min']) + 1)
    if rng.random() < 0.05:
        bms = []
    return {'kind': 'align', 'bitmaps': bms}


def gen_bands(rng, k, offgrid=False):
    """k disjoint bands, ascending"""
    edges = sorted(rng.sample(range(-1100, 500), 2 * k))
    out = []
    for i in range(k):
        lo, hi = ANCHOR + edges[2 * i] * GRID, ANCHOR + edges[2 * i + 1] * GRID
        if offgrid:
            lo += rng.choice([0, 1, 2, 3]) * 10 ** 9
            hi -= rng.choice([0, 1, 2]) * 10 ** 9
        out.append([lo, hi])
    return out


def gen_unit(rng, tier, widen):
    op = rng.choice(['common', 'common', 'bitmap', 'bitmap', 'create', 'insert', 'conv'])
    c = {'kind': 'unit', 'op': op}
    if op == 'common':
        namps = rng.choice([0, 1, 2, 2, 3, 4])
        amps = []
        base = gen_bands(rng, rng.choice([1, 2, 2, 3]))
        for _ in range(namps):
            r = rng.random()
            if r < 0.3:
                a = [list(b) for b in base]
            elif r < 0.7:       # shrink / shift the base bands
                a = [[b[0] + rng.choice([0, 0, 1, 4, 40, -8]) * GRID, b[1] + rng.choice([0, 0, -1, -4, -40, 8]) * GRID] for b in base
                     if rng.random() < 0.85]
                a = [b for b in a if b[0] < b[1]] or [list(base[0])]
            else:
                a = gen_bands(rng, rng.choice([1, 2]))
            rng.shuffle(a)
            amps.append(a)
        c['amp_bands'] = amps
        c['si'] = rng.choice([None, [191300000000000, 195100000000000], [191300000000000, 196100000000000]])
    elif op == 'bitmap':
        off = rng.random() < 0.15
        bands = gen_bands(rng, rng.choice([1, 1, 2, 3]), off)
        r = rng.random()
        f_min = bands[0][0] - rng.choice([0, 0, 1, 7, 40]) * GRID
        f_max = bands[-1][1] + rng.choice([0, 0, 1, 9, 80]) * GRID
        if r < 0.08:            # band outside the stated range, touching bands
            f_max = bands[-1][1] - 3 * GRID
        elif r < 0.14 and len(bands) > 1:
            bands[1][0] = bands[0][1]
        elif r < 0.17:
            bands = []
        c.update({'bands': bands, 'f_min': f_min, 'f_max': f_max, 'grid': GRID if rng.random() < 0.85 else 2 * GRID})
    elif op == 'create':
        grid = rng.choice([GRID, GRID, 2 * GRID, 8 * GRID, GRID // 2])
        b = gen_bitmap(rng, grid)
        if rng.random() < 0.2 and b['cells'] is not None:
            b['cells'] = b['cells'][:-1] if rng.random() < 0.5 else b['cells'] + '1'
        c['bitmap'] = b
    elif op == 'insert':
        c['bitmap'] = gen_bitmap(rng)
        c['side'] = rng.choice(['left', 'right'])
        c['new'] = gen_cells(rng, rng.choice([0, 1, 1, 2, 5, 17]))
        c['twice'] = rng.random() < 0.4
    else:
        grid = rng.choice([GRID, GRID, 2 * GRID, 100 * 10 ** 9])
        c.update({'f': ANCHOR + rng.randrange(-1200, 700) * GRID + rng.choice([0, 0, 0, 10 ** 9, 3 * 10 ** 9, -2 * 10 ** 9]),
                  'grid': grid, 'n': rng.randrange(-1200, 700), 'm': rng.randrange(1, 60)})
        a = rng.randrange(-1200, 700)
        c['a'] = a
        c['b'] = a + 2 * rng.randrange(1, 60) - 1 if rng.random() < 0.8 else a + rng.randrange(0, 60)
    return c


# ---------------------------------------------------------------------------------------------------------------------
# implementation side
# ---------------------------------------------------------------------------------------------------------------------

_eq_cache = {}


def equipment(custom):
    """the multiband library plus user amplifier models with explicit band edges"""
    from gnpy.tools.json_io import _equipment_from_json, DEFAULT_EXTRA_CONFIG
    key = repr(custom)
    if key not in _eq_cache:
        if len(_eq_cache) > 40:
            _eq_cache.clear()
        doc = nets.eqpt_json(EQPT)
        proto = next(a for a in doc['Edfa'] if a['type_variety'] == 'std_low_gain')
        for name, lo, hi in custom:
            a = copy.deepcopy(proto)
            a.update({'type_variety': name, 'f_min': float(lo), 'f_max': float(hi)})
            doc['Edfa'].append(a)
        _eq_cache[key] = _equipment_from_json(doc, DEFAULT_EXTRA_CONFIG)
    return copy.deepcopy(_eq_cache[key])


def amp_element(uid, prof):
    op = {"gain_target": 18, "delta_p": 0, "out_voa": 0, "tilt_target": 0}
    if prof in PROFILES:
        typ, tv, subs = PROFILES[prof]
    else:
        typ, tv, subs = 'Edfa', prof, None
    if typ == 'Edfa':
        return nets.edfa(uid, tv, op)
    return {"uid": uid, "type": "Multiband_amplifier", "type_variety": tv,
            "amplifiers": [{"type_variety": s, "operational": dict(op)} for s in subs], "metadata": nets.loc()}


DESIGN_BANDS = {'C': [{"f_min": 191.3e12, "f_max": 196.0e12, "spacing": 50e9}],
                'CL': [{"f_min": 191.3e12, "f_max": 196.0e12, "spacing": 50e9},
                       {"f_min": 187.0e12, "f_max": 190.0e12, "spacing": 50e9}]}


def net_topology(case):
    els, cxs = [], []
    design = case.get('design')
    for i in range(case['nroadm']):
        params = {'design_bands': copy.deepcopy(DESIGN_BANDS[design[i]])} if design else None
        els += [nets.trx(f'T{i}'), nets.roadm(f'R{i}', params)]
        cxs += [nets.cx(f'T{i}', f'R{i}'), nets.cx(f'R{i}', f'T{i}')]
    for k, ln in enumerate(case['lines']):
        if case.get('unidir_drop') and k == len(case['lines']) - 1 and len(case['lines']) > 2:
            continue        # one direction missing: that OMS has no reverse partner
        tag = f'{k} R{ln["from"]}-R{ln["to"]}'
        if ln['amps'] is None:      # fibres only: every amplifier of this OMS comes from the auto-design
            line = []
            for j in range(ln['spans'] or 1):
                line.append(nets.fiber(f'f{tag} {j}', ln.get('km', 50.0)))
                if ln['fused'] and j == 0 and (ln['spans'] or 1) > 1:
                    line.append(nets.fused(f'fu{tag} {j}', 1.0))
            nets.chain(els, cxs, f'R{ln["from"]}', f'R{ln["to"]}', line)
            continue
        line = [amp_element(f'booster {tag}', ln['amps'][0])]
        for j, p in enumerate(ln['amps'][1:]):
            line.append(nets.fiber(f'f{tag} {j}', 50.0))
            if ln['fused'] and j == 0:
                line.append(nets.fused(f'fu{tag} {j}', 1.0))
            line.append(amp_element(f'a{tag} {j}', p))
        nets.chain(els, cxs, f'R{ln["from"]}', f'R{ln["to"]}', line)
    odd = case.get('graph_odd')
    if odd == 'dangling_trx':       # a transceiver that is fed by a ROADM but has no egress edge
        els.append(nets.trx('TX'))
        cxs.append(nets.cx('R0', 'TX'))
    elif odd == 'line_to_trx':      # a line element that ends at a transceiver instead of a ROADM
        els += [nets.trx('TX'), nets.fiber('fX', 20.0)]
        cxs += [nets.cx('TX', 'R0'), nets.cx('R0', 'fX'), nets.cx('fX', 'TX')]
    return {'elements': els, 'connections': cxs}


def cells_str(bitmap):
    return ''.join(CH[c.name] for c in bitmap)


def snap_bitmap(b):
    return {'n_min': b.n_min, 'n_max': b.n_max, 'idx_min': b.freq_index_min, 'idx_max': b.freq_index_max,
            'freq_index': list(b.freq_index), 'cells': cells_str(b.bitmap), 'guardband': int(b.guardband)}


def mk_oms(i, b):
    from gnpy.topology.spectrum_assignment import OMS, BitmapValue
    val = {'1': BitmapValue.FREE, '0': BitmapValue.OCCUPIED, 'u': BitmapValue.UNUSABLE}
    o = OMS(oms_id=i, el_id_list=[], el_list=[])
    o.update_spectrum(f_min=float(b['f_min']), f_max=float(b['f_max']), guardband=float(b['guardband']), grid=float(b['grid']),
                      existing_spectrum=None if b['cells'] is None else [val[c] for c in b['cells']])
    return o


def bands_of(el):
    return [[int(b['f_min']), int(b['f_max'])] for b in el.params.bands]


def export_graph(net):
    """the DiGraph as build_oms_list sees it: nodes in network.nodes() order, kind of each node, successors in
    network.edges([node]) order (numbers = positions in the node list)"""
    from gnpy.core.elements import Roadm, Transceiver
    nodes = list(net.nodes())
    num = {id(n): i for i, n in enumerate(nodes)}
    kind = ['R' if isinstance(n, Roadm) else ('T' if isinstance(n, Transceiver) else 'L') for n in nodes]
    succ = [[num[id(y)] for _, y in net.edges([n])] for n in nodes]
    return nodes, kind, succ


def graph_wellformed(kind, succ):
    """the hypothesis Net.WF of the walk theorems, evaluated on the exported graph (own code): every line element has
    exactly one successor (not a transceiver) and exactly one predecessor, no ring of line elements, no line element
    bounces back to its predecessor, every transceiver has a successor, a transceiver feeding a line element is not
    ROADM-first; returns None when well formed, else the reason"""
    n = len(kind)
    pred = [[] for _ in range(n)]
    for a, ss in enumerate(succ):
        if len(set(ss)) != len(ss):
            return f'parallel edges at node {a}'
        for x in ss:
            pred[x].append(a)
    for i in range(n):
        if kind[i] == 'L':
            if len(succ[i]) != 1 or kind[succ[i][0]] == 'T':
                return f'line element {i} has successors {succ[i]}'
            if len(pred[i]) != 1:
                return f'line element {i} has predecessors {pred[i]}'
            if succ[i][0] == pred[i][0]:
                return f'line element {i} bounces back'
        if kind[i] == 'T':
            if not succ[i]:
                return f'transceiver {i} has no successor'
            if any(kind[x] == 'L' for x in succ[i]) and kind[succ[i][0]] == 'R':
                return f'transceiver {i} feeds a line element but is ROADM first'
    for i in range(n):           # no ring of line elements: going backwards ends at a non-line node
        seen, cur = set(), i
        while kind[cur] == 'L':
            if cur in seen:
                return f'ring of line elements through {i}'
            seen.add(cur)
            cur = pred[cur][0]
    return None


# ---------------------------------------------------------------------------------------------------------------------
# run
# ---------------------------------------------------------------------------------------------------------------------

def run(case, drv):
    return {'net': run_net, 'file': run_net, 'align': run_align, 'unit': run_unit}[case['kind']](case, drv)


_lib_cache = {}


def library_bands(eqpt_name, custom=()):
    """amplifier bands as the equipment library DOCUMENT states them (not the loaded objects):
    variety -> [[f_min, f_max], ...] (one band for an Edfa model, one per sub-amplifier for a multiband model)"""
    key = (eqpt_name, repr(custom))
    if key not in _lib_cache:
        doc = nets.eqpt_json(eqpt_name)
        single, multi = {}, {}
        for a in doc['Edfa']:
            if a.get('type_def') == 'multi_band':
                multi[a['type_variety']] = list(a['amplifiers'])
            else:       # library default band when the entry states none (core/parameters.py DEFAULT_EDFA_CONFIG)
                single[a['type_variety']] = [int(a.get('f_min', 191.275e12)), int(a.get('f_max', 196.125e12))]
        for name, lo, hi in custom:
            single[name] = [int(lo), int(hi)]
        table = {v: [b] for v, b in single.items()}
        for v, subs in multi.items():
            table[v] = [single[x] for x in subs]
        _lib_cache[key] = (table, single)
    return _lib_cache[key]


def expected_amp_bands(el, table, single, case_profile):
    """bands of one amplifier element for the monitor: from the case (explicit amplifiers) or, for an amplifier inserted
    by the design, from the NAME of the model the design selected, looked up in the library document"""
    from gnpy.core.elements import Multiband_amplifier
    prof = case_profile.get(el.uid)
    if prof is not None:
        if prof in PROFILES:
            typ, tv, subs = PROFILES[prof]
            return [list(single[x]) for x in subs] if subs else [list(single[tv])]
        return [list(single[prof])]
    if isinstance(el, Multiband_amplifier):
        return [list(single[a.params.type_variety]) for a in el.amplifiers.values()]
    return [list(b) for b in table[el.params.type_variety]]


def usable_expected(k, amps, si):
    """slot index k (centre frequency 193.1 THz + k * 6.25 GHz) lies in a band of every amplifier of the OMS"""
    f = ANCHOR + k * GRID
    if not amps:
        return si is not None and si[0] <= f <= si[1]
    return all(any(lo <= f <= hi for lo, hi in a) for a in amps)


def run_net(case, drv):
    from gnpy.tools.json_io import network_from_json, load_network
    from gnpy.tools.worker_utils import designed_network
    from gnpy.core.elements import Roadm, Transceiver, Edfa, Multiband_amplifier
    from gnpy.topology.spectrum_assignment import build_oms_list
    res = Result()
    if case['kind'] == 'file':
        eq = nets.eqpt(case['eqpt'])
        net = load_network(nets.EX / case['network'], eq)
        res.stats['file_network'] += 1
    else:
        eq = equipment(case['custom'])
        net = network_from_json(net_topology(case), eq)
        res.stats['generated_network'] += 1
    malformed = case.get('graph_odd') is not None
    if malformed:               # not a designed network: only the walk is compared (error kinds / odd routes)
        res.stats[f'malformed_graph_{case["graph_odd"]}'] += 1
    else:
        try:
            net, _, _ = designed_network(eq, net)
        except Exception as e:
            res.stats[f'design_failed_{err_kind(e)}'] += 1
            if case['kind'] == 'net':
                # the generated networks are designable by construction (explicit amplifiers with a common band per
                # OMS, design bands that the library can serve): a failing design means no OMS list for a network the
                # property quantifies over
                res.fail(f'designed network cannot be built: designed_network raises {err_kind(e)}: {str(e)[:120]}',
                         cls='unlisted')
            return res
    eq_name = case['eqpt'] if case['kind'] == 'file' else EQPT
    table, single = library_bands(eq_name, tuple(tuple(c) for c in case.get('custom', ())))
    si_doc = nets.eqpt_json(eq_name)['SI'][0]
    si_band = [int(si_doc['f_min']), int(si_doc['f_max'])]
    case_profile = {}
    for k, ln in enumerate(case.get('lines', [])):
        if ln.get('amps'):
            tag = f'{k} R{ln["from"]}-R{ln["to"]}'
            case_profile[f'booster {tag}'] = ln['amps'][0]
            for j, p in enumerate(ln['amps'][1:]):
                case_profile[f'a{tag} {j}'] = p
    nodes, kind, succ = export_graph(net)
    wf = graph_wellformed(kind, succ)
    res.stats['graph_wellformed'] += int(wf is None)
    walk = drv.ask('c15.walk', kind=kind, succ=succ)
    net_bands = [b for n in net.nodes() if isinstance(n, (Edfa, Multiband_amplifier)) for b in bands_of(n)]
    try:
        oms_list = build_oms_list(net, eq)
        err = None
    except Exception as e:
        err = err_kind(e)
    if 'error' in walk:
        # the model's walk fails (malformed graph): the implementation must fail the same way
        res.cmp_exact('build_oms_list.walk_error', err, walk['error'])
        res.stats[f'walk_error_{walk["error"]}'] += 1
        if wf is None:
            res.fail(f'OMS list can not be built: the walk fails with {walk["error"]} on a well-formed graph', cls='unlisted')
        return res
    # the line systems are the MODEL's walk over the exported graph (not a walk of the harness)
    chains = [{'els': [nodes[i].uid for i in els],
               'amp_bands': [bands_of(nodes[i]) for i in els if isinstance(nodes[i], (Edfa, Multiband_amplifier))]}
              for els in walk['ok']['oms']]
    ans = drv.ask('c15.build', chains=chains, net_bands=net_bands, si=si_band)
    if err is not None:
        res.cmp_exact('build_oms_list.error', err, ans.get('error'))
        res.stats[f'build_error_{err}'] += 1
        if not malformed:
            res.fail(f'OMS list can not be built: build_oms_list raises {err} on a designed network', cls='unlisted')
        return res
    impl = [{'id': o.oms_id, 'els': list(o.el_id_list), 'bm': snap_bitmap(o.spectrum_bitmap),
             'reversed': None if o.reversed_oms is None else o.reversed_oms.oms_id} for o in oms_list]
    res.cmp_exact('build_oms_list', impl, ans.get('ok'))
    res.cmp_exact('build_oms_list.el_id_lists', [list(o.el_id_list) for o in oms_list],
                  [[nodes[i].uid for i in els] for els in walk['ok']['oms']])
    res.cmp_exact('build_oms_list.oms_id back references', [getattr(n, 'oms_id', None) for n in nodes], walk['ok']['oms_id'])
    res.cmp_exact('build_oms_list.oms_list of the nodes', [list(getattr(n, 'oms_list', [])) for n in nodes],
                  walk['ok']['oms_list'])
    res.cmp_exact('reversed_oms', [None if o.reversed_oms is None else o.reversed_oms.oms_id for o in oms_list],
                  walk['ok']['reversed'])
    if wf is not None:
        res.stats['graph_not_wellformed_but_built'] += 1
    if malformed:
        res.stats['malformed_graph_built'] += 1
        return res
    # ---- monitor -------------------------------------------------------------------------------------------------
    line = [n for n in net.nodes() if not isinstance(n, (Roadm, Transceiver))]
    count = {n.uid: 0 for n in line}
    for o in oms_list:
        if not isinstance(o.el_list[0], (Roadm, Transceiver)) or not isinstance(o.el_list[-1], Roadm):
            res.fail(f'OMS does not run from ROADM to ROADM: OMS {o.oms_id} {o.el_id_list[0]} .. {o.el_id_list[-1]}')
        for a, b in zip(o.el_list, o.el_list[1:]):
            if not net.has_edge(a, b):
                res.fail(f'OMS is not a route of the network: OMS {o.oms_id} {a.uid} -> {b.uid} is not connected')
        if [e.uid for e in o.el_list] != list(o.el_id_list):
            res.mismatch('el_id_list vs el_list', list(o.el_id_list), [e.uid for e in o.el_list])
        for e in o.el_list[1:-1]:
            if isinstance(e, Roadm):
                res.fail(f'OMS crosses a ROADM: OMS {o.oms_id} contains {e.uid}')
            elif e.uid in count:
                count[e.uid] += 1
                if getattr(e, 'oms_id', None) != o.oms_id or getattr(e, 'oms', None) is not o:
                    res.mismatch('element/OMS back reference', [e.uid, getattr(e, 'oms_id', None)], o.oms_id)
    bad = {u: c for u, c in count.items() if c != 1}
    if bad:
        res.fail(f'partition: line elements not in exactly one OMS: {dict(list(bad.items())[:4])}')
    ends = [(o.el_id_list[0], o.el_id_list[-1]) for o in oms_list]
    for o in oms_list:
        a, b = o.el_id_list[0], o.el_id_list[-1]
        partners = [p for p in oms_list if (p.el_id_list[0], p.el_id_list[-1]) == (b, a)]
        r = o.reversed_oms
        if partners and (r is None or (r.el_id_list[0], r.el_id_list[-1]) != (b, a)):
            res.fail(f'opposite directions not paired: OMS {o.oms_id} {a} -> {b} has reverse '
                     f'{None if r is None else r.oms_id} although OMS {partners[0].oms_id} runs {b} -> {a}')
        if not partners and r is not None:
            res.fail(f'opposite directions not paired: OMS {o.oms_id} is paired with {r.oms_id} which is not its reverse')
        if r is not None and ends.count((a, b)) == 1 and ends.count((b, a)) == 1 and r.reversed_oms is not o:
            res.fail(f'reverse pairing is not symmetric: OMS {o.oms_id} <-> {r.oms_id}')
    b0 = oms_list[0].spectrum_bitmap
    all_amp_bands = [bd for n in net.nodes() if isinstance(n, (Edfa, Multiband_amplifier))
                     for bd in expected_amp_bands(n, table, single, case_profile)]
    f_lo = min(b[0] for b in all_amp_bands) if all_amp_bands else None
    f_hi = max(b[1] for b in all_amp_bands) if all_amp_bands else None
    offgrid = False
    for o in oms_list:
        b = o.spectrum_bitmap
        if (b.n_min, b.n_max) != (b0.n_min, b0.n_max) or list(b.freq_index) != list(range(b.n_min, b.n_max + 1)) \
                or len(b.bitmap) != len(b.freq_index):
            res.fail(f'maps do not cover one contiguous slot range: OMS {o.oms_id} [{b.n_min},{b.n_max}] '
                     f'{len(b.freq_index)} indices {len(b.bitmap)} cells, OMS 0 [{b0.n_min},{b0.n_max}]')
            continue
        # the common range must CONTAIN every slot whose centre lies in an amplifier band of the network (its exact
        # extent is under correspondence only)
        if f_lo is not None and (b.n_min > -((ANCHOR - f_lo) // GRID) or b.n_max < (f_hi - ANCHOR) // GRID):
            res.fail(f'slot range does not contain the amplifier range of the network: [{b.n_min},{b.n_max}] vs '
                     f'{f_lo} .. {f_hi} Hz')
        amps = [expected_amp_bands(e, table, single, case_profile) for e in o.el_list
                if isinstance(e, (Edfa, Multiband_amplifier))]
        edges = [x for a in amps for bd in a for x in bd] or si_band
        og = any((x - ANCHOR) % GRID for x in edges)
        offgrid = offgrid or og
        cells = cells_str(b.bitmap)
        wrong = [k for k, c in zip(b.freq_index, cells) if (c == '1') != usable_expected(k, amps, si_band) or c == '0']
        if wrong:
            res.fail(f'usable slots differ from the common band: OMS {o.oms_id} ({len(amps)} amplifiers) index '
                     f'{wrong[0]} is {"usable" if cells[wrong[0] - b.n_min] == "1" else "not usable"} '
                     f'({len(wrong)} slots differ)', cls='unlisted')
        res.stats['oms_usable_runs_%d' % min(3, len([1 for i, c in enumerate(cells) if c == '1' and (i == 0 or cells[i - 1] != '1')]))] += 1
        res.stats['oms_without_amplifier'] += int(not amps)
    res.stats['oms'] += len(oms_list)
    res.stats['offgrid_band_edges'] += int(offgrid)
    res.stats['oms_without_reverse'] += sum(1 for o in oms_list if o.reversed_oms is None)
    kinds = {tuple(sorted({tuple(bd) for e in o.el_list if isinstance(e, (Edfa, Multiband_amplifier)) for bd in bands_of(e)}))
             for o in oms_list}
    res.stats['auto_designed_oms'] += sum(1 for o in oms_list if any(
        isinstance(e, (Edfa, Multiband_amplifier)) and e.uid not in case_profile for e in o.el_list)) if case['kind'] == 'net' else 0
    res.stats['multiband_auto_selected'] += sum(1 for n in net.nodes() if isinstance(n, Multiband_amplifier)
                                                and n.uid not in case_profile) if case['kind'] == 'net' else 0
    res.stats['distinct_band_layouts_%d' % min(4, len(kinds))] += 1
    res.nontrivial = len(kinds) >= 2
    return res


def run_align(case, drv):
    from gnpy.topology.spectrum_assignment import align_grids
    res = Result()
    res.stats['align'] += 1
    try:
        oms = [mk_oms(i, b) for i, b in enumerate(case['bitmaps'])]
    except Exception as e:
        res.cmp_exact('align.init', err_kind(e), drv.ask('c15.align', bitmaps=case['bitmaps']).get('init_error'))
        return res
    before = [snap_bitmap(o.spectrum_bitmap) for o in oms]
    try:
        out = align_grids(oms)
        got = {'ok': [snap_bitmap(o.spectrum_bitmap) for o in out]}
    except Exception as e:
        got = {'error': err_kind(e)}
    res.cmp_exact('align_grids', got, drv.ask('c15.align', bitmaps=case['bitmaps']))
    if 'ok' in got:
        lo = min(b['n_min'] for b in before)
        hi = max(b['n_max'] for b in before)
        for i, (b, a) in enumerate(zip(before, got['ok'])):
            if (a['n_min'], a['n_max']) != (lo, hi) or a['freq_index'] != list(range(lo, hi + 1)) \
                    or len(a['cells']) != hi - lo + 1:
                res.fail(f'aligned maps do not share one unique index range: map {i} [{a["n_min"]},{a["n_max"]}], '
                         f'{len(a["freq_index"])} indices ({len(set(a["freq_index"]))} distinct), expected [{lo},{hi}]')
                continue
            old = dict(zip(b['freq_index'], b['cells']))
            for k, c in zip(a['freq_index'], a['cells']):
                if (k in old and c != old[k]) or (k not in old and c == '1'):
                    res.fail(f'alignment moved an occupancy: map {i} index {k} holds {c}, before {old.get(k, "nothing (an added slot must not be free)")}')
                    break
        res.stats['align_maps'] += len(before)
        res.stats['align_extended'] += sum(1 for b in before if (b['n_min'], b['n_max']) != (lo, hi))
    res.nontrivial = len({(b['n_min'], b['n_max']) for b in before}) >= 2
    return res


def run_unit(case, drv):
    from gnpy.core.utils import find_common_range
    from gnpy.topology.spectrum_assignment import (create_oms_bitmap, OMS, frequency_to_n, nvalue_to_frequency,
                                                   mvalue_to_slots, slots_to_m, m_to_freq, BitmapValue, Bitmap)
    import gnpy.topology.spectrum_assignment as sa
    res = Result()
    op = case['op']
    res.stats[f'unit_{op}'] += 1
    res.nontrivial = True
    if op == 'common':
        amp = [[{'f_min': float(lo), 'f_max': float(hi)} for lo, hi in a] for a in case['amp_bands']]
        si = case['si']
        got = find_common_range(amp, None if si is None else float(si[0]), None if si is None else float(si[1]), 50e9)
        got = [[int(b['f_min']), int(b['f_max'])] for b in got]
        res.cmp_exact('find_common_range', got, drv.ask('c15.common', amp_bands=case['amp_bands'], si=si))
        # monitor: the result covers exactly the frequencies that lie in a band of every amplifier (set semantics)
        pts = sorted({x for a in case['amp_bands'] for b in a for x in b} | {x for b in got for x in b})
        probes = [Fraction(a + b, 2) for a, b in zip(pts, pts[1:])]
        for f in probes:
            exp = all(any(lo < f < hi for lo, hi in a) for a in case['amp_bands']) if case['amp_bands'] else \
                (si is not None and si[0] < f < si[1])
            if any(lo < f < hi for lo, hi in got) != exp:
                res.fail(f'common band wrong: frequency {float(f)} is {"inside" if not exp else "outside"} the result {got}')
                break
        if got != sorted(got):
            res.mismatch('find_common_range result not sorted', got, sorted(got))
        res.stats['common_bands_%d' % min(3, len(got))] += 1
    elif op == 'bitmap':
        class _E:    # stand-in for equipment: find_elements_common_range is replaced by the stated bands
            pass
        bands = [{'f_min': float(lo), 'f_max': float(hi), 'spacing': None} for lo, hi in case['bands']]
        o = OMS(oms_id=0, el_id_list=[], el_list=[])
        orig = sa.find_elements_common_range
        sa.find_elements_common_range = lambda el_list, equipment: bands
        try:
            try:
                got = {'ok': cells_str(create_oms_bitmap(o, {}, float(case['f_min']), float(case['f_max']), float(case['grid'])))}
            except Exception as e:
                got = {'error': err_kind(e)}
        finally:
            sa.find_elements_common_range = orig
        res.cmp_exact('create_oms_bitmap', got, drv.ask('c15.bitmap', bands=case['bands'], f_min=case['f_min'],
                                                        f_max=case['f_max'], grid=case['grid']))
        if 'ok' in got:
            g = case['grid']
            n_min, n_max = n_of(case['f_min'], g), n_of(case['f_max'], g)
            inside = all(case['f_min'] <= lo and hi <= case['f_max'] for lo, hi in case['bands'])
            disjoint = all(n_of(a[1], g) < n_of(b[0], g) for a, b in zip(case['bands'], case['bands'][1:]))
            if inside and disjoint:
                if len(got['ok']) != n_max - n_min + 1:
                    res.fail(f'map length: {len(got["ok"])} cells for the slot range [{n_min},{n_max}]')
                elif all((x - ANCHOR) % g == 0 for b in case['bands'] for x in b):
                    exp = ''.join('1' if any(lo <= ANCHOR + k * g <= hi for lo, hi in case['bands']) else 'u'
                                  for k in range(n_min, n_max + 1))
                    if got['ok'] != exp:
                        res.fail('usable slots differ from the bands: create_oms_bitmap')
            res.stats['bitmap_layout_ok'] += int(inside and disjoint)
    elif op == 'create':
        b = case['bitmap']
        try:
            got = {'ok': snap_bitmap(mk_oms(0, b).spectrum_bitmap)}
        except Exception as e:
            got = {'error': err_kind(e)}
        res.cmp_exact('Bitmap.__init__', got, drv.ask('c15.create', **b))
        if 'ok' in got:
            a = got['ok']
            if a['freq_index'] != list(range(a['n_min'], a['n_max'] + 1)) or len(a['cells']) != len(a['freq_index']):
                res.fail('Bitmap: index list is not the contiguous range / one cell per index')
    elif op == 'insert':
        b = case['bitmap']
        val = {'1': BitmapValue.FREE, '0': BitmapValue.OCCUPIED, 'u': BitmapValue.UNUSABLE}
        try:
            o = mk_oms(0, b)
        except Exception as e:
            res.cmp_exact('insert.init', err_kind(e), drv.ask('c15.insert', bitmap=b, side=case['side'], new=case['new']).get('init_error'))
            return res
        before = snap_bitmap(o.spectrum_bitmap)
        new = [val[c] for c in case['new']]
        (o.spectrum_bitmap.insert_left if case['side'] == 'left' else o.spectrum_bitmap.insert_right)(list(new))
        got = snap_bitmap(o.spectrum_bitmap)
        ans = drv.ask('c15.insert', bitmap=b, side=case['side'], new=case['new'])
        res.cmp_exact('Bitmap.insert_' + case['side'], {'ok': got}, ans)
        k = len(case['new'])
        lo, hi = (before['n_min'] - k, before['n_max']) if case['side'] == 'left' else (before['n_min'], before['n_max'] + k)
        if (got['n_min'], got['n_max']) != (lo, hi) or got['freq_index'] != list(range(lo, hi + 1)):
            res.fail(f'insert_{case["side"]}: indices not unique/contiguous: [{got["n_min"]},{got["n_max"]}] '
                     f'{len(set(got["freq_index"]))} distinct of {len(got["freq_index"])}, expected [{lo},{hi}]')
        else:
            old = dict(zip(before['freq_index'], before['cells']))
            if any(old.get(i, c) != c for i, c in zip(got['freq_index'], got['cells'])):
                res.fail(f'insert_{case["side"]} moved an existing cell')
    else:
        g = float(case['grid'])
        got = {'frequency_to_n': frequency_to_n(float(case['f']), g), 'nvalue_to_frequency': int(nvalue_to_frequency(case['n'], g)),
               'mvalue_to_slots': list(mvalue_to_slots(case['n'], case['m'])), 'slots_to_m': list(slots_to_m(case['a'], case['b'])),
               'm_to_freq': [int(x) for x in m_to_freq(case['n'], case['m'], g)]}
        res.cmp_exact('index conversions', got, drv.ask('c15.conv', **{k: case[k] for k in ('f', 'grid', 'n', 'm', 'a', 'b')}))
        lo, hi = got['mvalue_to_slots']
        if list(slots_to_m(lo, hi)) != [case['n'], case['m']] or hi - lo + 1 != 2 * case['m']:
            res.fail(f'slots_to_m(mvalue_to_slots(n, m)) != (n, m) for n={case["n"]} m={case["m"]}')
        if frequency_to_n(nvalue_to_frequency(case['n'], g), g) != case['n']:
            res.fail(f'frequency_to_n(nvalue_to_frequency(n)) != n for n={case["n"]} grid={g}')
    return res


def shrink_candidates(case):
    if case['kind'] == 'net':
        for i in range(len(case['lines']) - 1, -1, -1):
            ln = case['lines'][i]
            if len(ln['amps']) > 2:
                c = copy.deepcopy(case)
                c['lines'][i]['amps'] = ln['amps'][:2]
                yield c
            if ln['fused']:
                c = copy.deepcopy(case)
                c['lines'][i]['fused'] = False
                yield c
        if case['nroadm'] > 2:
            c = copy.deepcopy(case)
            c['nroadm'] -= 1
            k = c['nroadm']
            c['lines'] = [ln for ln in c['lines'] if ln['from'] < k and ln['to'] < k]
            if c['lines']:
                yield c
    elif case['kind'] == 'align':
        for i in range(len(case['bitmaps'])):
            if len(case['bitmaps']) > 1:
                c = copy.deepcopy(case)
                del c['bitmaps'][i]
                yield c


def exhaustive():
    """ALL layouts of one or two bands with edges on the 13 grid points of a 12-slot line that straddles 193.1 THz
    (n = -6..6), each with on-grid edges and with the edges moved 1 GHz inwards/outwards off the grid, inside a map that
    fits exactly or has one extra slot on each side; and all pairs of maps with extents inside n = -3..3 through
    align_grids."""
    import itertools
    pts = list(range(-6, 7))
    for k in (1, 2):
        for edges in itertools.combinations(pts, 2 * k):
            for dlo, dhi in ((0, 0), (10 ** 9, 0), (0, -10 ** 9), (-10 ** 9, 10 ** 9)):
                bands = [[ANCHOR + edges[2 * i] * GRID + dlo, ANCHOR + edges[2 * i + 1] * GRID + dhi] for i in range(k)]
                for pad in (0, 1):
                    yield {'kind': 'unit', 'op': 'bitmap', 'bands': bands, 'f_min': ANCHOR + (-6 - pad) * GRID,
                           'f_max': ANCHOR + (6 + pad) * GRID, 'grid': GRID}
    ext = [(a, b) for a in range(-3, 4) for b in range(a, 4)]
    for (a1, b1) in ext:
        for (a2, b2) in ext:
            yield {'kind': 'align', 'bitmaps': [
                {'f_min': ANCHOR + a1 * GRID, 'f_max': ANCHOR + b1 * GRID, 'guardband': GB, 'grid': GRID,
                 'cells': ('10u' * 3)[:b1 - a1 + 1]},
                {'f_min': ANCHOR + a2 * GRID, 'f_max': ANCHOR + b2 * GRID, 'guardband': 0, 'grid': GRID, 'cells': None}]}
