"""C02 — signal quality never improves along a path; passive elements leave it unchanged.

Correspondence (element granularity): every element `__call__` on real designed paths (and on the same elements in a
random order, fed with spectra that already carry ASE and NLI) vs Gnpy.Spectrum.Elem.apply / path / multiband: the op
list the element executed must be the op list of the model element of its type (class E), the arguments of the passive
ops must be the element's own loss parameters (E), and the state and the three figures after the call are compared
(class F).
Monitor (own arithmetic on the raw arrays): per channel and element the three noise-to-signal ratios never decrease
(= GSNR, OSNR_ASE, SNR_NLI never increase), shares bit-identical across Roadm / Fused / Transceiver and across every
attenuation/gain call (connector, padding, VOA, fibre loss, amplifier gain), SNR_NLI unchanged by amplifiers, OSNR_ASE
unchanged by non-Raman fibres; the same on the figures the implementation itself reports (snr_lin, snr_nli, gsnr).
"""
import copy

import numpy as np

from common.util import Result, f2b, b2f, err_kind
from common import specrec as S

ID = 'C02'
N = {'quick': 420, 'thorough': 14000}
LEAN_MODULES = ['GnpyProofs.Props.C02']
THEOREMS = [f'Gnpy.Spectrum.{t}' for t in (
    'attLin_ratios', 'attDb_ratios', 'gainLin_ratios', 'gainDb_ratios', 'figures_of_ratios', 'passive_unchanged',
    'addAse_snrNli_eq', 'addAse_nsrAse', 'addAse_nsrAse_ge', 'addAse_snr_le', 'addAse_nsr_ge', 'inv_figures',
    'addAse_gsnr_le', 'addNli_snr_eq', 'addNli_nsrNli', 'addNli_nsrNli_ge', 'addNli_snrNli_le', 'addNli_nsr_ge',
    'addNli_gsnr_le', 'step_monotone', 'run_monotone', 'run_figures_antitone', 'path_append', 'pathOk_append', 'path_live',
    'path_monotone', 'roadm_unchanged', 'fused_unchanged', 'trx_unchanged', 'passive_elements_figures', 'edfa_only_osnr',
    'fiber_only_nli', 'raman_monotone', 'multiband_only_osnr', 'applyElems_monotone')]
RULE = ('cases from one PRNG: (a) "path": request.propagate on a designed network (shipped examples edfa, mesh, fused, '
        'multiband, raman[, openroadm in thorough]; generated ROADM chains with 1-3 spans per hop (about a third of the spans with negative dispersion: single '
        'value, per-frequency table or value+slope), fused splices, connector and padding losses, in/out VOAs, tilt, every stock amplifier variety incl. dual-stage and OpenROADM, Raman fibres; '
        'gn_model_analytic, ggn_spectrally_separated in thorough) with a uniform grid or a mixed-rate carrier list of '
        '1-40 (96) channels; (a2) multiband ROADM chains (5 stock multiband varieties or auto-designed) of 3-5 amplifiers per hop whose per-band '
        'amplifiers are listed C,L or L,C, launched with 3-6 dB between the L and the C partition; (a3) NLI method ggn_approx with an explicit computed_channels list that leaves out up to 5 '
        'first and up to 8 last channels of a mixed-rate comb (32G/50GHz block next to a 64G/75GHz block, power offset per '
        'block); Raman fibres pumped above the band and/or from BELOW the channels (190-190.9 THz pumps under a C-band '
        'comb, co- and counter-propagating); (a4) a small high-power stream: ROADM-less lines crossed in '
        'path order with +12..+25 dBm per channel (no skip); (b) "shuffle": the elements of such a path in random order on a spectrum whose channels '
        'already carry random ASE and NLI shares; (c) malformed: amplifier / multiband amplifier called with no channel '
        'in its band (ValueError). Non-trivial: >= 1 fibre, >= 1 amplifier and >= 1 passive element (ROADM/fused) were '
        'crossed; distinct = canonical JSON of the case')
MODEL_SCOPE = ('modelled: op lists of Fused/Roadm/Fiber/RamanFiber/Edfa.propagate, Multiband_amplifier.__call__ (per-band '
               'dispatch and merge), Transceiver.__call__, request.propagate as a fold over the path; the shares/figures '
               'algebra of SpectralInformation. Inputs of the model taken from the implementation at run time: NLI, ASE, '
               'gain-profile and fibre-loss vectors, ROADM equalisation attenuation (pinned by C03, C04, C05, C06). Not '
               'modelled: CD/PMD/PDL/latency accumulation (C05)')
TRUSTED = ['the op list of an element call is observed by wrapping the six mutating methods in the harness process; a '
           'mutation of the shares that bypasses these methods is seen through the state comparison and the bit-identity '
           'monitor after the call']

PATTERN = {'Fused': ['attDb'], 'Roadm': ['attDb', 'attDb'], 'Fiber': ['attDb', 'addNli', 'attLin', 'attDb'],
           'RamanFiber': ['attDb', 'addNli', 'addAse', 'attLin', 'attDb'], 'Transceiver': []}
MODEL_KIND = {'Fused': 'fused', 'Roadm': 'roadm', 'Fiber': 'fiber', 'RamanFiber': 'raman', 'Transceiver': 'trx', 'Edfa': 'edfa'}
SLACK = 1e-9


def gen_high_power(rng, tier):
    """the statement quantifies over EVERY launched spectrum: lines without ROADM (nothing equalises the launch power down)
    crossed in path order with +12..+25 dBm per channel"""
    if rng.random() < 0.4:
        net, src, dst = 'edfa', None, None
    else:
        d = S.gen_topology(rng, max_roadms=2, raman=False)
        d['hops'] = d['hops'][:1]
        for sp in d['hops'][0]:
            sp['disp'] = None if rng.random() < 0.7 else sp.get('disp')
        d['roadms'] = [None, None]
        net, src, dst = {'desc': d}, 'trx 0', 'trx 1'
    return {'kind': 'path', 'net': net, 'src': src, 'dst': dst, 'pick': [rng.random(), rng.random()], 'sim': None,
            'uniform_grid': False, 'nch': rng.choice([1, 2, 4, 8]), 'mb': None, 'ggn': None, 'cseed': rng.getrandbits(32),
            'pmax_dbm': 10.0, 'order': None, 'high_power': [rng.choice([12.0, 15.0, 18.0]), rng.choice([20.0, 22.0, 25.0])]}


def gen(rng, tier, widen=False):
    k = rng.random()
    if k < 0.04:
        return gen_high_power(rng, tier)
    if k < 0.72:
        return S.gen_path_case(rng, tier, False)
    if k < 0.93:
        c = S.gen_path_case(rng, tier, True)
        c['shares_seed'] = rng.getrandbits(32)
        return c
    return {'kind': 'malformed', 'what': rng.choice(['edfa', 'multiband'])}


def run(case, drv):
    if case['kind'] == 'malformed':
        return run_malformed(case, drv)
    return run_path(case, drv)


def _bits(snap, i):
    return [f2b(snap['p'][i]), f2b(snap['s'][i]), f2b(snap['a'][i]), f2b(snap['n'][i])]


def _elem_json(kind, ops):
    """model element of one channel from the ops that channel saw"""
    args = [x for _, x in ops]
    if kind == 'Edfa':
        if [k for k, _ in ops] == ['attDb', 'addAse', 'gainDb']:
            return {'k': 'edfa', 'v': [f2b(args[1]), f2b(args[2])], 'voa': f2b(args[0])}
        if [k for k, _ in ops] == ['addAse', 'gainDb']:
            return {'k': 'edfa', 'v': [f2b(args[0]), f2b(args[1])], 'voa': None}
        return None
    if [k for k, _ in ops] != PATTERN[kind]:
        return None
    return {'k': MODEL_KIND[kind], 'v': [f2b(x) for x in args]}


def _nsr(snap):
    with np.errstate(divide='ignore', invalid='ignore'):
        return snap['a'] / snap['s'], snap['n'] / snap['s'], (snap['a'] + snap['n']) / snap['s']


def monitor_call(res, call, si_views, where):
    """the property on one element call; channels matched by frequency"""
    b, a = call.before, call.after
    idx = {float(f): i for i, f in enumerate(b['freq'])}
    sel = np.array([idx.get(float(f), -1) for f in a['freq']], dtype=int)
    if len(sel) == 0 or np.any(sel < 0):
        # an output frequency that was not in the input: nothing to compare per channel (the channel-set correspondence
        # below reports it); counted, not silent
        res.stats['monitor_call_unmatched_output_frequency'] += 1
        return
    bb = {k: b[k][sel] for k in ('p', 's', 'a', 'n')}
    nb = _nsr(bb)
    na = _nsr(a)
    names = ('OSNR_ASE', 'SNR_NLI', 'GSNR')
    for nm, x0, x1 in zip(names, nb, na):
        bad = np.nonzero(~(x1 >= x0 - SLACK * np.abs(x0) - 1e-18))[0]
        if len(bad):
            i = int(bad[0])
            with np.errstate(divide='ignore'):
                res.fail(f'improves: {nm} of channel {i} rises across {where}: {10 * np.log10(1 / x0[i]):.9f} dB -> '
                         f'{10 * np.log10(1 / x1[i]):.9f} dB', where=where, element=call.kind)
    if call.kind in ('Roadm', 'Fused', 'Transceiver'):
        for nm in ('s', 'a', 'n'):
            if not np.array_equal(bb[nm], a[nm]):
                i = int(np.nonzero(bb[nm] != a[nm])[0][0])
                res.fail(f'passive-changed: {where} changed the {({"s": "signal", "a": "ASE", "n": "NLI"})[nm]} share of '
                         f'channel {i}: {bb[nm][i]!r} -> {a[nm][i]!r}', where=where, element=call.kind)
    if call.kind in ('Edfa', 'Multiband_amplifier'):
        bad = np.nonzero(~(np.abs(na[1] - nb[1]) <= SLACK * np.abs(nb[1]) + 1e-18))[0]
        if len(bad):
            i = int(bad[0])
            res.fail(f'amplifier-nli: {where} changed SNR_NLI of channel {i}: nli/signal {nb[1][i]!r} -> {na[1][i]!r}',
                     where=where, element=call.kind)
    if call.kind == 'Fiber':
        bad = np.nonzero(~(np.abs(na[0] - nb[0]) <= SLACK * np.abs(nb[0]) + 1e-18))[0]
        if len(bad):
            i = int(bad[0])
            res.fail(f'fibre-ase: non-Raman {where} changed OSNR_ASE of channel {i}: ase/signal {nb[0][i]!r} -> {na[0][i]!r}',
                     where=where, element=call.kind)
    # the figures the implementation itself reports
    if si_views is not None:
        v0, v1 = si_views
        for nm, k in (('snr_lin', 0), ('snr_nli', 1), ('gsnr', 2)):
            x0, x1 = v0[k][sel], v1[k]
            bad = np.nonzero(~((x1 <= x0 * (1 + SLACK)) | (np.isinf(x0))))[0]
            if len(bad):
                i = int(bad[0])
                res.fail(f'improves-reported: SpectralInformation.{nm} of channel {i} rises across {where}: {x0[i]!r} -> '
                         f'{x1[i]!r}', where=where, element=call.kind)


def _views(si):
    with np.errstate(divide='ignore', invalid='ignore'):
        return (np.array(si.snr_lin, dtype=float), np.array(si.snr_nli, dtype=float), np.array(si.gsnr, dtype=float))


def run_path(case, drv):
    import random
    from gnpy.topology.request import propagate, filter_si
    from gnpy.core.info import carriers_to_spectral_information, create_input_spectral_information, SpectralInformation
    from gnpy.core import elements as E
    res = Result()
    eq, path, req, sim = S.setup_path(case)
    shuffle = case['kind'] == 'shuffle'
    views = {}

    # the implementation's own figure views are read before/after every outermost element call
    with S.sim_params(sim):
        with S.Recorder() as rec:
            # wrap once more (outside the recorder's wrappers) to read the implementation's own views
            saved = []

            def wrap(cls):
                inner = cls.__dict__['__call__']

                def w(el, si, *a, **kw):
                    top = rec._el_depth == 0
                    v0 = _views(si) if top else None
                    out = inner(el, si, *a, **kw)
                    if top:
                        views[len(rec.calls) - 1] = (v0, _views(out))
                    return out
                saved.append((cls, inner))
                cls.__call__ = w
            for cls in (E.Transceiver, E.Roadm, E.Fused, E.Fiber, E.Edfa, E.Multiband_amplifier):
                wrap(cls)
            try:
                if not shuffle:
                    si = propagate(path, req, eq)
                else:
                    si = carriers_to_spectral_information(req.initial_spectrum, req.power) if req.initial_spectrum else \
                        create_input_spectral_information(f_min=req.f_min, f_max=req.f_max, roll_off=req.roll_off,
                                                          baud_rate=req.baud_rate, spacing=req.spacing,
                                                          tx_osnr=req.tx_osnr, tx_power=req.tx_power)
                    si = filter_si(path, eq, si)
                    # channels that already carry noise
                    r2 = random.Random(case['shares_seed'])
                    n = si.number_of_channels
                    a = np.array([r2.choice([0.0, 10 ** -r2.uniform(1.5, 5)]) for _ in range(n)])
                    nl = np.array([r2.choice([0.0, 10 ** -r2.uniform(1.5, 5)]) for _ in range(n)])
                    si._ase_ratio = a
                    si._nli_ratio = nl
                    si._signal_ratio = 1.0 - a - nl
                    idx = list(range(1, len(path) - 1))
                    order = case['order']
                    idx.sort(key=lambda i: order[i % len(order)])
                    idx = idx[:max(1, int(len(idx) * (0.4 + 0.6 * order[0])))]
                    for i in idx:
                        el = path[i]
                        if isinstance(el, E.Roadm):
                            si = el(si, degree=path[i + 1].uid, from_degree=path[i - 1].uid)
                        elif not isinstance(el, E.Fused) and float(np.max(si.pch)) > 10e-3:
                            # beyond +10 dBm per channel (piled-up amplifiers) the property does not apply
                            res.stats['shuffle_element_skipped_above_10dBm'] += 1
                        else:
                            si = el(si)
                    si = path[-1](si)
            finally:
                for cls, inner in saved:
                    cls.__call__ = inner
    kinds = [c.kind for c in rec.calls]
    first = rec.calls[0].before
    f0 = [float(f) for f in first['freq']]
    per_channel_path = {f: [] for f in f0}
    for ci, call in enumerate(rec.calls):
        where = f'{call.kind} {call.uid!r} (element {ci})'
        if call.after is None:
            res.fail(f'exception: {where} raised {err_kind(call.error)}')
            return res
        monitor_call(res, call, views.get(ci), where)
        ops = call.per_channel_ops()
        fb = [float(f) for f in call.before['freq']]
        fa = [float(f) for f in call.after['freq']]
        el = call.el
        if call.kind == 'Multiband_amplifier':
            # per band: the Edfa element each of its channels saw
            amps = []
            for name, amp in el.amplifiers.items():
                band = amp.params.bands[0]
                lo, hi = int(band['f_min']), int(band['f_max'])
                els = []
                for f, sw in zip(call.before['freq'], call.before['slot']):
                    if 2 * int(f) - int(sw) >= 2 * lo and 2 * int(f) + int(sw) <= 2 * hi:
                        ej = _elem_json('Edfa', ops[float(f)])
                        if ej is None:
                            res.mismatch('Multiband_amplifier.ops', [k for k, _ in ops[float(f)]], ['attDb', 'addAse', 'gainDb'],
                                         uid=call.uid)
                            ej = {'k': 'trx', 'v': []}
                        els.append([int(f), ej])
                amps.append({'fmin': lo, 'fmax': hi, 'elems': els})
            ans = drv.ask('c02.multiband', sp=[[int(f), _bits(call.before, i)] for i, f in enumerate(call.before['freq'])],
                          slot=[[int(f), int(sw)] for f, sw in zip(call.before['freq'], call.before['slot'])], amps=amps)
            res.cmp_exact('Multiband_amplifier.frequency', [int(f) for f in call.after['freq']],
                          None if ans is None else [r[0] for r in ans], uid=call.uid)
            if ans is not None and len(ans) == len(fa):
                for j, nm in enumerate(('p', 's', 'a', 'n')):
                    res.cmp_floats(f'Multiband_amplifier.{nm}', call.after[nm], [b2f(r[1][j]) for r in ans], abs_=1e-300,
                                   uid=call.uid)
            for f in fb:
                ej = _elem_json('Edfa', ops[f])
                if f in per_channel_path and ej is not None:
                    per_channel_path[f].append(ej)
            continue
        if fa != fb:
            res.mismatch(f'{call.kind}.channels', fa, fb, uid=call.uid)
            continue
        ejs = [_elem_json(call.kind, ops[f]) for f in fb]
        if any(e is None for e in ejs):
            exp = PATTERN.get(call.kind, ['attDb', 'addAse', 'gainDb'])
            res.mismatch(f'{call.kind}.ops', call.op_kinds(), exp, uid=call.uid)
            continue
        ans = drv.ask('c02.elem', chans=[_bits(call.before, i) for i in range(len(fb))], elems=ejs)
        res.cmp_exact(f'{call.kind}.ops', call.op_kinds(), ans['kinds'][0] if ans['kinds'] else [], uid=call.uid)
        out = [[b2f(x) for x in r] for r in ans['out']]
        for j, nm in enumerate(('p', 's', 'a', 'n')):
            res.cmp_floats(f'{call.kind}.{nm}', call.after[nm], [r[j] for r in out], abs_=1e-300 if nm == 'p' else 1e-15,
                           uid=call.uid)
        if ci in views:
            v1 = views[ci][1]
            for j, nm in ((4, 'snr_lin'), (5, 'snr_nli'), (6, 'gsnr')):
                res.cmp_floats(f'{call.kind}.{nm}', v1[j - 4], [r[j] for r in out], abs_=0.0, uid=call.uid)
        # the passive arguments are the element's own loss parameters
        if call.kind == 'Fused':
            res.cmp_exact('Fused.loss', [x for _, _, arg in call.ops for x in set(arg.tolist())], [float(el.loss)])
        if call.kind in ('Fiber', 'RamanFiber'):
            res.cmp_exact('Fiber.att_in', sorted(set(call.ops[0][2].tolist())), [float(el.params.con_in + el.params.att_in)])
            res.cmp_exact('Fiber.con_out', sorted(set(call.ops[-1][2].tolist())), [float(el.params.con_out)])
        if call.kind == 'Edfa':
            res.cmp_exact('Edfa.in_voa', sorted(set(call.ops[0][2].tolist())) if len(call.ops) == 3 else None,
                          None if el.in_voa is None else [float(el.in_voa)])
        for f, ej in zip(fb, ejs):
            if f in per_channel_path:
                per_channel_path[f].append(ej)
    # the whole path as one fold, per channel
    last = rec.calls[-1].after
    fl_ = [float(f) for f in last['freq']]
    if fl_ == f0 and all(len(per_channel_path[f]) == len(rec.calls) for f in f0):
        ans = drv.ask('c02.path', chans=[_bits(first, i) for i in range(len(f0))], paths=[per_channel_path[f] for f in f0])
        for j, nm in enumerate(('p', 's', 'a', 'n')):
            res.cmp_floats(f'propagate.{nm}', last[nm], [b2f(r['end'][j]) for r in ans], abs_=1e-300 if nm == 'p' else 1e-15)
        res.stats['model_trace_states'] += sum(len(r['trace']) for r in ans)
    if sim and sim['nli_params'].get('method') == 'ggn_approx':
        comp = sim['nli_params']['computed_channels']
        res.stats['ggn_approx_cases'] += 1
        res.stats['ggn_approx_channels_below_computed_range'] += comp[0] - 1
        res.stats['ggn_approx_channels_above_computed_range'] += len(f0) - comp[-1]
        res.stats['ggn_approx_fibres'] += kinds.count('Fiber')
    passive = sum(kinds.count(k) for k in ('Roadm', 'Fused'))
    res.nontrivial = ('Fiber' in kinds or 'RamanFiber' in kinds) and ('Edfa' in kinds or 'Multiband_amplifier' in kinds) \
        and passive > 0
    if case.get('high_power'):
        res.stats['high_power_cases'] += 1
        res.stats['high_power_max_dbm_into_a_fibre_x10'] += int(10 * max(
            [float(10 * np.log10(np.max(c.before['p']) * 1e3)) for c in rec.calls if c.kind in ('Fiber', 'RamanFiber')] or [0.0]))
    res.stats.update({f'{case["kind"]}_cases': 1, 'elements_crossed': len(rec.calls), 'channels': len(f0),
                      'channel_element_pairs_monitored': len(f0) * len(rec.calls),
                      f'net_{case["net"] if isinstance(case["net"], str) else ("mbchain" if "mbhops" in case["net"] else "generated")}': 1, 'sim_' + str(case['sim']): 1})
    for k in set(kinds):
        res.stats[f'elem_{k}'] += kinds.count(k)
    for call in rec.calls:
        if call.kind == 'Edfa':
            res.stats['edfa_' + str(call.el.params.type_def)] += 1
        if call.kind == 'RamanFiber' and call.before is not None and len(call.before['freq']):
            pf = [float(pp.frequency) for pp in call.el.raman_pumps]
            res.stats['raman_fibre_pump_below_a_channel'] += int(min(pf) < float(np.max(call.before['freq'])))
            res.stats['raman_fibre_all_pumps_above'] += int(min(pf) > float(np.max(call.before['freq'])))
        if call.kind == 'Fiber' and np.any(np.asarray(call.el.params.dispersion) < 0):
            res.stats['fibre_negative_dispersion'] += 1
        if call.kind == 'Multiband_amplifier':
            fm = [a.params.bands[0]['f_min'] for a in call.el.amplifiers.values()]
            res.stats['multiband_L_listed_first' if fm == sorted(fm) and len(fm) > 1 else 'multiband_C_listed_first'] += 1
            if call.before is not None and len(call.before['a']):
                res.stats['multiband_with_accumulated_ase'] += int(np.max(call.before['a']) > 0)
    # no noise contribution may be negative (guard of the theorems; a negative NLI would hand power back to the signal)
    for kind, (p0, s0, a0, n0), arg, _, uid in rec.op_events:
        if kind in ('addNli', 'addAse') and np.any(arg < 0):
            i = int(np.nonzero(arg < 0)[0][0])
            res.fail(f'negative-noise: {kind} inside {uid!r} was given a negative power for channel {i} ({arg[i]!r} W)')
            break
    # finding class `nli-exceeds-channel-power`: a fibre handed add_nli an NLI power >= the channel power (seen only far above
    # +10 dBm per channel): the signal share goes negative and the three figures lose their meaning from there on. Only the
    # ratio monitors of such a case are filed under this class; everything else stays unlisted.
    # (class restricted to channels that enter the glass ABOVE +10 dBm: an NLI >= channel power at ordinary powers stays unlisted)
    if any(kind == 'addNli' and np.any((arg >= p0) & (p0 > 10e-3)) for kind, (p0, _, _, _), arg, _, _ in rec.op_events):
        res.stats['nli_at_or_above_channel_power_cases'] += 1
        for f in res.failures:
            if f['what'].split(':')[0] in ('improves', 'improves-reported', 'amplifier-nli', 'fibre-ase'):
                f['cls'] = 'nli-exceeds-channel-power'
    # every attenuation/gain call (connector, padding, VOA, fibre loss, gain) leaves the shares bit-identical
    for kind, (p0, s0, a0, n0), arg, (p1, s1, a1, n1), uid in rec.op_events:
        if kind in ('attLin', 'attDb', 'gainLin', 'gainDb'):
            if not (np.array_equal(s0, s1) and np.array_equal(a0, a1) and np.array_equal(n0, n1)):
                res.fail(f'passive-changed: {kind} inside {uid!r} changed a share')
            res.stats['passive_calls_checked'] += 1
    return res


def run_malformed(case, drv):
    from gnpy.core.info import create_arbitrary_spectral_information
    from gnpy.core.elements import Edfa, Multiband_amplifier
    res = Result()
    si = create_arbitrary_spectral_information([150e12, 150.1e12], pch=1e-3, baud_rate=32e9, tx_osnr=40.0, tx_power=1e-3,
                                               slot_width=50e9, label='x')
    if case['what'] == 'edfa':
        eq, net, trx = S.example('edfa')
        el = next(n for n in net.nodes() if isinstance(n, Edfa))
        bands = [el.params.bands[0]]
    else:
        eq, net, trx = S.example('multiband')
        el = next(n for n in net.nodes() if isinstance(n, Multiband_amplifier))
        bands = [amp.params.bands[0] for amp in el.amplifiers.values()]
    try:
        el(si)
        impl = 'accepted'
    except Exception as e:
        impl = err_kind(e)
    one = f2b(1.0)
    md = drv.ask('c02.multiband', sp=[[150_000_000_000_000, [f2b(1e-3), one, f2b(0.0), f2b(0.0)]],
                                      [150_100_000_000_000, [f2b(1e-3), one, f2b(0.0), f2b(0.0)]]],
                 slot=[[150_000_000_000_000, 50_000_000_000], [150_100_000_000_000, 50_000_000_000]],
                 amps=[{'fmin': int(b['f_min']), 'fmax': int(b['f_max']), 'elems': []} for b in bands])
    res.cmp_exact(f'{type(el).__name__}.__call__.out_of_band', impl, 'ValueError' if md is None else 'accepted')
    if impl != 'ValueError':
        res.fail(f'out-of-band: {type(el).__name__} called with no channel in its band answered {impl}')
    res.nontrivial = True
    res.stats.update({'malformed_' + case['what']: 1})
    return res


def shrink_candidates(case):
    if case['kind'] in ('path', 'shuffle'):
        if case['nch'] > 1:
            c = copy.deepcopy(case)
            c['nch'] = max(1, case['nch'] // 2)
            yield c
        if not isinstance(case['net'], str) and 'desc' in case['net']:
            d = case['net']['desc']
            for h in range(len(d['hops'])):
                if len(d['hops'][h]) > 1:
                    c = copy.deepcopy(case)
                    c['net']['desc']['hops'][h].pop()
                    yield c
            if len(d['hops']) > 1 and d['roadms'][0] is not None:
                c = copy.deepcopy(case)
                c['net']['desc']['hops'].pop()
                c['net']['desc']['roadms'].pop()
                n = len(c['net']['desc']['roadms'])
                if int(c['src'].split()[1]) < n and int(c['dst'].split()[1]) < n:
                    yield c
