"""C04 — an amplifier applies its set gain, the quantum-limited ASE, and never exceeds p_max; NF models.

Correspondence: the real Edfa element (library through json_io._equipment_from_json, element through
network_from_json, real SpectralInformation) vs Gnpy.Edfa.call (clamp, NF models, ASE, gain profile incl. the DGT tilt
algorithm, band filter, output powers); science_utils.estimate_nf_model vs estimateNfModel (values and which check
rejects); Amp.from_json accept/reject vs fromJsonKind.
Monitor: the statement itself, with own arithmetic, on the element's observable behaviour (input/output
SpectralInformation, Edfa.nf, Edfa.effective_gain).
"""
import copy
import math

import numpy as np

from common.util import Result, f2b, b2f, fl, err_kind
from common import nets, amplib

ID = 'C04'
N = {'quick': 4000, 'thorough': 120000}
LEAN_MODULES = ['GnpyProofs.Props.C04']
THEOREMS = [f'Gnpy.Edfa.{t}' for t in (
    'effGain_le_set', 'effGain_clamp', 'effGain_eq_set_iff', 'effGain_reduced_exact', 'callSeq_le_set', 'callSeq_clamp_last',
    'callSeq_first_call',
    'total_out_le_pmax', 'flat_total_gain', 'ase_formula', 'ase_referred_to_input', 'ase_noiseless_booster',
    'nf_at_gmax', 'nf_at_gmin', 'estimate_unclipped', 'estimate_accepts_close', 'nf_antitone_in_gain', 'nf_pad_db_for_db',
    'nf_fixed_gain', 'nf_advanced_at_gmax', 'dual_stage_friis', 'flat_profile_exact', 'single_channel_profile',
    'gain_profile_flat', 'nf_no_pad', 'call_spec',
    'out_of_band_dropped', 'in_band_kept', 'demux_sublist', 'call_none_iff_no_channel_in_band',
    'gain_profile_normalised_partial', 'callSeq_unsaturated', 'callSeq_persists', 'callGains_history_free', 'callSeq_leaks_example', 'nf_stage_at_gmax_gmin',
    'nf_openroadm', 'nf_openroadm_preamp', 'multiCall_none_iff', 'multiCall_per_band', 'coil_pos_of_spread',
    'nf_stage_antitone', 'interp_const', 'dual_stage_limits', 'dual_stage_total_out_le_booster_pmax',
    'dual_stage_rejected_iff', 'flat_branch_total_gain', 'gain_profile_normalised_uniform_flat', 'secantStep_affine',
    'gain_profile_normalised_const_dgt', 'multiband_total_out_le_pmax_per_band')]
PARTIAL = ['gain_profile_normalised_partial: proved exact in three cases: flat configuration (gain_profile_flat), uniform '
           'input with gain excursion <= 0.05 dB (gain_profile_normalised_uniform_flat), constant dynamic gain tilt '
           'over the loaded channels with any input, within the code tolerance 1e-11 dB '
           '(gain_profile_normalised_const_dgt via secantStep_affine: the secant step is exact when the average gain '
           'is affine in the DGT scale). In general the average gain is a strictly convex log-sum-exp of the scale and '
           'one secant step only approximates the target: the profile is g1st - voa + dgt*x for one scalar x (proved) '
           'and the residual of the average gain is bounded by the monitor (0.02 dB), not by a theorem; when the '
           'channel gains differ by at most 0.05 dB the code skips the step altogether ("not enough ripple to consider '
           'calculation") and sets their arithmetic mean to the effective gain: the monitor then allows the excursion '
           'itself (every weighted mean of the gains lies in the same window)']
RULE = ('cases from one PRNG: (a) 66% amplifier crossings: an amplifier of a shipped library or of a generated '
        'library (variable/fixed gain, advanced polynomial with ripple, OpenROADM ila/preamp/booster, dual stage, '
        'custom bands/default configs), gain -5..40 dB, tilt in {0,+-1,+-2,random}, in/out VOA, 1-3 consecutive calls '
        'of the same object with spectra of 1-120 channels (one or two combs, mixed slot/baud, channels outside or '
        'straddling the amplifier band, prior noise share), total input -40..+25 dBm biased towards the saturation '
        'point; (a\') 6% Multiband_amplifier crossings (shipped multiband library, spectrum over both bands); (b) 12% NF '
        'shape of min/max-NF amplifiers at gmax, gmin, below gmin and sorted random gains; (c) 10% estimate_nf_model '
        'incl. rejected inputs (both branches, recomputed delta_p); (d) 6% library entries with missing/extra keys, '
        'each loaded entry then used in a crossing; 15% of (a) call the SAME object twice on the same grid with the same total '
        'power and tilt but the reversed power spread over the channels (two swapped channels when saturating); the NF of '
        'dual-stage types is judged against the cascade of the two stand-alone library stage entries. Non-trivial: (a) at least one channel kept and (>= 2 channels or '
        'saturated), (a\') >= 2 channels kept, (b)-(d) always; thorough tier adds the exhaustive corners of the stock library (19 amplifiers x 4 gains x '
        '3 loads x 3 channel counts x 2 tilts); distinct = distinct canonical JSON')
MODEL_SCOPE = ('modelled: Edfa.__call__/propagate/interpol_params (band filter, in_voa, total input power, clamp on the '
               'effective_gain attribute incl. its persistence across calls, slot_width rule), _calc_nf/_nf for all '
               'type_defs incl. dual_stage, noise_profile, _gain_profile (flat and tilted/ripple branches, polyfit as '
               'closed-form least squares), numpy linspace/interp/polyval, pout_db, output powers; '
               'estimate_nf_model; Amp.from_json key requirements; _update_dual_stage (p_max = booster stage, gain_flatmax = sum, '
               'stages = the two named entries, gain_min check). Not modelled: PMD/PDL accumulation (C05), ratio '
               'bookkeeping of add_ase (C01). Multiband_amplifier.__call__ is modelled as per-band Edfa calls whose '
               'outputs are merged by frequency')
TRUSTED = ['numpy.polyfit (SVD least squares) is compared against the closed-form least-squares slope within class F']

H = 6.62607015e-34
# Before repair 37e30883 Edfa.interpol_params clamped the `effective_gain` ATTRIBUTE with itself: the reduction of a hot
# spectrum stayed in force for later calls of the same object (fixed finding saturation-persists-across-calls; the class
# is kept so that a return of the defect is named). The model follows the code: every call clamps from the set gain.
GAIN_REDUCTION_PERSISTS = False
TILT_RESIDUAL_DB = 0.02


# ---------------------------------------------------------------------------------------------------------------------
# generator
# ---------------------------------------------------------------------------------------------------------------------

def gen(rng, tier, widen=False):
    k = rng.random()
    if k < 0.66:
        return gen_call(rng, tier, widen)
    if k < 0.72:
        return gen_multi(rng, tier, widen)
    if k < 0.84:
        return gen_nfshape(rng)
    if k < 0.94:
        return gen_estimate(rng, widen)
    return gen_fromjson(rng)


def gen_lib(rng):
    """a generated library: entries + extra configs + names usable as amplifiers"""
    entries, extra = [], {}
    n = rng.choice([2, 3, 4])
    for i in range(n):
        entries.append(amplib.vg_entry(rng, f'vg{i}'))
    entries.append(amplib.fg_entry(rng, 'fg0'))
    for i, kind in enumerate(['openroadm', 'openroadm_preamp', 'openroadm_booster']):
        entries.append(amplib.or_entry(rng, f'or{i}', kind))
    if rng.random() < 0.7:
        extra['adv0.json'] = amplib.adv_config(rng)
        entries.append(amplib.adv_entry(rng, 'adv0', 'adv0.json'))
    if rng.random() < 0.4:
        # variable/fixed gain amplifier with a user default configuration (own dgt / ripple / band)
        band = rng.choice([(amplib.C_FMIN, amplib.C_FMAX), (amplib.L_FMIN, amplib.L_FMAX),
                           (192_000_000_000_000, 195_000_000_000_000)])
        extra['def0.json'] = amplib.adv_config(rng, band[0], band[1])
        e = amplib.vg_entry(rng, 'vgcfg')
        e['default_config_from_json'] = 'def0.json'
        entries.append(e)
    if rng.random() < 0.3:
        e = amplib.vg_entry(rng, 'vgband')
        e['f_min'], e['f_max'] = float(amplib.L_FMIN), float(amplib.L_FMAX)
        entries.append(e)
    pre = rng.choice(['vg0', 'fg0', 'vg1'])
    boost = rng.choice([b for b in ('vg0', 'vg1', 'fg0', 'or2') if b != pre])
    amplib.split_pmax(rng, entries, pre, boost)
    entries.append(amplib.dual_entry(rng, 'dual0', pre, boost, gain_min=rng.choice([20, 25, 30])))
    if any(e['type_variety'] == 'adv0' for e in entries) and rng.random() < 0.5:
        entries.append(amplib.dual_entry(rng, 'dual1', 'adv0', 'vg0', gain_min=25))
    return {'edfa': entries, 'extra': extra}


def _retry_load(make, attempts):
    """generated libraries are loaded through the real loader; a draw the loader refuses is redrawn. Returns
    (lib, equipment, refused draws); all attempts refused = a defect of the generator (machinery), never a verdict"""
    for k in range(attempts):
        lib = make()
        try:
            return lib, load_lib(lib), k
        except Exception:  # noqa: BLE001 - counted, see 'gen_retries'
            continue
    raise RuntimeError(f'generator: {attempts} generated libraries in a row were refused by the loader')


def load_lib(lib):
    if 'shipped' in lib:
        return nets.eqpt(lib['shipped'])
    return amplib.load_doc(amplib.eqpt_doc(lib['edfa']), lib.get('extra'))


def gen_spectrum(rng, fmin, fmax, tier):
    """[[f, slot, baud]] sorted, non overlapping; partly outside / straddling the band [fmin, fmax]"""
    big = 120 if tier == 'thorough' else 96
    n = rng.choice([1, 1, 2, 2, 3, 5, 8, 24, 48, big])
    slot = rng.choice(amplib.SLOTS)
    mode = rng.random()
    step6 = 6_250_000_000
    if mode < 0.55:      # inside the band, first edge possibly exactly on f_min
        lead = rng.choice([0, 0, step6 * rng.randrange(0, 40)])
        chans = amplib.comb(rng, fmin, fmax, n, slot, lead)
    elif mode < 0.75:    # starts below / straddling the lower edge
        start = fmin - rng.choice([step6, 2 * step6, slot, 3 * slot, 10 * slot])
        chans = amplib.comb(rng, start, fmax + 20 * slot, n, slot, 0)
    elif mode < 0.92:    # ends above / straddling the upper edge
        start = fmax - max(1, n - rng.choice([0, 1, 2])) * slot - rng.choice([0, step6, 2 * step6])
        chans = amplib.comb(rng, start, fmax + 30 * slot, n, slot, 0)
    else:                # completely outside
        start = fmax + slot if rng.random() < 0.5 else fmin - (n + 2) * slot
        chans = amplib.comb(rng, start, start + (n + 1) * slot, n, slot, 0)
    if chans and rng.random() < 0.25:   # a second comb with another slot width / baud rate above the first
        slot2 = rng.choice(amplib.SLOTS)
        top = chans[-1][0] + chans[-1][1] // 2
        chans += amplib.comb(rng, top + rng.choice([0, step6, 25_000_000_000]), top + 40 * slot2,
                             rng.choice([1, 2, 6, 20]), slot2, 0)
    return chans


def gen_powers(rng, chans, oper, p_max, widen):
    n = max(1, len(chans))
    r = rng.random()
    if r < 0.35:       # around the saturation point
        ptot = p_max - oper['gain_target'] + (rng.uniform(-0.02, 0.02) if widen else rng.uniform(-4, 4))
    elif r < 0.45:     # deeply saturated
        ptot = rng.uniform(10, 25)
    else:
        ptot = rng.uniform(-40, 25)
    ptot = max(-40.0, min(25.0, ptot))
    flat = rng.random() < 0.5
    out = []
    for c in chans:
        out.append(c + [round(ptot - 10 * math.log10(n) + (0 if flat else rng.uniform(-3, 3)), 3)])
    return out


def gen_call(rng, tier, widen):
    retries = 0
    if rng.random() < 0.45:
        name = rng.choice(amplib.SHIPPED)
        lib = {'shipped': name}
        eq = nets.eqpt(name)
        cands = [n for n, a in eq['Edfa'].items() if a.type_def != 'multi_band']
    else:
        lib, eq, retries = _retry_load(lambda: gen_lib(rng), 20)
        cands = list(eq['Edfa'])
    duals = [n for n in cands if eq['Edfa'][n].type_def == 'dual_stage']
    amp = rng.choice(duals) if duals and rng.random() < 0.25 else rng.choice(cands)
    a = eq['Edfa'][amp]
    r = rng.random()
    if r < 0.5:
        gain = round(rng.uniform(a.gain_min - 6, a.gain_flatmax + 4), 2)
    elif r < 0.6:
        gain = rng.choice([a.gain_min, a.gain_flatmax, a.gain_min - 1, a.gain_flatmax + 2.5])
    else:
        gain = round(rng.uniform(-5, 40), 2)
    oper = {'gain_target': gain,
            'tilt_target': rng.choice([0, 0, 0, 0.0, 1, -1, 2, -2, round(rng.uniform(-2, 2), 2)]),
            'out_voa': rng.choice([0, 0, 0.0, 1, 2.5, round(rng.uniform(0, 4), 2)])}
    iv = rng.choice(['absent', 'absent', 0, 1.5, None, round(rng.uniform(0, 3), 2)])
    if iv != 'absent':
        oper['in_voa'] = iv
    calls = []
    if rng.random() < 0.15:
        # the SAME object twice on the same grid with the same total input power and tilt, but the power spread over the
        # channels the other way round (the gain profile depends on it): two channels swapped when saturating (a+b = b+a
        # exactly, so even the clamped gain is identical), a reversed power ramp over any comb otherwise
        oper['tilt_target'] = rng.choice([1, -1, 2, -2, 1.5])
        saturating = rng.random() < 0.4
        nmax_ = 2 if saturating else rng.choice([2, 3, 8, 24])
        chans = amplib.comb(rng, int(a.f_min), int(a.f_max), nmax_, None, 12_500_000_000 * rng.randrange(0, 20))
        ptot = a.p_max - gain + (rng.uniform(1, 5) if saturating else -rng.uniform(6, 25))
        n_ = max(1, len(chans))
        spread = rng.choice([6.0, 8.0, 10.0])
        ramp = [spread * (i / max(1, n_ - 1) - 0.5) for i in range(n_)]
        base = ptot - 10 * math.log10(sum(10 ** (r_ / 10) for r_ in ramp))
        pw = [round(base + r_, 3) for r_ in ramp]
        nz = rng.choice([0, 0.05])
        calls.append({'chans': [c + [x] for c, x in zip(chans, pw)], 'noise': nz})
        calls.append({'chans': [c + [x] for c, x in zip(chans, reversed(pw))], 'noise': nz})
    for _ in range(rng.choice([1, 1, 1, 1, 2, 2, 3]) if not calls else 0):
        chans = gen_spectrum(rng, int(a.f_min), int(a.f_max), tier)
        calls.append({'chans': gen_powers(rng, chans, oper, a.p_max, widen),
                      'noise': rng.choice([0, 0, 0.01, 0.2, round(rng.uniform(0, 0.5), 3)])})
    return {'kind': 'call', 'lib': lib, 'amp': amp, 'oper': oper, 'calls': calls, 'gen_retries': retries}


def gen_multi(rng, tier, widen):
    """a Multiband_amplifier of the shipped multiband library, one spectrum spanning both bands"""
    eq = nets.eqpt('eqpt_config_multiband.json')
    mnames = [n for n, a in eq['Edfa'].items() if a.type_def == 'multi_band']
    m = rng.choice(mnames)
    opers, chans = [], []
    members = sorted(eq['Edfa'][m].multi_band, key=lambda t: eq['Edfa'][t].f_min)
    # load pattern: random per band, or exactly ONE band driven into saturation while the other stays far below
    pattern = rng.choice(['random', 'random', 'first_saturates', 'last_saturates'])
    for k, t in enumerate(members):
        a = eq['Edfa'][t]
        oper = {'gain_target': round(rng.uniform(a.gain_min - 4, a.gain_flatmax + 3), 2),
                'tilt_target': rng.choice([0, 0, 1, -1, round(rng.uniform(-2, 2), 2)]),
                'out_voa': rng.choice([0, 1, 2.5])}
        opers.append({'type_variety': t, 'operational': oper})
        if pattern != 'random' or rng.random() < 0.85:
            spec = gen_spectrum(rng, int(a.f_min), int(a.f_max), tier)
            if pattern == 'random':
                chans += gen_powers(rng, spec, oper, a.p_max, widen)
            else:
                sat = (k == 0) == (pattern == 'first_saturates')
                ptot = a.p_max - oper['gain_target'] + (rng.uniform(0.5, 6) if sat else -rng.uniform(8, 20))
                ptot = max(-45.0, min(28.0, ptot))
                chans += [c + [round(ptot - 10 * math.log10(max(1, len(spec))), 3)] for c in spec]
    # drop overlaps between the two combs (a comb may run past its band)
    chans.sort(key=lambda c: c[0])
    clean = []
    for c in chans:
        if not clean or clean[-1][0] + clean[-1][1] // 2 <= c[0] - c[1] // 2:
            clean.append(c)
    return {'kind': 'multi', 'lib': {'shipped': 'eqpt_config_multiband.json'}, 'amp': m, 'amplifiers': opers,
            'chans': clean, 'noise': rng.choice([0, 0.05]), 'pattern': pattern}


def gen_nfshape(rng):
    retries = 0
    if rng.random() < 0.3:
        name = rng.choice(amplib.SHIPPED[:2])
        lib = {'shipped': name}
        eq = nets.eqpt(name)
        cands = [n for n, a in eq['Edfa'].items() if a.type_def == 'variable_gain']
        amp = rng.choice(cands)
    else:
        def one():
            e = amplib.vg_entry(rng, 'vg0')
            e['p_max'] = 30
            return {'edfa': [e], 'extra': {}}
        lib, eq, retries = _retry_load(one, 50)
        amp = 'vg0'
    a = eq['Edfa'][amp]
    gains = sorted(round(rng.uniform(a.gain_min - 8, a.gain_flatmax + 5), 2) for _ in range(rng.choice([3, 5, 8])))
    return {'kind': 'nfshape', 'lib': lib, 'amp': amp, 'gains': gains, 'gen_retries': retries}


def gen_estimate(rng, widen):
    e = amplib.vg_entry(rng, 'x', wild=rng.random() < 0.45)
    c = {'kind': 'estimate', 'gmin': e['gain_min'], 'gmax': e['gain_flatmax'], 'nfmin': e['nf_min'], 'nfmax': e['nf_max']}
    r = rng.random()
    if r < 0.05:
        c['nfmin'] = rng.choice([-10, -10.01, -11])
    elif r < 0.1:
        c['nfmax'] = rng.choice([-10, -10.5])
    elif r < 0.14:
        c['gmax'] = c['gmin']
    elif r < 0.18:
        c['nfmax'] = c['nfmin']
    return c


FROMJSON_KEYS = ['nf0', 'nf_min', 'nf_max', 'nf_coef', 'gain_min', 'gain_flatmax', 'advanced_config_from_json',
                 'default_config_from_json', 'preamp_variety', 'booster_variety', 'type_def']


def gen_fromjson(rng):
    kind = rng.choice(['variable_gain', 'fixed_gain', 'advanced_model', 'openroadm', 'openroadm_preamp',
                       'openroadm_booster', 'dual_stage', 'default', 'bogus'])
    if kind in ('variable_gain', 'default'):
        e = amplib.vg_entry(rng, 'x', wild=rng.random() < 0.3)
        if kind == 'default':
            del e['type_def']
        if rng.random() < 0.3:
            e['nf0'] = 5.0
        if rng.random() < 0.2:
            e['default_config_from_json'] = rng.choice(['cfg.json', 'missing.json'])
    elif kind == 'fixed_gain':
        e = amplib.fg_entry(rng, 'x')
        if rng.random() < 0.3:
            e['nf_min'], e['nf_max'] = 5, 8
        if rng.random() < 0.2:
            e['default_config_from_json'] = rng.choice(['cfg.json', 'missing.json'])
    elif kind == 'advanced_model':
        e = amplib.adv_entry(rng, 'x', rng.choice(['cfg.json', 'cfg.json', 'missing.json']))
    elif kind.startswith('openroadm'):
        e = amplib.or_entry(rng, 'x', kind)
    elif kind == 'dual_stage':
        e = amplib.dual_entry(rng, 'x', 'p0', 'b0', gain_min=rng.choice([12, 25]))
    else:
        e = amplib.fg_entry(rng, 'x')
        e['type_def'] = 'hybrid'
    if rng.random() < 0.5:
        for k in rng.sample(FROMJSON_KEYS, rng.choice([1, 1, 2])):
            if not (kind == 'dual_stage' and k == 'gain_min'):
                e.pop(k, None)
    return {'kind': 'fromjson', 'entry': e, 'cfg_seed': rng.randrange(1 << 30)}


# ---------------------------------------------------------------------------------------------------------------------
# run
# ---------------------------------------------------------------------------------------------------------------------

def run(case, drv):
    import warnings
    with warnings.catch_warnings(), np.errstate(all='ignore'):
        warnings.simplefilter('ignore')
        return _run(case, drv)


def _run(case, drv):
    res = _run_kind(case, drv)
    res.stats['generated_libraries_refused_by_loader_and_redrawn'] += case.get('gen_retries', 0)
    return res


def _run_kind(case, drv):
    return {'call': run_call, 'multi': run_multi, 'nfshape': run_nfshape, 'estimate': run_estimate, 'fromjson': run_fromjson}[
        case['kind']](case, drv)


def build_amp(case, oper):
    from gnpy.tools.json_io import network_from_json
    eq = load_lib(case['lib'])
    topo = {'elements': [nets.trx('A'), nets.edfa('amp', case['amp'], copy.deepcopy(oper)), nets.trx('B')],
            'connections': [nets.cx('A', 'amp'), nets.cx('amp', 'B')]}
    net = network_from_json(topo, eq)
    return nets.by_uid(net)['amp'], eq


def make_si(call):
    from gnpy.core.info import create_arbitrary_spectral_information
    ch = call['chans']
    pw = [10 ** ((c[3] - 30) / 10) for c in ch]
    si = create_arbitrary_spectral_information([float(c[0]) for c in ch], pch=pw, baud_rate=[c[2] for c in ch],
                                               tx_osnr=40.0, tx_power=pw, slot_width=[float(c[1]) for c in ch],
                                               label='x')
    if call.get('noise'):
        si.add_ase(si.pch * call['noise'])
        si.add_nli(si.pch * call['noise'] / 2)
    return si


def nf_list(xs):
    return [float(x) for x in xs]


def cmp_nf(res, fn, impl, model):
    """NF vectors may contain -inf (OpenROADM booster)"""
    impl, model = nf_list(impl), nf_list(model)
    res.compared += max(1, len(impl))
    ok = len(impl) == len(model) and all(
        (a == b) if (math.isinf(a) or math.isinf(b)) else abs(a - b) <= 1e-9 * max(1.0, abs(a)) for a, b in zip(impl, model))
    if not ok:
        res.mismatch(fn, impl[:6], model[:6])
    return ok


def run_call(case, drv):
    res = Result()
    oper = case['oper']
    amp, eq = build_amp(case, oper)
    p = amp.params
    fmin, fmax = int(p.f_min), int(p.f_max)
    # limits by the statement, from the library document: a dual-stage type saturates at its BOOSTER stage's p_max
    raw = amplib.raw_entries(case['lib'])
    entry = raw[case['amp']]
    limits = None
    if p.type_def == 'dual_stage':
        pre_e, boost_e = raw[entry['preamp_variety']], raw[entry['booster_variety']]
        pmax_ref = float(boost_e['p_max'])
        md = drv.ask('c04.dual', pre=amplib.limits_json(pre_e), boost=amplib.limits_json(boost_e),
                     gain_min=f2b(entry['gain_min']))
        if 'error' in md:
            res.mismatch('_update_dual_stage.accepts', 'loaded', md['error'])
        else:
            limits = (b2f(md['p_max']), b2f(md['gain_flatmax']))
            res.cmp_exact('_update_dual_stage.p_max', f2b(p.p_max), md['p_max'])
            res.cmp_exact('_update_dual_stage.gain_flatmax', f2b(p.gain_flatmax), md['gain_flatmax'])
            res.cmp_exact('_update_dual_stage.gain_min', f2b(p.gain_min), md['gain_min'])
        res.stats['dual_preamp_pmax_' + ('higher' if pre_e['p_max'] > boost_e['p_max'] else
                                          'lower' if pre_e['p_max'] < boost_e['p_max'] else 'equal')] += 1
    else:
        pmax_ref = float(entry['p_max'])
    sis = [make_si(c) for c in case['calls'] if c['chans']]
    calls = [c for c in case['calls'] if c['chans']]
    model_calls = [[[c[0], c[1], f2b(c[2]), f2b(pw)] for c, pw in zip(call['chans'], si.pch)]
                   for call, si in zip(calls, sis)]
    in_voa = oper.get('in_voa', 0)
    ans = drv.ask('c04.call', amp=amplib.amp_json(p, eq, limits),
                  oper={'gain': f2b(oper['gain_target']), 'tilt': f2b(oper['tilt_target']),
                        'in_voa': None if in_voa is None else f2b(in_voa), 'out_voa': f2b(oper['out_voa'])},
                  calls=model_calls, persist=GAIN_REDUCTION_PERSISTS)
    set_gain = float(oper['gain_target'])
    eff_hist = []
    prev_eff = set_gain
    kept_any = saturated = False
    flat_cfg = (float(oper['tilt_target']) == 0.0 and not np.any(np.asarray(p.gain_ripple, dtype=float)))
    for ci, (call, si, m) in enumerate(zip(calls, sis, ans)):
        ch = call['chans']
        pin_all = si.pch.copy()
        sig_in = (si._signal_ratio * si.pch).copy()
        ase_in = (si._ase_ratio * si.pch).copy()
        try:
            out = amp(si)
            impl_err = None
        except ValueError as e:
            out, impl_err = None, err_kind(e)
        # ---------------- correspondence
        res.cmp_exact('Edfa.__call__.rejects', impl_err, None if m is not None else 'ValueError', call=ci)
        # ---------------- band filter: the exact drop rule (slot entirely inside the band) is under correspondence; the
        # monitor judges what the statement says: no out-of-band (or straddling) channel comes out amplified
        keep = [i for i, c in enumerate(ch) if 2 * c[0] - c[1] >= 2 * fmin and 2 * c[0] + c[1] <= 2 * fmax]
        if out is None:
            res.stats['calls_no_channel_in_band'] += 1
            continue
        got_f = [int(round(float(f))) for f in out.frequency]
        inband = {ch[i][0] for i in keep}
        pin_by_f = {c[0]: float(pw) for c, pw in zip(ch, pin_all)}
        leaked = [f for f, pw in zip(got_f, out.pch) if f not in inband and float(pw) > pin_by_f.get(f, 0.0)]
        if leaked:
            res.fail(f'band filter: call {ci}: {len(leaked)} channel(s) outside the amplifier band (e.g. {leaked[0]} Hz) come out '
                     'amplified')
        if got_f != [ch[i][0] for i in keep]:
            res.cmp_exact('Edfa.kept_frequencies', got_f, [ch[i][0] for i in keep], call=ci)
            continue
        if m is None:
            continue
        kept_any = True
        n = len(keep)
        mm = {k: ([b2f(x) for x in v] if isinstance(v, list) and k != 'kept' else v) for k, v in m.items()}
        res.cmp_exact('Edfa.kept_frequencies', got_f, m['kept'], call=ci)
        res.cmp_float('Edfa.pin_db', amp.pin_db, b2f(m['pin_db']), abs_=1e-9, call=ci)
        res.cmp_float('Edfa.effective_gain', amp.effective_gain, b2f(m['eff']), abs_=1e-9, call=ci)
        res.cmp_float('Edfa.att_in', amp.att_in, b2f(m['att_in']), abs_=1e-9, call=ci)
        cmp_nf(res, 'Edfa.nf', amp.nf, mm['nf'])
        res.cmp_floats('Edfa.noise_profile', amp.noise_profile(out), mm['ase'], rel=1e-9, abs_=1e-40, call=ci)
        if b2f(m['margin']) < 1e-6:
            res.ill += 1
        else:
            res.cmp_floats('Edfa.gprofile', np.broadcast_to(amp.gprofile, (len(mm['gprofile']),)), mm['gprofile'],
                           rel=1e-9, abs_=2e-9, call=ci)
            res.cmp_floats('Edfa.out.pch', out.pch, mm['pch'], rel=2e-9, abs_=1e-40, call=ci)
            res.cmp_float('Edfa.pout_db', amp.pout_db, b2f(m['pout_db']), abs_=2e-9, call=ci)
        # ---------------- monitor: the statement, own arithmetic
        att = 1.0 if in_voa is None else 10 ** (-in_voa / 10)
        p_in = [float(pin_all[i]) * att for i in keep]
        ptot = math.fsum(p_in)
        pin_db = 10 * math.log10(ptot * 1e3)
        eff = float(amp.effective_gain)
        need = min(set_gain, pmax_ref - pin_db)
        if ci == 0:
            if abs(eff - need) > 1e-9:
                res.fail(f'effective gain: {eff} applied, set gain {set_gain}, p_max-pin = {pmax_ref - pin_db}: the set '
                         'gain must be reduced exactly as far as needed', call=ci)
        elif abs(eff - need) > 1e-9:
            # a later call of the same Edfa object. The statement holds for every input spectrum: the gain is the set gain
            # reduced only as far as THIS spectrum needs. Known finding: `effective_gain = min(self.effective_gain, ...)`
            # keeps the reduction of an earlier, hotter spectrum; its class applies exactly when an earlier call of this
            # object saturated more and the gain applied now is that earlier gain (still respecting p_max)
            persisted = (prev_eff < need - 1e-9 and abs(eff - min(prev_eff, pmax_ref - pin_db)) <= 1e-9)
            res.fail(f'effective gain: {eff} applied on call {ci + 1} of the same amplifier, set gain {set_gain}, p_max-pin = '
                     f'{pmax_ref - pin_db}: must be {need}' + (f' (the reduction to {prev_eff} of an earlier call persists)'
                                                               if persisted else ''),
                     cls='saturation-persists-across-calls' if persisted else 'unlisted', call=ci)
        sat_now = eff < prev_eff - 1e-12 or (ci == 0 and eff < set_gain - 1e-12)
        saturated = saturated or sat_now
        prev_eff = eff
        # per channel gain seen by the signal share (independent of Edfa.gprofile)
        sig_out = out._signal_ratio * out.pch
        ase_out = out._ase_ratio * out.pch
        ov = float(oper['out_voa'])
        g_lin = [float(sig_out[j]) / (float(sig_in[i]) * att) * 10 ** (ov / 10) for j, i in enumerate(keep)]
        g_db = [10 * math.log10(g) for g in g_lin]
        amplified_in = math.fsum(pi * g for pi, g in zip(p_in, g_lin))
        tot_gain = 10 * math.log10(amplified_in / ptot)
        tol_db = 1e-7 if (flat_cfg or n == 1) else TILT_RESIDUAL_DB
        excursion = max(g_db) - min(g_db)
        if not (flat_cfg or n == 1) and excursion <= 0.05 + 1e-9 and min(g_db) - 1e-9 <= eff <= max(g_db) + 1e-9:
            # the algorithm's stated accuracy ("not enough ripple to consider calculation", |max - min| <= 0.05 dB): it then
            # sets the arithmetic mean of the channel gains to the effective gain; the power-weighted total gain lies inside
            # the same window, so it differs from the effective gain by at most the excursion itself
            tol_db = max(tol_db, excursion)
            res.stats['tilt_residual_bounded_by_flatness_window'] += 1
        if abs(tot_gain - eff) > tol_db:
            res.fail(f'total gain: total incoming power raised by {tot_gain:.6f} dB, effective gain {eff:.6f} dB '
                     f'(tolerance {tol_db})', call=ci)
        if 10 * math.log10(amplified_in * 1e3) > pmax_ref + tol_db:
            res.fail(f'p_max: amplified incoming power {10 * math.log10(amplified_in * 1e3):.6f} dBm exceeds p_max '
                     f'{pmax_ref}', call=ci)
        if flat_cfg or n == 1:
            worst = max(abs(g - eff) for g in g_db)
            if worst > 1e-7:
                res.fail(f'flat gain: no tilt/ripple but a channel gain differs from the effective gain by {worst} dB', call=ci)
        if not (flat_cfg or n == 1):
            r_ = abs(tot_gain - eff)
            res.stats['tilt_residual_' + ('lt_1e-6dB' if r_ < 1e-6 else 'lt_1e-3dB' if r_ < 1e-3 else 'lt_5e-3dB' if r_ < 5e-3
                                          else 'lt_0.02dB' if r_ < 0.02 else 'ge_0.02dB')] += 1
        # NF follows the configured model (own evaluation), ASE = h f B NF referred to the input
        slot_w = (ch[keep[1]][0] - ch[keep[0]][0]) if n > 1 else ch[keep[0]][1]
        nf_avg, _pad = amplib.mon_nf(p, eff, pin_db, n, float(slot_w), eq=eq)
        # OpenROADM masks are given per 50 GHz: on a comb whose slot widths / spacings are not all equal the statement
        # does not say which width rescales the input power -> the NF of such a crossing is under correspondence only
        uniform = all(ch[i][1] == ch[keep[0]][1] for i in keep) and all(
            ch[b_][0] - ch[a_][0] == ch[keep[0]][1] for a_, b_ in zip(keep, keep[1:]))
        tdefs = [p.type_def] if p.type_def != 'dual_stage' else [p.preamp_type_def, p.booster_type_def]
        nf_by_correspondence = (not uniform) and any(t in ('openroadm', 'openroadm_preamp') for t in tdefs)
        res.stats['openroadm_nonuniform_comb_nf_by_correspondence'] += int(nf_by_correspondence)
        if p.type_def == 'dual_stage':
            pre_, boost_ = (eq['Edfa'][n_] for n_ in amplib.dual_names(p))
            res.stats['dual_stage_booster_below_its_min_gain'] += int(eff - pre_.gain_flatmax < boost_.gain_min)
            res.stats['dual_stage_stage_min_gains_differ'] += int(pre_.gain_min != boost_.gain_min)
        ripple = np.interp([float(ch[i][0]) for i in keep], np.linspace(p.f_min, p.f_max, len(p.nf_ripple)),
                           np.asarray(p.nf_ripple, dtype=float))
        nf_impl = np.broadcast_to(np.asarray(amp.nf, dtype=float), (n,))
        for j, i in enumerate(keep):
            got_nf = float(nf_impl[j])
            exp_nf = got_nf if nf_by_correspondence else nf_avg + float(ripple[j])
            if not ((math.isinf(exp_nf) and exp_nf == got_nf) or abs(exp_nf - got_nf) <= 1e-7):
                res.fail(f'NF model: channel {j} NF {got_nf} dB, configured model ({p.type_def}) gives {exp_nf} dB',
                         call=ci)
                break
            exp_ase = H * ch[i][0] * ch[i][2] * (0.0 if math.isinf(exp_nf) else 10 ** (exp_nf / 10))
            glin_o = g_lin[j] * 10 ** (-ov / 10)
            got_ase = float(ase_out[j]) / glin_o - float(ase_in[i]) * att
            if abs(got_ase - exp_ase) > 1e-7 * (exp_ase + float(ase_in[i]) * att) + 1e-30:
                res.fail(f'ASE: channel {j} received {got_ase} W referred to the input, h*f*B*NF = {exp_ase} W', call=ci)
                break
            exp_out = (p_in[j] + exp_ase) * glin_o
            if abs(float(out.pch[j]) - exp_out) > 1e-7 * exp_out:
                res.fail(f'output power: channel {j} leaves with {float(out.pch[j])} W, (p+ase)*gain/voa = {exp_out} W',
                         call=ci)
                break
        res.stats.update({'calls': 1, 'channels_in': len(ch), 'channels_kept': n, 'channels_dropped': len(ch) - n,
                          'saturated_calls': int(sat_now),
                          'single_channel_calls': int(n == 1), 'tilted_or_ripple_calls': int(not flat_cfg and n > 1),
                          'padded_calls': int(float(amp.att_in) > 0), f'typedef_{p.type_def}': 1,
                          'later_calls': int(ci > 0), 'with_prior_noise': int(bool(call.get('noise'))),
                          'dual_stage_saturated_calls': int(sat_now and p.type_def == 'dual_stage'),
                          'same_grid_same_gain_other_power_spread': int(
                              ci > 0 and [c[:3] for c in ch] == [c[:3] for c in calls[ci - 1]['chans']]
                              and bool(eff_hist) and abs(eff - eff_hist[-1]) < 1e-12 and not flat_cfg)})
        eff_hist.append(eff)
    res.nontrivial = kept_any and (saturated or any(len(c['chans']) >= 2 for c in calls))
    res.stats.update({'call_cases': 1, 'lib_shipped': int('shipped' in case['lib'])})
    return res


def run_multi(case, drv):
    from gnpy.tools.json_io import network_from_json
    res = Result()
    if not case['chans']:
        return res
    eq = load_lib(case['lib'])
    el = {'uid': 'amp', 'type': 'Multiband_amplifier', 'type_variety': case['amp'],
          'amplifiers': copy.deepcopy(case['amplifiers']), 'metadata': nets.loc()}
    topo = {'elements': [nets.trx('A'), el, nets.trx('B')], 'connections': [nets.cx('A', 'amp'), nets.cx('amp', 'B')]}
    node = nets.by_uid(network_from_json(topo, eq))['amp']
    si = make_si({'chans': case['chans'], 'noise': case['noise']})
    ch = case['chans']
    pin_all = si.pch.copy()
    sig_in = (si._signal_ratio * si.pch).copy()
    ase_in = (si._ase_ratio * si.pch).copy()
    amps = list(node.amplifiers.values())
    try:
        out = node(si)
        impl_err = None
    except ValueError as e:
        out, impl_err = None, err_kind(e)
    ans = drv.ask('c04.multi', amps=[amplib.amp_json(a.params) for a in amps],
                  opers=[{'gain': f2b(a.operational.gain_target), 'tilt': f2b(a.operational.tilt_target),
                          'in_voa': f2b(a.operational.in_voa), 'out_voa': f2b(a.operational.out_voa)} for a in amps],
                  chans=[[c[0], c[1], f2b(c[2]), f2b(pw)] for c, pw in zip(ch, pin_all)])
    res.cmp_exact('Multiband_amplifier.rejects', impl_err, ans.get('error'))
    bands = [(int(a.params.f_min), int(a.params.f_max)) for a in amps]
    keep = [i for i, c in enumerate(ch) if any(2 * c[0] - c[1] >= 2 * lo and 2 * c[0] + c[1] <= 2 * hi for lo, hi in bands)]
    if out is None:
        if keep:
            res.fail(f'band filter: multiband amplifier rejected a spectrum with {len(keep)} channels inside its bands')
        res.stats['multi_rejected'] += 1
        return res
    got_f = [int(round(float(f))) for f in out.frequency]
    if got_f != [ch[i][0] for i in keep]:
        res.fail(f'band filter: multiband amplifier kept {len(got_f)} channels, {len(keep)} lie inside one of its bands')
        return res
    if 'outs' in ans:
        model = {}
        for o in ans['outs']:
            if o is not None:
                for f, pw in zip(o['kept'], o['pch']):
                    model[f] = b2f(pw)
        res.cmp_exact('Multiband_amplifier.kept_frequencies', got_f, sorted(model))
        if got_f == sorted(model):
            res.cmp_floats('Multiband_amplifier.out.pch', out.pch, [model[f] for f in got_f], rel=2e-9, abs_=1e-40)
        for a, o in zip(amps, ans['outs']):
            if o is not None:
                res.cmp_float('Multiband_amplifier.amp.effective_gain', a.effective_gain, b2f(o['eff']), abs_=1e-9)
    # monitor: each band's amplifier clamps on the power of its own band
    sig_out = out._signal_ratio * out.pch
    band_sat = []
    for a in amps:
        lo, hi = int(a.params.f_min), int(a.params.f_max)
        idx = [i for i in keep if 2 * ch[i][0] - ch[i][1] >= 2 * lo and 2 * ch[i][0] + ch[i][1] <= 2 * hi]
        if not idx:
            continue
        ptot = math.fsum(float(pin_all[i]) for i in idx)
        need = min(float(a.operational.gain_target), a.params.p_max - 10 * math.log10(ptot * 1e3))
        band_sat.append(float(a.effective_gain) < float(a.operational.gain_target) - 1e-12)
        if abs(float(a.effective_gain) - need) > 1e-9:
            res.fail(f'effective gain: band amplifier {a.params.type_variety} applies {a.effective_gain}, '
                     f'min(set gain, p_max - power of its band) = {need}')
        flat = float(a.operational.tilt_target) == 0.0
        # NF of the band amplifier follows its model at the load of ITS band; ASE = h f B NF referred to its input
        ase_out = out._ase_ratio * out.pch
        slot_w = (ch[idx[1]][0] - ch[idx[0]][0]) if len(idx) > 1 else ch[idx[0]][1]
        nf_avg, _ = amplib.mon_nf(a.params, float(a.effective_gain), 10 * math.log10(ptot * 1e3), len(idx), float(slot_w))
        rip = np.interp([float(ch[i][0]) for i in idx], np.linspace(a.params.f_min, a.params.f_max, len(a.params.nf_ripple)),
                        np.asarray(a.params.nf_ripple, dtype=float))
        nf_band = np.broadcast_to(np.asarray(a.nf, dtype=float), (len(idx),))
        for k_, i in enumerate(idx):
            j = keep.index(i)
            exp_nf = nf_avg + float(rip[k_])
            if abs(float(nf_band[k_]) - exp_nf) > 1e-7:
                res.fail(f'NF model: band amplifier {a.params.type_variety} channel {k_} NF {float(nf_band[k_])} dB, its model '
                         f'gives {exp_nf} dB')
                break
            glin_o = float(sig_out[j]) / float(sig_in[i])
            got_ase = float(ase_out[j]) / glin_o - float(ase_in[i])
            exp_ase = H * ch[i][0] * ch[i][2] * 10 ** (exp_nf / 10)
            if abs(got_ase - exp_ase) > 1e-7 * (exp_ase + float(ase_in[i])) + 1e-30:
                res.fail(f'ASE: band amplifier {a.params.type_variety} channel {k_} received {got_ase} W referred to the input, '
                         f'h*f*B*NF = {exp_ase} W')
                break
        for i in idx:
            j = keep.index(i)
            g = 10 * math.log10(float(sig_out[j]) / float(sig_in[i])) + float(a.operational.out_voa)
            if (flat or len(idx) == 1) and abs(g - float(a.effective_gain)) > 1e-7:
                res.fail(f'flat gain: channel at {ch[i][0]} Hz gained {g} dB in band amplifier {a.params.type_variety} '
                         f'whose effective gain is {a.effective_gain}')
                break
    res.nontrivial = len(keep) >= 2
    res.stats.update({'multi_cases': 1, 'multi_one_band_saturated_other_not': int(len(band_sat) == 2 and band_sat[0] != band_sat[1]),
                      'multi_both_bands_saturated': int(len(band_sat) == 2 and all(band_sat)), 'multi_channels_kept': len(keep), 'multi_channels_dropped': len(ch) - len(keep)})
    return res


def run_nfshape(case, drv):
    res = Result()
    gains = list(case['gains'])
    amp0, eq = build_amp(case, {'gain_target': 0, 'tilt_target': 0, 'out_voa': 0})
    a = eq['Edfa'][case['amp']]
    gmin, gmax = float(a.gain_min), float(a.gain_flatmax)
    nf_min, nf_max = float(a.nf_model.orig_nf_min), float(a.nf_model.orig_nf_max)
    probe = sorted(set(gains + [gmin, gmax]))
    comb = [[193_000_000_000_000 + i * 50_000_000_000, 50_000_000_000, 32e9, -45.0] for i in range(4)]
    if not (amp0.params.f_min <= comb[0][0] - 25e9 and comb[-1][0] + 25e9 <= amp0.params.f_max):
        c0 = int(amp0.params.f_min) + 100_000_000_000
        comb = [[c0 + i * 50_000_000_000, 50_000_000_000, 32e9, -45.0] for i in range(4)]
    nf = {}
    for g in probe:
        amp, _ = build_amp(case, {'gain_target': g, 'tilt_target': 0, 'out_voa': 0})
        amp(make_si({'chans': comb}))
        nf[g] = float(np.broadcast_to(amp.nf, (4,))[0])
        if abs(float(amp.effective_gain) - float(g)) > 1e-9:
            res.fail(f'effective gain: unsaturated amplifier applies {amp.effective_gain} instead of the set gain {g}')
        m = drv.ask('c04.nf', nf=amplib.nf_json(amp.params), gain=f2b(g), pin_db=f2b(amp.pin_db), nch=f2b(4.0),
                    slot_width=f2b(50e9))
        res.cmp_float('Edfa._calc_nf', nf[g], b2f(m['nf']), abs_=1e-9, gain=g)
        res.cmp_float('Edfa.att_in', amp.att_in, b2f(m['att_in']), abs_=1e-9, gain=g)
    # ---- monitor: the NF shape the statement gives for min/max-NF amplifiers
    if abs(nf[gmax] - nf_min) > 0.01 + 1e-9:
        res.fail(f'NF shape: NF at maximum flat gain {gmax} is {nf[gmax]}, nf_min = {nf_min}')
    if abs(nf[gmin] - nf_max) > 0.01 + 1e-9:
        res.fail(f'NF shape: NF at minimum gain {gmin} is {nf[gmin]}, nf_max = {nf_max}')
    for g1, g2 in zip(probe, probe[1:]):
        if nf[g2] > nf[g1] + 1e-9:
            res.fail(f'NF shape: NF increases with gain: nf({g1})={nf[g1]} < nf({g2})={nf[g2]}')
            break
    for g in probe:
        if g < gmin and abs(nf[g] - (nf[gmin] + (gmin - g))) > 1e-9:
            res.fail(f'NF shape: below minimum gain NF must grow dB for dB: nf({g})={nf[g]}, '
                     f'nf(gmin)+gmin-g={nf[gmin] + gmin - g}')
            break
    res.nontrivial = True
    res.stats.update({'nfshape_cases': 1, 'nfshape_probes': len(probe), 'nfshape_below_gmin': sum(g < gmin for g in probe),
                      'nfshape_above_gmax': sum(g > gmax for g in probe)})
    return res


def _est_code(msg):
    for pat, code in (('Invalid nf_min', 'nf_min'), ('Invalid nf_max', 'nf_max'), ('First coil', 'first_coil'),
                      ('Computed', 'delta_p'), ('nf_min does not match', 'calc_nf_min'),
                      ('nf_max does not match', 'calc_nf_max')):
        if pat in msg:
            return code
    return 'other:' + msg[:40]


def run_estimate(case, drv):
    from gnpy.core.science_utils import estimate_nf_model
    from gnpy.core.exceptions import EquipmentConfigError
    res = Result()
    args = (case['gmin'], case['gmax'], case['nfmin'], case['nfmax'])
    with np.errstate(all='ignore'):
        try:
            nf1, nf2, dp = estimate_nf_model('x', *args)
            impl = ('ok', float(nf1), float(nf2), float(dp))
        except EquipmentConfigError as e:
            impl = ('err', _est_code(str(e)))
        except ZeroDivisionError:
            impl = ('err', 'ZeroDivisionError')
    m = drv.ask('c04.estimate', gmin=f2b(args[0]), gmax=f2b(args[1]), nfmin=f2b(args[2]), nfmax=f2b(args[3]))
    margin = b2f(m['margin'])
    if margin < 1e-6 or math.isnan(margin):
        res.ill += 1
    elif 'err' in m:
        res.cmp_exact('estimate_nf_model.outcome', impl[:2], ('err', m['err']))
    else:
        res.cmp_exact('estimate_nf_model.outcome', impl[0], 'ok')
        if impl[0] == 'ok':
            res.cmp_floats('estimate_nf_model', impl[1:], [b2f(m['nf1']), b2f(m['nf2']), b2f(m['delta_p'])], abs_=1e-9)
    # monitor: an accepted model reproduces the datasheet values at the two ends of the gain range
    if impl[0] == 'ok':
        nf1, nf2, dp = impl[1:]
        gmin, gmax, nfmin, nfmax = map(float, args)

        def nfv(g):
            dg = max(gmax - g, 0)
            return 10 * math.log10(10 ** (nf1 / 10) + 10 ** (nf2 / 10) / 10 ** ((g - dp - dg) / 10))
        if abs(nfv(gmax) - nfmin) > 0.01 + 1e-9 or abs(nfv(gmin) - nfmax) > 0.01 + 1e-9:
            res.fail(f'NF shape: accepted model gives nf(gmax)={nfv(gmax)}, nf(gmin)={nfv(gmin)} for datasheet '
                     f'nf_min={nfmin}, nf_max={nfmax}')
    res.nontrivial = True
    res.stats.update({'estimate_cases': 1, f'estimate_{impl[0]}' + ('' if impl[0] == 'ok' else '_' + impl[1]): 1,
                      'estimate_clipped_branch': int(bool(m.get('clipped')))})
    return res


def run_fromjson(case, drv):
    import random
    res = Result()
    e = copy.deepcopy(case['entry'])
    cfg = amplib.adv_config(random.Random(case['cfg_seed']))
    entries = [e]
    if e.get('type_def') == 'dual_stage':
        r2 = random.Random(case['cfg_seed'] + 1)
        p0, b0 = amplib.fg_entry(r2, 'p0'), amplib.fg_entry(r2, 'b0')
        p0['gain_min'], p0['gain_flatmax'] = 15, 20
        p0['p_max'] = b0['p_max'] + r2.choice([-4, -2, 3, 5])
        entries += [p0, b0]
    try:
        eq = amplib.load_doc(amplib.eqpt_doc(entries), {'cfg.json': cfg})
        amp = eq['Edfa']['x']
        impl = ('ok', type(amp.nf_model).__name__)
    except Exception as ex:  # noqa: BLE001  (the kind is compared)
        impl = ('err', err_kind(ex))
        amp = None
    td = e.get('type_def')
    est = None
    skip_cmp = False
    if td in (None, 'variable_gain') and all(k in e for k in ('gain_min', 'gain_flatmax', 'nf_min', 'nf_max')):
        me = drv.ask('c04.estimate', gmin=f2b(e['gain_min']), gmax=f2b(e['gain_flatmax']), nfmin=f2b(e['nf_min']),
                     nfmax=f2b(e['nf_max']))
        if b2f(me['margin']) < 1e-6:
            res.ill += 1
            skip_cmp = True        # only the comparison is skipped, the monitor below still runs
        if 'err' in me:
            est = 'ZeroDivisionError' if me['err'] == 'ZeroDivisionError' else 'EquipmentConfigError'
    cfgname = e.get('advanced_config_from_json', e.get('default_config_from_json'))
    m = drv.ask('c04.fromjson', type_def=td, keys=sorted(e.keys()), has_cfg=(cfgname == 'cfg.json'), est=est,
                dual_gain_mins=(fl([e['gain_min'], 15]) if td == 'dual_stage' else None))
    want = {'variable_gain': 'Model_vg', 'fixed_gain': 'Model_fg', 'openroadm': 'Model_openroadm_ila',
            'openroadm_preamp': 'Model_openroadm_preamp', 'openroadm_booster': 'Model_openroadm_booster',
            'advanced_model': 'NoneType', 'dual_stage': 'NoneType'}
    model = ('ok', want[m['ok']]) if 'ok' in m else ('err', m['err'])
    if not skip_cmp:
        res.cmp_exact('Amp.from_json.outcome', impl, model)
    if amp is not None and td == 'dual_stage':
        md = drv.ask('c04.dual', pre=amplib.limits_json(entries[1]), boost=amplib.limits_json(entries[2]),
                     gain_min=f2b(e['gain_min']))
        res.cmp_exact('_update_dual_stage.limits', [f2b(amp.p_max), f2b(amp.gain_flatmax), f2b(amp.gain_min)],
                      [md.get('p_max'), md.get('gain_flatmax'), md.get('gain_min')])
        # monitor: the dual-stage type delivers the booster stage's power and the sum of both gains
        if amp.p_max != entries[2]['p_max'] or amp.gain_flatmax != entries[1]['gain_flatmax'] + entries[2]['gain_flatmax']:
            res.fail(f'dual stage limits: loaded p_max {amp.p_max} / gain_flatmax {amp.gain_flatmax}, booster p_max '
                     f'{entries[2]["p_max"]}, stage gains {entries[1]["gain_flatmax"]} + {entries[2]["gain_flatmax"]}')
    # monitor: the NF definition built is the one the entry's type_def names (default: variable_gain) and the loaded
    # amplifier applies it: a crossing with an unsaturating 2-channel comb yields the NF of that model
    if amp is not None:
        # (which Python class holds the NF definition is an implementation detail: compared above, not judged here)
        if type(amp.nf_model).__name__ != want[td or 'variable_gain']:
            pass
        elif ((td or 'variable_gain') in ('variable_gain', 'fixed_gain', 'openroadm', 'openroadm_preamp', 'advanced_model')
              and all(k in e for k in ('gain_flatmax', 'gain_min', 'p_max'))):
            from gnpy.tools.json_io import network_from_json
            from gnpy.core.exceptions import EquipmentConfigError
            g = float(e.get('gain_flatmax', 20))
            topo = {'elements': [nets.trx('A'), nets.edfa('amp', 'x', {'gain_target': g, 'tilt_target': 0, 'out_voa': 0}),
                                 nets.trx('B')], 'connections': [nets.cx('A', 'amp'), nets.cx('amp', 'B')]}
            el = nets.by_uid(network_from_json(topo, eq))['amp']
            f0 = int(el.params.f_min) + 500_000_000_000
            comb = [[f0 + i * 50_000_000_000, 50_000_000_000, 32e9, -40.0] for i in range(2)]
            try:
                el(make_si({'chans': comb}))
                ptot = 2 * 10 ** (-7.0)
                tdef = td or 'variable_gain'
                exp_nf, _ = amplib.mon_stage_nf(tdef, el.params.nf_model, el.params.nf_fit_coeff, el.params.gain_min,
                                                el.params.gain_flatmax, g, 10 * math.log10(ptot * 1e3), 2, 50e9)
                ripple = np.interp([float(c[0]) for c in comb], np.linspace(el.params.f_min, el.params.f_max,
                                                                           len(el.params.nf_ripple)),
                                   np.asarray(el.params.nf_ripple, dtype=float))
                got = np.broadcast_to(np.asarray(el.nf, dtype=float), (2,))
                if abs(float(got[0]) - (exp_nf + float(ripple[0]))) > 1e-6:
                    res.fail(f'NF model: loaded {tdef} entry gives NF {float(got[0])}, its model gives {exp_nf + float(ripple[0])}')
            except EquipmentConfigError as ex:
                res.fail(f'NF model: entry loaded with the {td or "default variable_gain"} NF model cannot be '
                         f'used: {ex}')
    res.nontrivial = True
    res.stats.update({'fromjson_cases': 1, f'fromjson_{impl[0]}_{impl[1]}': 1})
    return res


# ---------------------------------------------------------------------------------------------------------------------
# exhaustive small scope (thorough tier): every amplifier of the stock library at the corners of its range
# ---------------------------------------------------------------------------------------------------------------------

def exhaustive():
    eq = nets.eqpt('eqpt_config.json')
    for name, a in eq['Edfa'].items():
        if a.type_def == 'multi_band':
            continue
        f0 = int(a.f_min) + 25_000_000_000
        for gain in (a.gain_min - 1, a.gain_min, a.gain_flatmax, a.gain_flatmax + 2.5):
            for nch in (1, 2, 5):
                for ptot in (-30.0, a.p_max - gain, a.p_max - gain + 3):
                    chans = [[f0 + i * 50_000_000_000, 50_000_000_000, 32e9, round(ptot - 10 * math.log10(nch), 6)]
                             for i in range(nch)]
                    for tilt in (0, -1):
                        yield {'kind': 'call', 'lib': {'shipped': 'eqpt_config.json'}, 'amp': name,
                               'oper': {'gain_target': gain, 'tilt_target': tilt, 'out_voa': 0},
                               'calls': [{'chans': chans, 'noise': 0}]}


# ---------------------------------------------------------------------------------------------------------------------
# shrinking
# ---------------------------------------------------------------------------------------------------------------------

def shrink_candidates(case):
    if case['kind'] == 'call':
        if len(case['calls']) > 1:
            for i in range(len(case['calls'])):
                c = copy.deepcopy(case)
                del c['calls'][i]
                yield c
        for ci, call in enumerate(case['calls']):
            n = len(call['chans'])
            if n > 1:
                for sl in (slice(0, n // 2), slice(n // 2, n)):
                    c = copy.deepcopy(case)
                    c['calls'][ci]['chans'] = call['chans'][sl]
                    yield c
                if n <= 12:
                    for i in range(n):
                        c = copy.deepcopy(case)
                        del c['calls'][ci]['chans'][i]
                        yield c
            if call.get('noise'):
                c = copy.deepcopy(case)
                c['calls'][ci]['noise'] = 0
                yield c
        for k, v in (('tilt_target', 0), ('out_voa', 0), ('in_voa', 0)):
            if case['oper'].get(k):
                c = copy.deepcopy(case)
                c['oper'][k] = v
                yield c
        if 'edfa' in case['lib']:
            used = {case['amp']}
            for e in case['lib']['edfa']:
                if e['type_variety'] == case['amp']:
                    used |= {e.get('preamp_variety'), e.get('booster_variety')}
            for i, e in enumerate(case['lib']['edfa']):
                if e['type_variety'] not in used and not any(
                        e['type_variety'] in (o.get('preamp_variety'), o.get('booster_variety'))
                        for o in case['lib']['edfa']):
                    c = copy.deepcopy(case)
                    del c['lib']['edfa'][i]
                    yield c
    elif case['kind'] == 'nfshape':
        if len(case['gains']) > 1:
            for i in range(len(case['gains'])):
                c = copy.deepcopy(case)
                del c['gains'][i]
                yield c
