"""C03 — fibre NLI equals the GN-model closed form and obeys its scaling laws.

Correspondence (= the property: "code = published closed form"): NliSolver.compute_nli (sim params gn_model_analytic)
on a real Fiber and a real SpectralInformation vs Gnpy.Gn.nli per channel; Fiber.alpha/beta2/gamma vs
Gnpy.Gn.alphaAt/beta2At/gammaAt; the NLI share after Fiber.__call__ vs the model; constructor accept/reject of the comb.
Monitor: an independent plain-Python evaluation of eq. 120/123 of arXiv:1209.0394 (weights 16/27, 32/27) on the fibre
and spectrum of the case + the four laws metamorphically on the implementation (cubic scaling, added channel, raised
power, input order) + non-negativity.
"""
import copy
import math
import random

import numpy as np
import warnings

warnings.filterwarnings('ignore')   # numpy RankWarning of Fiber.beta3's polyfit on 2-knot dispersion tables

from common.util import Result, f2b, b2f, fl, err_kind
from common import fibres as FB

ID = 'C03'
N = {'quick': 2400, 'thorough': 40000}
LEAN_MODULES = ['GnpyProofs.Props.C03']
THEOREMS = [f'Gnpy.Gn.{t}' for t in (
    'weights', 'xpm_twice_spm', 'wgtF_self', 'wgtF_other', 'psi_nonneg', 'spm_formula', 'effLength_pos', 'term_nonneg',
    'nli_nonneg', 'nli_length', 'nli_eq_nliSpec', 'nonoverlap_distinct', 'loadAll_f', 'computeNli_eq_spec',
    'nliSpec_nonneg', 'nli_cubic', 'nliSpec_cubic', 'nli_mono_power', 'nli_add_channel_exact', 'nliOf_perm',
    'nli_mono_add_channel', 'nli_perm', 'sortByF_eq_of_perm', 'input_order_irrelevant', 'sortByF_sorted_id', 'alpha_is_db', 'beta2_formula', 'gamma_at_ref')]
RULE = ('cases from one PRNG: random fibre (length 0.1-300 km in km or m, scalar or per-frequency loss 0.15-0.35 dB/km, '
        'dispersion of either sign with/without slope (slope absent, explicitly 0.0, small, typical) or per-frequency table, '
        'per-frequency tables listed in ascending / descending / shuffled frequency order, effective area and/or gamma or neither, '
        'reference wavelength/frequency/default, connector losses, padding) x random non-overlapping comb on the 6.25 GHz '
        'grid (1-120 channels quick, -400 thorough; uniform, mixed baud/slot/power/gaps, mixed power only); ~12 % malformed '
        '(loss table not covering the comb, overlapping slots, baud rate above slot width); ~15 % sequences of 2-4 different '
        'combs (same channel count, first/last frequency and first baud rate; interior baud rates / frequencies / powers '
        'differ; also A, B, A) evaluated in succession on ONE Fiber object; ~8 % lines of 2-4 fibres crossed by ONE spectrum '
        'object, at least two of them equal in type_variety, length and loss coefficient but with overridden dispersion / '
        'slope / gamma / effective area / reference wavelength, in both orders. A case is non-trivial when it '
        'has at least 2 channels (SPM and XPM weights both used) and was accepted; distinct = canonical JSON of the case')
MODEL_SCOPE = ('modelled: NliSolver.compute_nli (gn_model_analytic branch), _gn_analytic, _psi, effective_length, '
               'Fiber.loss_coef_func/alpha/beta2 (scalar, slope and table branches)/gamma, FiberParams reference '
               'wavelength/frequency, effective area resolution, contrast, effective_area_scaling, gamma_scaling, '
               'convert_length, apply_attenuation_db, SpectralInformation overlap/baud checks and its sort by frequency (argsort). '
               'Not modelled: GGN methods')
PARTIAL = []
MANIFEST = {
    'text': ('The Lean model Gnpy.Gn.nli IS the published closed form (eq. 120/123 of arXiv:1209.0394 in GNPy\'s non-uniform '
             'form, transliterated with the code\'s broadcasting: weights 16/27 and 32/27, asinh kernel, effective length); '
             'theorems over the reals for every fibre and every comb: psi/NLI non-negative, cubic scaling, monotone in every '
             'power, never lowered by an added channel, independent of the supplied order (sort modelled), SPM closed form, '
             'index form = frequency form on accepted combs. "code = closed form" is the correspondence check itself '
             '(NliSolver.compute_nli and Fiber.__call__ on real objects vs the model, rel 1e-9) plus an independent plain-Python '
             'evaluation of the formula and the four laws checked metamorphically on the implementation.'),
}
TRUSTED = ['HasPi Float = 3.141592653589793 (the binary64 value of numpy.pi); theorems use Real.pi']

SIM = {'nli_params': {'method': 'gn_model_analytic'}, 'raman_params': {'flag': False}}


def gen_sequence(rng, tier, widen):
    """2-4 DIFFERENT combs evaluated in succession on ONE Fiber object. Every later comb shares with the first one the
    channel count, the first and last carrier frequency and the first channel's baud rate, and differs in interior baud
    rates / interior carrier frequencies / powers (also A, B, A): no evaluation may depend on the element's history."""
    n = rng.choice([3, 4, 5, 8, rng.randint(3, 40 if tier == 'quick' else 96)])
    slot = rng.choice([75e9, 100e9, 150e9])
    bauds = [x for x in (25e9, 32e9, 45e9, 56e9, 64e9, 69e9) if x <= slot - 12.5e9]
    start = rng.choice([186.0e12, 191.3e12, 193.1e12])
    stretch = rng.choice([1, 1, 2])                       # free grid positions between first and last channel
    npos = (n - 1) * stretch + 1
    b0 = rng.choice(bauds)
    uniform = rng.random() < 0.6

    def comb(kind):
        pos = [0] + sorted(rng.sample(range(1, npos - 1), n - 2)) + [npos - 1] if stretch > 1 and 'f' in kind \
            else [i * stretch for i in range(n)]
        fs = [start + slot / 2 + k * slot for k in pos]
        if 'f' in kind and stretch == 1:
            # interior carriers moved inside their own slot (baud rate leaves room)
            fs = [f + (rng.choice([-6.25e9, 6.25e9, 0.0]) if 0 < i < n - 1 else 0.0) for i, f in enumerate(fs)]
        bs = [b0] * n if (uniform and 'b' not in kind) else [b0] + [rng.choice(bauds) for _ in range(n - 1)]
        if 'b' in kind:
            bs = [b0] + [rng.choice([x for x in bauds if x != b0] or bauds) if rng.random() < 0.6 else b0
                         for _ in range(n - 1)]
            if all(x == b0 for x in bs):
                bs[1] = next((x for x in bauds if x != b0), b0)
        p0 = round(rng.uniform(-4, 4), 2)
        ps = [p0] * n if 'p' not in kind else [round(rng.uniform(-8, 8), 2) for _ in range(n)]
        # declared slot width 12.5 GHz narrower than the grid spacing: room for the +-6.25 GHz carrier moves
        return {'style': 'sequence', 'f': fs, 'b': bs, 'slot': [slot - 12.5e9] * n, 'p_dbm': ps}

    first = comb('')
    k = rng.choice([2, 2, 3, 4])
    combs = [first]
    for _ in range(k - 1):
        combs.append(comb(rng.choice(['b', 'b', 'f', 'bf', 'bp', 'p', 'fp'])))
    if rng.random() < 0.4:
        combs = (combs + [copy.deepcopy(first)])[:4] if len(combs) < 4 else combs[:3] + [copy.deepcopy(first)]
    fib = FB.gen_fibre(rng, first['f'][0] - 1e9, first['f'][-1] + 1e9, widen)
    return {'kind': 'sequence', 'fibre': fib, 'combs': combs}


def gen_line(rng, tier, widen):
    """ONE spectrum object crossing 2-4 fibres in a row (what a path propagation does). At least two of the fibres share
    type_variety, length and loss coefficient but differ in dispersion / dispersion slope / gamma / effective area /
    reference wavelength (per-element overrides, e.g. one NZDSF-like span in an SSMF line); crossed in the given and in the
    reversed order. Every fibre must generate the closed-form NLI of ITS OWN coefficients on the spectrum entering it."""
    comb = FB.gen_comb(rng, 24 if tier == 'quick' else 60, widen)
    base = FB.gen_fibre(rng, min(comb['f']) - 1e9, max(comb['f']) + 1e9, widen, lumped=False)
    for key in ('dispersion_per_frequency', 'dispersion_slope', 'gamma', 'effective_area', 'ref_wavelength', 'ref_frequency'):
        base.pop(key, None)
    base.setdefault('dispersion', 1.67e-5)
    base['length'] = round(rng.uniform(20, 100), 3) if base['length_units'] == 'km' else round(rng.uniform(20e3, 100e3), 1)
    k = rng.choice([2, 2, 3, 4])
    fibres = [copy.deepcopy(base)]
    for _ in range(k - 1):
        q = copy.deepcopy(base)
        what = rng.sample(['dispersion', 'slope', 'gamma', 'area', 'ref'], rng.choice([1, 1, 2]))
        if 'dispersion' in what:
            q['dispersion'] = rng.choice([4e-6, 5e-6, 2.1e-5, -1.67e-5, 8e-6])
        if 'slope' in what:
            q['dispersion_slope'] = rng.choice([0.0, 58.0, 70.0])
        if 'gamma' in what:
            q['gamma'] = rng.choice([0.0009, 0.0015, 0.002])
        if 'area' in what:
            q['effective_area'] = rng.choice([55e-12, 72e-12, 125e-12])
        if 'ref' in what:
            q['ref_wavelength'] = rng.choice([1530e-9, 1565e-9, 1600e-9])
        if rng.random() < 0.2:
            q['length'] = round(q['length'] * rng.choice([0.5, 1.5]), 3)      # an odd one out
        fibres.append(q)
    rng.shuffle(fibres)
    return {'kind': 'line', 'comb': comb, 'fibres': fibres, 'type_variety': rng.choice(['SSMF', 'SSMF', 'NZDF']),
            'regain': rng.random() < 0.7}


def gen(rng, tier, widen=False):
    r_ = rng.random()
    if r_ < 0.08:
        return gen_line(rng, tier, widen)
    if r_ < 0.22:
        return gen_sequence(rng, tier, widen)
    nmax = 120 if tier == 'quick' else 400
    if tier == 'thorough' and rng.random() < 0.8:
        nmax = 120
    comb = FB.gen_comb(rng, nmax, widen)
    fib = FB.gen_fibre(rng, min(comb['f']) - 1e9, max(comb['f']) + 1e9, widen)
    n = len(comb['f'])
    case = {'kind': 'nli', 'fibre': fib, 'comb': comb,
            'scale': rng.choice([2.0, 0.5, 10.0, 3.7, round(rng.uniform(0.1, 10), 3)]),
            'drop': rng.randrange(n), 'raise': [rng.randrange(n), rng.choice([1.5, 2.0, 1.01, 10.0])],
            'perm_seed': rng.randrange(1 << 30)}
    k = rng.random()
    if k < 0.12:
        bad = rng.choice(['loss_table', 'overlap', 'baud'])
        case['kind'] = 'malformed'
        case['bad'] = bad
        if bad == 'loss_table':
            lo, hi = min(comb['f']), max(comb['f'])
            side = rng.choice(['low', 'high', 'both']) if n > 1 else 'low'
            a = lo + 1e9 if side in ('low', 'both') else lo - 1e12
            b = hi - 1e9 if side in ('high', 'both') else hi + 1e12
            if n == 1:
                a, b = lo + 1e9, lo + 2e12
            fib['loss_coef'] = FB._table(rng, [a, (a + b) / 2, b], [0.2, 0.22, 0.21])
        elif bad == 'overlap':
            if n == 1:
                comb['f'].append(comb['f'][0] + comb['slot'][0] / 2)
                comb['b'].append(comb['b'][0])
                comb['slot'].append(comb['slot'][0])
                comb['p_dbm'].append(comb['p_dbm'][0])
            else:
                i = rng.randrange(1, len(comb['f']))
                comb['f'][i] = comb['f'][i - 1] + (comb['slot'][i - 1] + comb['slot'][i]) / 2 - FB.GRID
        else:
            i = rng.randrange(n)
            comb['b'][i] = comb['slot'][i] + FB.GRID
    return case


def _si(comb, order=None, pw=None):
    from gnpy.core.info import create_arbitrary_spectral_information
    idx = list(range(len(comb['f']))) if order is None else order
    pw = [10 ** (x / 10) * 1e-3 for x in comb['p_dbm']] if pw is None else pw
    return create_arbitrary_spectral_information([comb['f'][i] for i in idx], pch=[pw[i] for i in idx],
                                                 baud_rate=[comb['b'][i] for i in idx], tx_osnr=40.0,
                                                 tx_power=[pw[i] for i in idx],
                                                 slot_width=[comb['slot'][i] for i in idx], roll_off=0.0, label='x')


def run(case, drv):
    with FB.sim_params(SIM):
        return _run(case, drv)


def _run_sequence(case, drv):
    """one Fiber object, several combs in a row: compute_nli and Fiber.__call__ of EVERY evaluation against the model and
    against the independent closed form of its own comb"""
    from gnpy.core.science_utils import NliSolver
    res = Result()
    fibp = case['fibre']
    fj = FB.fibre_json(fibp)
    fiber = FB.mk_fiber(fibp)
    L = FB.length_m(fibp)
    att = fibp['con_in'] + fibp.get('att_in', 0)
    for step, comb in enumerate(case['combs']):
        n = len(comb['f'])
        si = _si(comb)
        freq = [float(x) for x in si.frequency]
        baud = [float(x) for x in si.baud_rate]
        pw = [float(x) for x in si.pch]
        al = [FB.alpha_ref(fibp, f) for f in freq]
        b2 = [FB.beta2_ref(fibp, f) for f in freq]
        ga = [FB.gamma_ref(fibp, f) for f in freq]
        # alternate the entry point: the solver directly / the element's __call__ (which attenuates first)
        impl = [float(x) for x in NliSolver.compute_nli(si, None, fiber)]
        ans = drv.ask('c03.nli', fibre=fj, f=fl(freq), b=fl(baud), p=fl(pw))
        res.cmp_floats(f'NliSolver.compute_nli[evaluation {step + 1} on the same Fiber]', impl,
                       [b2f(x) for x in ans['nli']], abs_=0.0)
        want = FB.gn_closed_form(L, freq, baud, pw, al, b2, ga)
        res.cmp_floats(f'compute_nli vs independent evaluation (GNPy convention)[evaluation {step + 1} on the same Fiber]',
                       impl, want, rel=1e-8, abs_=0.0)
        tol = 1e-8 + _ambiguity(al, b2, ga)
        for i in range(n):
            if abs(impl[i] - want[i]) > tol * abs(want[i]):
                res.fail(f'history: evaluation {step + 1} of {len(case["combs"])} on the same Fiber: channel {i}: compute_nli '
                         f'{impl[i]:.12e} W, GN closed form of this comb {want[i]:.12e} W (tolerance {tol:.3g}: spread of '
                         f'the fibre coefficients over the comb)', channel=i, step=step)
                break
        out = fiber(_si(comb))
        ans2 = drv.ask('c03.ratio', fibre=fj, att_in_db=f2b(att), f=fl(freq), b=fl(baud), p=fl(pw))
        res.cmp_floats(f'Fiber.__call__ nli_ratio[evaluation {step + 1} on the same Fiber]', out._nli_ratio,
                       [b2f(x) for x in ans2['ratio']], abs_=0.0)
        pin = [x * 10 ** (-att / 10) for x in pw]
        want2 = FB.gn_closed_form(L, freq, baud, pin, al, b2, ga)
        res.cmp_floats(f'Fiber.__call__ nli_ratio vs independent evaluation (GNPy convention)[evaluation {step + 1}]',
                       out._nli_ratio, [w / q for w, q in zip(want2, pin)], rel=1e-8, abs_=0.0)
        for i in range(n):
            if abs(out._nli_ratio[i] - want2[i] / pin[i]) > tol * want2[i] / pin[i]:
                res.fail(f'history after Fiber.__call__: evaluation {step + 1} on the same Fiber: channel {i}: NLI share '
                         f'{out._nli_ratio[i]:.10e}, closed form of this comb {want2[i] / pin[i]:.10e} (tolerance {tol:.3g})',
                         channel=i, step=step)
                break
    combs = case['combs']
    res.nontrivial = True
    res.stats.update({'kind_sequence': 1, f'sequence_len_{len(combs)}': 1, 'sequence_channels': len(combs[0]['f']),
                      'sequence_returns_to_first': int(len(combs) > 2 and combs[-1] == combs[0]),
                      'sequence_interior_baud_changes': int(any(c['b'] != combs[0]['b'] for c in combs)),
                      'sequence_interior_frequency_changes': int(any(c['f'] != combs[0]['f'] for c in combs)),
                      'sequence_power_changes': int(any(c['p_dbm'] != combs[0]['p_dbm'] for c in combs))})
    return res


def _run_line(case, drv):
    res = Result()
    comb = case['comb']
    n = len(comb['f'])
    worst = 0.0
    for tag, fibres in (('given order', case['fibres']), ('reversed order', case['fibres'][::-1])):
        si = _si(comb)                                   # ONE object for the whole line
        for k, fibp in enumerate(fibres):
            fiber = FB.mk_fiber(fibp, uid=f'f{k}', type_variety=case['type_variety'])
            freq = [float(x) for x in si.frequency]
            baud = [float(x) for x in si.baud_rate]
            pw = [float(x) for x in si.pch]
            before = np.array(si._nli_ratio, dtype=float)
            p_before = np.array(si.pch, dtype=float)
            si = fiber(si)
            after = np.array(si._nli_ratio, dtype=float)
            share = (after - before) / (1 - before)      # NLI generated in this fibre / power entering its glass
            # the share is a difference of accumulated ratios: its conditioning is accumulated / generated (class D when the
            # line was not re-amplified and the later fibres generate almost nothing)
            cond = float(np.max(before / np.maximum(share, 1e-300))) if np.all(share > 0) else float('inf')
            if cond > 1e6:
                res.ill += 1
                res.stats.update({'line_fibre_share_ill_conditioned': 1})
                if case['regain']:
                    si.apply_gain_db(10 * np.log10(p_before / np.array(si.pch)))
                continue
            noise = 4e-16 * cond
            att = fibp['con_in'] + fibp.get('att_in', 0)
            ans = drv.ask('c03.ratio', fibre=FB.fibre_json(fibp), att_in_db=f2b(att), f=fl(freq), b=fl(baud), p=fl(pw))
            name = f'Fiber.__call__ NLI share[fibre {k + 1} of {len(fibres)} crossed by one spectrum object, {tag}]'
            res.cmp_floats(name, share, [b2f(x) for x in ans['ratio']], rel=1e-7 + noise, abs_=0.0)
            L = FB.length_m(fibp)
            al = [FB.alpha_ref(fibp, f) for f in freq]
            b2 = [FB.beta2_ref(fibp, f) for f in freq]
            ga = [FB.gamma_ref(fibp, f) for f in freq]
            pin = [x * 10 ** (-att / 10) for x in pw]
            want = FB.gn_closed_form(L, freq, baud, pin, al, b2, ga)
            tol = 1e-7 + noise + _ambiguity(al, b2, ga)
            for i in range(n):
                w = want[i] / pin[i]
                worst = max(worst, abs(share[i] - w) / w)
                if abs(share[i] - w) > tol * w:
                    res.fail(f'line: fibre {k + 1} of {len(fibres)} ({tag}) crossed by the same spectrum object: channel {i}: NLI '
                             f'share {share[i]:.10e}, closed form of THIS fibre (dispersion {fibp.get("dispersion")}, slope '
                             f'{fibp.get("dispersion_slope")}, gamma {fibp.get("gamma")}, area {fibp.get("effective_area")}) '
                             f'{w:.10e} (tolerance {tol:.3g})', channel=i, fibre=k)
                    break
            if case['regain']:
                si.apply_gain_db(10 * np.log10(p_before / np.array(si.pch)))      # ideal gain: back to the launch powers
    same = sum(1 for a in case['fibres'] for b in case['fibres'] if a is not b
               and (a['length'], a['length_units'], json_key(a['loss_coef'])) == (b['length'], b['length_units'], json_key(b['loss_coef']))) // 2
    res.nontrivial = n >= 2
    res.stats.update({'kind_line': 1, f'line_fibres_{len(case["fibres"])}': 1, 'line_pairs_same_type_length_loss': same,
                      'line_channels': n, 'line_regain': int(case['regain'])})
    return res


def json_key(x):
    import json
    return json.dumps(x, sort_keys=True)


def _run(case, drv):
    if case['kind'] == 'sequence':
        return _run_sequence(case, drv)
    if case['kind'] == 'line':
        return _run_line(case, drv)
    from gnpy.core.science_utils import NliSolver
    res = Result()
    fibp, comb = case['fibre'], case['comb']
    n = len(comb['f'])
    fj = FB.fibre_json(fibp)
    fiber = FB.mk_fiber(fibp)
    order = sorted(range(n), key=lambda i: comb['f'][i])
    # ---- the comb through the real constructor; the model's accept/reject decision
    model_ok = drv.ask('c03.comb', f=fl([comb['f'][i] for i in order]), b=fl([comb['b'][i] for i in order]),
                       slot=fl([comb['slot'][i] for i in order]))
    try:
        si = _si(comb)
        impl_err = None
    except Exception as e:  # noqa
        si, impl_err = None, err_kind(e)
    res.cmp_exact('SpectralInformation.accept', impl_err is None, model_ok)
    res.stats.update({f'kind_{case["kind"]}' + (f'_{case["bad"]}' if case['kind'] == 'malformed' else ''): 1})
    if si is None:
        if impl_err != 'SpectrumError':
            res.mismatch('SpectralInformation.error-kind', impl_err, 'SpectrumError')
        if case['kind'] != 'malformed':
            res.fail(f'rejected: a non-overlapping comb was rejected with {impl_err}')
        res.stats.update({'rejected_comb': 1})
        return res
    freq = [float(x) for x in si.frequency]
    baud = [float(x) for x in si.baud_rate]
    pw = [float(x) for x in si.pch]
    # ---- compute_nli on the real objects vs the model
    try:
        impl = [float(x) for x in NliSolver.compute_nli(si, None, fiber)]
        impl_err = None
    except Exception as e:  # noqa
        impl, impl_err = None, err_kind(e)
    ans = drv.ask('c03.nli', fibre=fj, f=fl(freq), b=fl(baud), p=fl(pw))
    if 'error' in ans or impl is None:
        res.cmp_exact('compute_nli.error-kind', impl_err, ans.get('error'))
        if case['kind'] != 'malformed':
            res.fail(f'rejected: compute_nli raised {impl_err} on a fibre whose tables cover the comb')
        res.stats.update({'rejected_table': 1})
        return res
    # (a malformed input that is accepted shows up as a disagreement with the model's accept/reject decision above: C03
    # has no rejection clause, so it is correspondence only)
    res.cmp_floats('Fiber.alpha', np.atleast_1d(fiber.alpha(si.frequency)) * np.ones(n), [b2f(x) for x in ans['alpha']])
    res.cmp_floats('Fiber.beta2', np.atleast_1d(fiber.beta2(si.frequency)) * np.ones(n), [b2f(x) for x in ans['beta2']],
                   abs_=0.0)
    res.cmp_floats('Fiber.gamma', np.atleast_1d(fiber.gamma(si.frequency)) * np.ones(n), [b2f(x) for x in ans['gamma']])
    res.cmp_float('FiberParams.effective_area', fiber.params._effective_area, b2f(ans['eff_area']), abs_=0.0)
    res.cmp_float('FiberParams.ref_frequency', fiber.params.ref_frequency, b2f(ans['ref_f']))
    res.cmp_float('FiberParams.length', fiber.params.length, b2f(ans['len']))
    model = [b2f(x) for x in ans['nli']]
    res.cmp_floats('NliSolver.compute_nli', impl, model, abs_=0.0)
    res.cmp_floats('model nli = nliSpec (theorem nli_eq_nliSpec)', model, [b2f(x) for x in ans['nli_spec']], abs_=0.0)
    # ---- observation point 2: the NLI share after Fiber.__call__ (input connector and padding applied first)
    si2 = _si(comb)
    out = fiber(si2)
    att = fibp['con_in'] + fibp.get('att_in', 0)
    ans2 = drv.ask('c03.ratio', fibre=fj, att_in_db=f2b(att), f=fl(freq), b=fl(baud), p=fl(pw))
    res.cmp_floats('Fiber.__call__ nli_ratio', out._nli_ratio, [b2f(x) for x in ans2['ratio']], abs_=0.0)

    # ---- monitor 1: the published closed form evaluated independently on this fibre and spectrum
    L = fibp['length'] * (1000.0 if fibp['length_units'] == 'km' else 1.0)
    al = [FB.alpha_ref(fibp, f) for f in freq]
    b2 = [FB.beta2_ref(fibp, f) for f in freq]
    ga = [FB.gamma_ref(fibp, f) for f in freq]
    want = FB.gn_closed_form(L, freq, baud, pw, al, b2, ga)
    # exact agreement with GNPy's generalisation to frequency-dependent coefficients: correspondence
    res.cmp_floats('compute_nli vs independent evaluation of the closed form (GNPy convention)', impl, want, rel=1e-8, abs_=0.0)
    # monitor: the published (frequency-flat) formula, up to the choice of the frequency the coefficients are taken at
    tol = 1e-8 + _ambiguity(al, b2, ga)
    res.stats.update({'closed_form_tol_' + ('exact' if tol < 1e-6 else 'lt_1pct' if tol < 1e-2 else 'lt_10pct' if tol < 0.1
                                            else 'ge_10pct'): 1})
    for i in range(n):
        if not (impl[i] >= 0.0):
            res.fail(f'negative: NLI on channel {i} is {impl[i]}', channel=i)
        if abs(impl[i] - want[i]) > tol * abs(want[i]):
            res.fail(f'closed form: channel {i} of {n}: compute_nli {impl[i]:.12e} W, GN closed form (16/27 SPM, 32/27 XPM, '
                     f'asinh kernel, effective length) {want[i]:.12e} W (tolerance {tol:.3g}: spread of the fibre '
                     f'coefficients over the comb)', channel=i)
            break
    pin = [x * 10 ** (-att / 10) for x in pw]
    want2 = FB.gn_closed_form(L, freq, baud, pin, al, b2, ga)
    # SNR_NLI = (1 - r) / r behind Fiber.__call__ is the bookkeeping of C01: correspondence
    snr_nli = out._signal_ratio / out._nli_ratio
    res.cmp_floats('SNR_NLI after Fiber.__call__ vs (1 - r) / r of the independent evaluation', snr_nli,
                   [(1 - w / q) / (w / q) for w, q in zip(want2, pin)], rel=1e-8, abs_=0.0)
    for i in range(n):
        r_ = float(out._nli_ratio[i])
        if abs(r_ - want2[i] / pin[i]) > tol * want2[i] / pin[i]:
            res.fail(f'closed form after Fiber.__call__: channel {i}: NLI share {r_:.10e} of the power entering the glass, '
                     f'closed form {want2[i] / pin[i]:.10e} (tolerance {tol:.3g})', channel=i)
            break
    # ---- monitor 2: the four laws on the implementation itself
    k = case['scale']
    nli_k = NliSolver.compute_nli(_si(comb, pw=[k * x for x in _pw(comb)]), None, fiber)
    for i in range(n):
        if abs(nli_k[i] - k ** 3 * impl[i]) > 1e-9 * k ** 3 * impl[i]:
            res.fail(f'cubic: powers x{k}: NLI on channel {i} x{nli_k[i] / impl[i] if impl[i] else math.nan:.9f}, expected '
                     f'{k ** 3:.9f}', channel=i)
            break
    d = case['drop'] % n
    if n >= 2:
        keep = [i for i in range(n) if i != d]
        sub = {key: [comb[key][i] for i in keep] for key in ('f', 'b', 'slot', 'p_dbm')}
        nli_sub = NliSolver.compute_nli(_si(sub), None, fiber)
        pos = {comb['f'][i]: t for t, i in enumerate(order)}
        sub_order = sorted(range(n - 1), key=lambda i: sub['f'][i])
        for t, i in enumerate(sub_order):
            full = impl[pos[sub['f'][i]]]
            if full < nli_sub[t] * (1 - 1e-9):
                res.fail(f'added channel: adding the channel at {comb["f"][d]:.0f} Hz lowers the NLI at {sub["f"][i]:.0f} Hz '
                         f'from {nli_sub[t]:.9e} to {full:.9e}')
                break
    r, fac = case['raise']
    r %= n
    pw_r = _pw(comb)
    pw_r[r] *= fac
    nli_r = NliSolver.compute_nli(_si(comb, pw=pw_r), None, fiber)
    for i in range(n):
        if nli_r[i] < impl[i] * (1 - 1e-9):
            res.fail(f'raised power: raising channel {r} x{fac} lowers the NLI on channel {i} from {impl[i]:.9e} to '
                     f'{nli_r[i]:.9e}', channel=i)
            break
    perm = list(range(n))
    random.Random(case['perm_seed']).shuffle(perm)
    nli_p = NliSolver.compute_nli(_si(comb, order=perm), None, fiber)
    if not np.allclose(nli_p, impl, rtol=1e-10, atol=0.0):
        res.fail('order: the NLI depends on the order in which the channels were supplied')
    ans3 = drv.ask('c03.nli_any', fibre=fj, f=fl([comb['f'][i] for i in perm]), b=fl([comb['b'][i] for i in perm]),
                   p=fl([_pw(comb)[i] for i in perm]))
    res.cmp_floats('constructor(argsort) + compute_nli on shuffled input', nli_p, [b2f(x) for x in ans3['nli']], abs_=0.0)
    # ---- the four laws once more through the element itself (Fiber.__call__) on a share of the cases
    if case['perm_seed'] % 3 == 0:
        base = _nli_via_call(fiber, comb, att)
        via = _nli_via_call(fiber, comb, att, pw=[k * x for x in _pw(comb)])
        if any(abs(a - k ** 3 * b) > 1e-9 * k ** 3 * b for a, b in zip(via, base)):
            res.fail(f'cubic (Fiber.__call__): powers x{k}: the NLI generated in the fibre does not scale by {k ** 3:.9f}')
        if n >= 2:
            sub_v = _nli_via_call(fiber, sub, att)
            sub_sorted = sorted(range(n - 1), key=lambda i: sub['f'][i])
            if any(base[pos[sub['f'][i]]] < sub_v[t] * (1 - 1e-9) for t, i in enumerate(sub_sorted)):
                res.fail(f'added channel (Fiber.__call__): adding the channel at {comb["f"][d]:.0f} Hz lowers the NLI of '
                         'another channel')
        via = _nli_via_call(fiber, comb, att, pw=pw_r)
        if any(a < b * (1 - 1e-9) for a, b in zip(via, base)):
            res.fail(f'raised power (Fiber.__call__): raising channel {r} x{fac} lowers the NLI of a channel')
        via = _nli_via_call(fiber, comb, att, order=perm)
        if not np.allclose(via, base, rtol=1e-10, atol=0.0):
            res.fail('order (Fiber.__call__): the NLI depends on the order in which the channels were supplied')
        res.stats.update({'laws_via_fiber_call': 1})
    # ---- bookkeeping
    res.nontrivial = n >= 2
    bucket = '1' if n == 1 else '2-8' if n <= 8 else '9-40' if n <= 40 else '41-120' if n <= 120 else '121-400'
    res.stats.update({f'nch_{bucket}': 1, f'comb_{comb["style"]}': 1, 'channels': n,
                      'loss_per_frequency': int(isinstance(fibp['loss_coef'], dict)),
                      'dispersion_table': int('dispersion_per_frequency' in fibp),
                      'dispersion_slope': int('dispersion_slope' in fibp),
                      'dispersion_negative': int(b2[0] > 0),
                      'area_given': int('effective_area' in fibp), 'gamma_given': int('gamma' in fibp),
                      'ref_given': int('ref_wavelength' in fibp or 'ref_frequency' in fibp),
                      'length_in_m': int(fibp['length_units'] == 'm'), 'padding': int(fibp.get('att_in', 0) > 0),
                      'dispersion_slope_zero': int(fibp.get('dispersion_slope') == 0.0),
                      'dispersion_slope_small': int(0 < abs(fibp.get('dispersion_slope') or 0) <= 2.0)})
    if isinstance(fibp['loss_coef'], dict):
        res.stats.update({'loss_table_' + FB.table_order(fibp['loss_coef']): 1})
    if 'dispersion_per_frequency' in fibp:
        res.stats.update({'dispersion_table_' + FB.table_order(fibp['dispersion_per_frequency']): 1})
    return res


def _ambiguity(al, b2, ga):
    """The published closed form is written for ONE loss coefficient, ONE beta2 and ONE gamma. When the fibre coefficients
    vary over the comb it is defined up to the choice of the frequency at which each is taken (GNPy: alpha of the pump,
    mean |beta2| of cut and pump, gamma of the cut - a convention, held under correspondence). Whatever the choice inside
    the comb, the value moves by at most the sensitivities |d ln NLI / d ln gamma| = 2, |d ln NLI / d ln beta2| <= 1,
    |d ln NLI / d ln alpha| <= 2 (L_eff^2 falls, the asinh integral rises with alpha) times the relative spreads."""
    def spread(v):
        lo, hi = min(abs(x) for x in v), max(abs(x) for x in v)
        return (hi - lo) / lo if lo > 0 else float('inf')
    sg, sb, sa = spread(ga), spread(b2), spread(al)
    return (1 + sg) ** 2 * (1 + sb) * (1 + sa) ** 2 - 1


def _nli_via_call(fiber, comb, att_db, pw=None, order=None):
    """NLI power generated in the fibre as seen through Fiber.__call__: NLI share behind the element x power entering the
    glass, per channel in ascending frequency"""
    si = _si(comb, order=order, pw=pw)
    pin = np.array(si.pch) * 10 ** (-att_db / 10)
    out = fiber(si)
    return np.array(out._nli_ratio) * pin


def _pw(comb):
    return [10 ** (x / 10) * 1e-3 for x in comb['p_dbm']]


def shrink_candidates(case):
    if case['kind'] == 'line':
        if len(case['fibres']) > 2:
            for i in range(len(case['fibres'])):
                c = copy.deepcopy(case)
                del c['fibres'][i]
                yield c
        n = len(case['comb']['f'])
        for i in range(n):
            if n > 1:
                c = copy.deepcopy(case)
                for key in ('f', 'b', 'slot', 'p_dbm'):
                    del c['comb'][key][i]
                yield c
        if case['regain']:
            c = copy.deepcopy(case)
            c['regain'] = False
            yield c
        return
    if case['kind'] == 'sequence':
        k = len(case['combs'])
        if k > 2:
            for i in range(k):
                c = copy.deepcopy(case)
                del c['combs'][i]
                yield c
        n = len(case['combs'][0]['f'])
        for i in range(1, n - 1):
            if n > 3:
                c = copy.deepcopy(case)
                for cb in c['combs']:
                    for key in ('f', 'b', 'slot', 'p_dbm'):
                        del cb[key][i]
                yield c
        for key in ('lumped_losses', 'att_in', 'dispersion_slope', 'ref_wavelength', 'ref_frequency', 'effective_area',
                    'gamma'):
            if key in case['fibre']:
                c = copy.deepcopy(case)
                del c['fibre'][key]
                yield c
        return
    comb = case['comb']
    n = len(comb['f'])
    if n > 1:
        for chunk in (n // 2, n // 4, 1):
            if chunk < 1:
                continue
            for start in range(0, n, chunk):
                keep = [i for i in range(n) if not (start <= i < start + chunk)]
                if not keep:
                    continue
                c = copy.deepcopy(case)
                for key in ('f', 'b', 'slot', 'p_dbm'):
                    c['comb'][key] = [comb[key][i] for i in keep]
                c['drop'] = 0
                c['raise'][0] = 0
                yield c
    for key in ('lumped_losses', 'att_in', 'dispersion_slope', 'ref_wavelength', 'ref_frequency', 'effective_area', 'gamma'):
        if key in case['fibre']:
            c = copy.deepcopy(case)
            del c['fibre'][key]
            yield c
    if isinstance(case['fibre']['loss_coef'], dict) and case['kind'] != 'malformed':
        c = copy.deepcopy(case)
        c['fibre']['loss_coef'] = 0.2
        yield c
    if 'dispersion_per_frequency' in case['fibre']:
        c = copy.deepcopy(case)
        del c['fibre']['dispersion_per_frequency']
        c['fibre']['dispersion'] = 1.67e-5
        yield c
    for key, val in (('con_in', 0), ('con_out', 0)):
        if case['fibre'][key] != val:
            c = copy.deepcopy(case)
            c['fibre'][key] = val
            yield c
