"""C13 — a service is accepted exactly when its worst channel clears the mode's threshold.

Correspondence (implementation vs Lean model Gnpy.Verdict):
  trx     Transceiver.__call__/_calc_snr, update_snr called repeatedly, calc_penalties  vs  updateSnr / interpPenalty
  loader  json_io.Transceiver penalty-table normalisation                                   vs  normalise
  path    requests_from_json error kinds; compute_path_with_disjunction fixed-mode branch (both directions) and
          propagate_and_optimize_mode on small designed networks with generated libraries   vs  fixedReason /
          selectModeOld / selectMode / autoReason, receiver figures, update_snr argument lists (loopArgs)
Monitor: the statement evaluated with plain arithmetic (common/nets_g.py indep_*), every candidate mode judged on a
line propagation made with ITS OWN baud rate and offset.
"""
import copy
import math

import warnings

import numpy as np

from common.util import Result, f2b, b2f, fl, err_kind
from common import nets, nets_g

warnings.filterwarnings('ignore', message='Polyfit may be poorly conditioned')

ID = 'C13'
N = {'quick': 900, 'thorough': 30000}
LEAN_MODULES = ['GnpyProofs.Props.C13']
THEOREMS = [f'Gnpy.Verdict.{t}' for t in (
    'updateSnr_formula', 'linSum_spec', 'updateSnr_raw', 'updateSnr_twice', 'updateSnr_history_free',
    'roadmOsnr_length', 'tx_and_adddrop_once', 'loopArgs_spec',
    'penalty_below_blocks', 'penalty_above_blocks', 'penalty_inside_finite', 'penalty_segment', 'totalPenalty_inf',
    'penalty_outside_blocks', 'minMetric_spec', 'penalty_normalised',
    'passFixed_iff', 'passAuto_iff', 'verdict_iff', 'verdict_margin', 'fixedReason_spec',
    'selectMode_spec', 'none_feasible_reason', 'autoReason_spec', 'request_verdict_iff', 'requestCheck_spec',
    'adddrop_osnr_once_per_crossing', 'crossing_default_values', 'crossing_profile_value', 'adddrop_route_default', 'crossingsOsnr_spec', 'selectMode_served_feasible',
    'selectMode_fails_old', 'selectModeOld_accepts_infeasible')] + [
    'Gnpy.HE.rintR_mono', 'Gnpy.HE.abs_rintR_sub_le', 'Gnpy.HE.round2_mono', 'Gnpy.HE.abs_round2_sub_le',
    'Gnpy.HE.round2_grid', 'Gnpy.Verdict.modeOrder_sorted', 'Gnpy.Verdict.mem_modeOrder']
RULE = ('one PRNG; kinds: trx (25 %: random received spectra, 1-5 successive update_snr calls with None/scalar/array '
        'contributions, penalty tables around the impairment values, inside and outside), loader (15 %: raw penalty '
        'lists unsorted / without zero / with non-positive boundaries), path (60 %: line networks of 2-3 ROADM sites '
        'with direction-asymmetric spans, generated transceiver with 1-8 modes incl. same-baud-different-offset groups, '
        'fibres with dispersion slope / per-frequency dispersion and ROADMs with PDL/PMD differing between band halves, penalty '
        'tables steep across or ending inside the per-channel impairment range of the path (some channels outside the table), '
        'thresholds calibrated to within +-0.02 dB .. +-3 dB of the own metric, fixed or automatic mode, '
        'bidirectional or not; ~12 % malformed requests). Non-trivial: trx always; loader when the list needs sorting '
        'or the zero point; path when a verdict was produced (served or blocked by mode) - distinct = canonical JSON')
MODEL_SCOPE = ('modelled: utils.snr_sum, Transceiver._calc_snr/update_snr/_calc_penalty/calc_penalties, json_io.Transceiver '
               'penalty normalisation, the added-noise list of request.propagate and of the mode loop, '
               'which roadm-osnr every ROADM crossing contributes per carrier (profile selection and frequency-range lookup of '
               'GnpyModel/Roadm.lean: user per_degree_impairments entry, else first library profile of the path type, else '
               'add_drop_osnr + lin2db(2) for add/drop and nothing for express), '
               'propagate_and_optimize_mode (order, strict >, last explored mode, blocking reasons), the fixed-mode '
               'verdict of compute_path_with_disjunction for both directions, request rejection kinds of '
               'trx_mode_params/_check_one_request. Input of the model (not modelled here, see C01-C07): the line '
               'propagation, i.e. the raw_* arrays, CD, PMD, PDL at the receiver and the roadm-osnr values.')
PARTIAL = []

BAUDS = [28, 32, 32, 32, 42, 56, 64]
OFFSETS_MDB = [0, 0, 0, 0, 1000, 2000, 3000, -1000, -2000, 1500, -500]
IMPAIR = ('chromatic_dispersion', 'pmd', 'pdl')


# ---------------------------------------------------------------------------------------------------------------------
# generators
# ---------------------------------------------------------------------------------------------------------------------

def gen(rng, tier, widen=False):
    k = rng.random()
    if k < 0.6 or widen:
        return gen_path(rng, tier, widen)
    if k < 0.85:
        return gen_trx(rng, tier)
    return gen_loader(rng)


def _raw_table(rng, centre, lo_ok=True):
    """a raw (un-normalised) penalties list for one impairment, boundaries around `centre`"""
    n = rng.choice([1, 2, 2, 3, 4])
    pts = sorted({round(centre * rng.choice([0.3, 0.6, 0.9, 0.999, 1.0, 1.001, 1.1, 1.5, 2.5, 4.0]), 6) for _ in range(n)})
    if rng.random() < 0.75 and pts[-1] < 1.5 * abs(centre):
        pts.append(round(abs(centre) * rng.choice([1.5, 2.5, 4.0]), 6))
    vals = sorted(round(rng.choice([0, 0.2, 0.5, 1.0, 1.5, 2.5]), 2) for _ in pts)
    tab = [[p, v] for p, v in zip(pts, vals)]
    if lo_ok and rng.random() < 0.15:
        tab.append([rng.choice([0.0, -abs(centre) * 0.5]), rng.choice([0.0, 0.3])])   # explicit lower boundary
    if rng.random() < 0.1 and tab:
        tab.append([tab[0][0], round(tab[0][1] + 0.25, 2)])   # duplicate boundary (stable-sort order matters)
    rng.shuffle(tab)
    return tab


def gen_loader(rng):
    pens = {}
    for imp, centre in zip(IMPAIR, (4000.0, 10.0, 1.0)):
        if rng.random() < 0.7:
            pens[imp] = _raw_table(rng, centre)
    return {'kind': 'loader', 'penalties': pens, 'interleave': rng.random() < 0.5}


def gen_trx(rng, tier):
    nch = rng.choice([1, 2, 3, 5, 8, 16 if tier == 'quick' else 64])
    baud = [rng.choice([28e9, 32e9, 42e9, 56e9, 64e9]) for _ in range(nch)]
    ase = [round(rng.uniform(1e-7, 5e-5), 10) for _ in range(nch)]     # W of ASE added to 1 mW carriers
    nli = [round(rng.uniform(1e-8, 2e-5), 10) for _ in range(nch)]
    calls = []
    for _ in range(rng.choice([1, 2, 3, 5])):
        args = []
        for _ in range(rng.choice([0, 1, 2, 3, 4]) if rng.random() < 0.15 else rng.choice([1, 2, 3, 4])):
            t = rng.random()
            if t < 0.2:
                args.append(None)
            elif t < 0.6:
                args.append(rng.choice([30.0, 35.0, 38.0, 40.0, 41.0103, 45.0, 100.0, round(rng.uniform(20, 60), 3)]))
            else:
                args.append([round(rng.uniform(25, 50), 3) for _ in range(nch)])
        calls.append(args)
    cd = [round(rng.uniform(-500, 40000), 2) for _ in range(nch)]
    pmd = [round(rng.uniform(0, 20), 4) for _ in range(nch)]
    pdl = [round(rng.uniform(0, 3), 4) for _ in range(nch)]
    pens = {}
    for imp, arr in zip(IMPAIR, (cd, pmd, pdl)):
        if rng.random() < 0.7:
            pens[imp] = _raw_table(rng, abs(rng.choice(arr)) or 1.0)
    return {'kind': 'trx', 'baud': baud, 'ase': ase, 'nli': nli, 'calls': calls, 'cd': cd, 'pmd': pmd, 'pdl': pdl,
            'penalties': pens}


def _gen_modes(rng, n, force_mix):
    modes = []
    for i in range(n):
        b = rng.choice(BAUDS)
        modes.append({'format': f'm{i}', 'baud_rate': b * 1e9, 'bit_rate': rng.choice([100, 150, 200, 200, 300, 400]) * 1e9,
                      'min_spacing': (math.ceil(b / 12.5) * 12.5 + rng.choice([0, 0, 12.5, 25])) * 1e9,
                      'offset_mdb': rng.choice(OFFSETS_MDB), 'tx_osnr': rng.choice([33, 36, 38, 40, 45, 100]),
                      'OSNR': 15.0, 'roll_off': 0.15, 'cost': 1, 'penalties': {}})
    if force_mix and n >= 2:
        i, j = rng.sample(range(n), 2)
        for kf in ('baud_rate', 'min_spacing'):
            modes[j][kf] = modes[i][kf]
        while modes[j]['offset_mdb'] == modes[i]['offset_mdb']:
            modes[j]['offset_mdb'] = rng.choice(OFFSETS_MDB)
        if rng.random() < 0.7:   # the F9 shape: the higher bit rate has the lower offset
            hi, lo = (i, j) if modes[i]['offset_mdb'] < modes[j]['offset_mdb'] else (j, i)
            if modes[hi]['bit_rate'] <= modes[lo]['bit_rate']:
                modes[hi]['bit_rate'], modes[lo]['bit_rate'] = max(modes[hi]['bit_rate'], modes[lo]['bit_rate'] + 100e9), \
                    modes[lo]['bit_rate']
    return modes


def gen_path(rng, tier, widen=False):
    k = rng.choice([2, 2, 3])
    lens = [20.0, 35.0, 50.0, 60.0, 80.0, 80.0, 100.0, 120.0]
    fwd = [[rng.choice(lens) for _ in range(rng.choice([1, 1, 2, 3]))] for _ in range(k - 1)]
    rev = [[rng.choice(lens) for _ in range(rng.choice([1, 2, 3]))] if rng.random() < 0.7 else list(reversed(f))
           for f in fwd]
    src, dst = (0, k - 1) if rng.random() < 0.7 else tuple(rng.sample(range(k), 2))
    spacing = rng.choice([37.5, 50, 50, 62.5, 75, 100]) * 1e9
    nch = rng.choice([2, 3, 5, 8, 12])
    fmin = 191.35e12 + rng.choice([0, 0.5e12, 1.0e12])
    auto = rng.random() < 0.6
    nm = rng.choice([1, 2, 3, 4, 5, 8]) if auto else rng.choice([1, 2, 3])
    modes = _gen_modes(rng, nm, force_mix=auto and rng.random() < 0.6)
    if not auto:
        spacing = max(spacing, modes[0]['min_spacing'])
    band = [fmin, fmin + (nch + 0.5) * spacing]
    total_km = sum(sum(x) for x in fwd[min(src, dst):max(src, dst)])
    for m in modes:
        for imp, centre in zip(IMPAIR, (16.7 * total_km, 1.265e-3 * math.sqrt(1000 * total_km) + 0.05, 0.7)):
            if rng.random() < 0.45:
                m['penalties'][imp] = _raw_table(rng, centre)
    case = {'kind': 'path', 'fwd': fwd, 'rev': rev, 'src': src, 'dst': dst, 'spacing': spacing, 'band': band,
            'margin': rng.choice([0, 1, 2, 2, 2.5, 3]), 'modes': modes,
            'roadm': {'add_drop_osnr': rng.choice([30, 33, 38, 38, 45, 100]), 'pdl': rng.choice([0, 0.3, 0.5, 1.0]),
                      'pmd': rng.choice([0, 0, 3e-12])},
            'roadm_nodes': [rng.choice([None, None, None, {'add_drop_osnr': rng.choice([28, 33, 36, 42])}, 'detailed', 'split', 'split'])
                            for _ in range(k)],
            # per-channel impairments that differ a lot across the band: dispersion slope / per-frequency dispersion (CD), ROADMs
            # whose PDL/PMD differ between the lower and the upper half of the band ('split')
            'fiber': rng.choice([None, {'dispersion': 1.67e-5, 'dispersion_slope': rng.choice([60.0, 400.0, 900.0, -500.0])},
                                 {'dispersion': 1.67e-5, 'dispersion_slope': rng.choice([400.0, 900.0])},
                                 {'dispersion_per_frequency': {'value': rng.choice([[0.9e-5, 1.4e-5, 2.0e-5, 2.6e-5], [2.4e-5, 2.0e-5, 1.5e-5, 1.1e-5]]),
                                                               'frequency': [191.0e12, 192.0e12, 193.0e12, 194.0e12]}}]),
            'split_pdl': [rng.choice([0.0, 0.2]), rng.choice([0.8, 1.5, 2.5])], 'split_pmd': [0.0, rng.choice([0.0, 4e-12])],
            # roadm-osnr of the 'split' ROADM profiles per band half: add (id 1), drop (id 2), optional value on the express
            # profile (id 0), alternative add (id 3) / drop (id 4) profiles that only a per_degree_impairments entry selects
            'split_osnr': {'add': [rng.choice([40.0, 43.0]), rng.choice([35.0, 37.5, 40.0])],
                           'drop': [rng.choice([40.0, 38.0]), rng.choice([36.0, 40.0])],
                           'express': rng.choice([None, 48.0, 44.0]), 'add_alt': rng.choice([31.0, 33.5]),
                           'drop_alt': rng.choice([32.0, 34.0])},
            'user_profiles': [rng.choice([None, None, {'add': 3}, {'drop': 4}, {'add': 3, 'drop': 4}]) for _ in range(k)],
            'mode': None if auto else modes[0]['format'], 'bidir': rng.random() < 0.4,
            'power': rng.choice([None, None, 1e-3, 2e-3, 5e-4]), 'malformed': None}
    # thresholds: calibrated on each mode's own metric (absolute numbers are stored in the case)
    _calibrate(rng, case, widen)
    r = rng.random()
    if r < 0.12:
        t = rng.choice(['unknown_mode', 'spacing_below_min', 'baud_above_min_spacing', 'unknown_trx'])
        case['malformed'] = t
        if t == 'unknown_mode':
            case['mode'] = 'nope'
        elif t == 'unknown_trx':
            pass
        elif t == 'spacing_below_min':
            m = rng.choice(modes)
            case['mode'] = m['format'] if rng.random() < 0.7 else None
            case['spacing'] = m['min_spacing'] - 12.5e9
            if case['mode'] is None:   # automatic: nothing may fit -> NO_FEASIBLE_BAUDRATE_WITH_SPACING (a blocked answer)
                case['spacing'] = min(x['min_spacing'] for x in modes) - 12.5e9
        else:
            m = rng.choice(modes)
            m['min_spacing'] = m['baud_rate'] - 4e9
            case['mode'] = m['format']
    return case


def _calibrate(rng, case, widen):
    """set every mode's OSNR near its own metric (forward, own offset); falls back to a plain draw on any error"""
    try:
        ctx = _build(case)
        path0 = _route(ctx, case)
        # per-channel impairment ranges at the receiver; tables that are steep across, or END inside, that range
        m0 = case['modes'][0]
        rx0 = _prop(ctx, case, path0, m0['baud_rate'], 0.0, m0['tx_osnr'])['rx']
        spans = {'chromatic_dispersion': (float(min(rx0.chromatic_dispersion)), float(max(rx0.chromatic_dispersion))),
                 'pmd': (float(min(rx0.pmd)), float(max(rx0.pmd))), 'pdl': (float(min(rx0.pdl)), float(max(rx0.pdl)))}
        changed = False
        for m in case['modes']:
            for imp, (lo, hi) in spans.items():
                if hi - lo > 1e-3 * max(abs(hi), 1e-9) and lo > 0 and rng.random() < 0.5:
                    shape = rng.choice(['steep', 'steep', 'ends_inside', 'starts_inside'])
                    if shape == 'steep':
                        tab = [[round(lo * 0.5, 6), 0.0], [round(lo, 6), 0.1], [round(hi, 6), rng.choice([1.5, 3.0, 5.0])],
                               [round(hi * 2, 6), 6.0]]
                    elif shape == 'ends_inside':
                        tab = [[round(lo * 0.5, 6), 0.0], [round(lo + rng.choice([0.2, 0.5, 0.8]) * (hi - lo), 6), rng.choice([0.5, 1.0])]]
                    else:
                        tab = [[round(lo + rng.choice([0.2, 0.5]) * (hi - lo), 6), 0.2], [round(hi * 2, 6), 1.0], [-1.0, 0.0]][:2]
                        tab.append([round(hi * 3, 6), 2.0])
                    rng.shuffle(tab)
                    m['penalties'][imp] = tab
                    changed = True
        if changed:
            ctx = _build(case)
            path0 = _route(ctx, case)
        for m in case['modes']:
            fig = _own_figures(ctx, case, path0, m)
            metric = fig['min']
            if math.isinf(metric) or math.isnan(metric):
                m['OSNR'] = rng.choice([10.0, 15.0, 20.0])
                continue
            d = rng.choice([0.01, -0.01, 0.02, -0.02, 0.05, -0.05, 0.3, -0.3, 1.0, -1.0, 3.0, -3.0,
                            round(rng.uniform(-2, 2), 2), round(rng.uniform(-2, 2), 2)]) if not widen \
                else rng.choice([0.01, -0.01, 0.02, -0.02])
            if rng.random() < 0.03:
                d = 0.0     # exact tie: not judged (class D), counted as ill-conditioned
            m['OSNR'] = round(nets_g.round2(metric) - case['margin'] + d, 2)
            if rng.random() < 0.05:
                m['OSNR'] = round(m['OSNR'] + 0.005, 3)    # off the 0.01 grid
        case['calibrated'] = True
    except Exception:
        case['calibrated'] = False      # counted in the evidence (path_calibration_fallback)
        for m in case['modes']:
            m['OSNR'] = round(rng.uniform(10, 30), 2)


# ---------------------------------------------------------------------------------------------------------------------
# building blocks
# ---------------------------------------------------------------------------------------------------------------------

def _mode_json(m):
    d = {k: m[k] for k in ('format', 'baud_rate', 'bit_rate', 'min_spacing', 'tx_osnr', 'OSNR', 'roll_off', 'cost')}
    d['equalization_offset_db'] = m['offset_mdb'] / 1000
    pens = []
    for imp in IMPAIR:
        for up, val in m['penalties'].get(imp, []):
            pens.append({imp: up, 'penalty_value': val})
    if pens:
        d['penalties'] = pens
    return d


SPLIT_DEFAULT = {'add': [40.0, 40.0], 'drop': [40.0, 40.0], 'express': None, 'add_alt': 33.0, 'drop_alt': 34.0}


def _split_roadm(case):
    """library ROADM whose add/drop/express impairments (PDL, PMD, roadm-osnr) differ between the lower and the upper half of the
    request band; profiles 3 (add) and 4 (drop) are only reachable through a per_degree_impairments entry"""
    mid = (case['band'][0] + case['band'][1]) / 2 + 1e9
    pdl, pmd = case.get('split_pdl', [0.0, 1.5]), case.get('split_pmd', [0.0, 0.0])
    so = case.get('split_osnr') or SPLIT_DEFAULT

    def ranges(osnr):
        out = []
        for i, (lo, hi) in enumerate(((186e12, mid), (mid, 198e12))):
            d = {'frequency-range': {'lower-frequency': lo, 'upper-frequency': hi}, 'roadm-pmd': pmd[i], 'roadm-cd': 0,
                 'roadm-pdl': pdl[i], 'roadm-inband-crosstalk': 0, 'roadm-maxloss': 0}
            if osnr is not None:
                d['roadm-osnr'] = osnr[i]
            out.append(d)
        return out
    return {'type_variety': 'gsplit', 'target_pch_out_db': -20, 'add_drop_osnr': 38, 'pmd': 0, 'pdl': 0,
            'restrictions': {'preamp_variety_list': [], 'booster_variety_list': []},
            'roadm-path-impairments': [
                {'roadm-path-impairments-id': 0, 'roadm-express-path': ranges(None if so['express'] is None else [so['express']] * 2)},
                {'roadm-path-impairments-id': 1, 'roadm-add-path': ranges(so['add'])},
                {'roadm-path-impairments-id': 2, 'roadm-drop-path': ranges(so['drop'])},
                {'roadm-path-impairments-id': 3, 'roadm-add-path': ranges([so['add_alt']] * 2)},
                {'roadm-path-impairments-id': 4, 'roadm-drop-path': ranges([so['drop_alt']] * 2)}]}


def _per_degree(case, i):
    """per_degree_impairments of ROADM i (uids of the designed neighbours): the user's add profile towards every neighbour, the
    user's drop profile from every neighbour"""
    up = (case.get('user_profiles') or [None] * 9)[i] if i < len(case.get('user_profiles') or []) else None
    if not up or (case.get('roadm_nodes') or [None] * 9)[i] != 'split':
        return []
    k = len(case['fwd']) + 1
    out = []
    for nb in (i - 1, i + 1):
        if not 0 <= nb < k:
            continue
        spans_in = case['fwd'][nb] if nb < i else case['rev'][i]        # link nb -> i
        if 'add' in up:
            out.append({'from_degree': f'trx N{i}', 'to_degree': f'Edfa_booster_roadm N{i}_to_fiber (N{i} -> N{nb}) 0',
                        'impairment_id': up['add']})
        if 'drop' in up:
            out.append({'from_degree': f'Edfa_preamp_roadm N{i}_from_fiber (N{nb} -> N{i}) {len(spans_in) - 1}',
                        'to_degree': f'trx N{i}', 'impairment_id': up['drop']})
    return out


def _build(case, equalise_offsets=False):
    modes = copy.deepcopy(case['modes'])
    if equalise_offsets:
        for m in modes:
            m['offset_mdb'] = 0
    trx = [{'type_variety': 'T', 'frequency': {'min': case['band'][0], 'max': case['band'][1]},
            'mode': [_mode_json(m) for m in modes]}]
    doc = nets_g.library_doc(trx, margin=case['margin'], roadm=case['roadm'])
    doc['Roadm'].append(_split_roadm(case))
    eq = nets_g.build_equipment(doc)
    topo = nets_g.line_topo(case['fwd'], case['rev'], fiber_extra=case.get('fiber'),
                            roadm_params={i: v for i, v in enumerate(case.get('roadm_nodes') or []) if isinstance(v, dict)})
    for i in range(len(case['fwd']) + 1):
        pdi = _per_degree(case, i)
        if pdi:
            next(e for e in topo['elements'] if e['uid'] == f'roadm N{i}').setdefault('params', {})['per_degree_impairments'] = pdi
    for i, v in enumerate(case.get('roadm_nodes') or []):
        if v == 'detailed':
            next(e for e in topo['elements'] if e['uid'] == f'roadm N{i}')['type_variety'] = 'detailed_impairments'
        if v == 'split':
            next(e for e in topo['elements'] if e['uid'] == f'roadm N{i}')['type_variety'] = 'gsplit'
    net = nets_g.build_network(topo, eq)
    from gnpy.topology.spectrum_assignment import build_oms_list
    build_oms_list(net, eq)
    return {'eq': eq, 'net': net, 'modes': modes, 'doc': doc}


def _req_doc(case, mode):
    trx_type = 'nope' if case.get('malformed') == 'unknown_trx' else 'T'
    return nets_g.request_doc('0', f'trx N{case["src"]}', f'trx N{case["dst"]}', trx_type, mode, case['spacing'],
                              bidir=case['bidir'], power=case['power'])


def _requests(ctx, case, mode):
    from gnpy.tools.json_io import requests_from_json
    from gnpy.topology.request import correct_json_route_list
    rqs = requests_from_json({'path-request': [_req_doc(case, mode)]}, ctx['eq'])
    return correct_json_route_list(ctx['net'], rqs)


def _route(ctx, case):
    """the route of the request (list of network elements), via the implementation's router"""
    from gnpy.topology.request import compute_path_dsjctn
    c = dict(case)
    c['malformed'] = None
    rqs = _requests(ctx, c, None)
    return compute_path_dsjctn(ctx['net'], ctx['eq'], rqs, [])[0]


def _tables(ctx, m):
    """the normalised tables of mode m as loaded: [(name, xs, ys)] in dict order"""
    lm = next(x for x in ctx['eq']['Transceiver']['T'].mode if x['format'] == m['format'])
    return [(imp, [float(x) for x in t['up_to_boundary']], [float(x) for x in t['penalty_value']])
            for imp, t in lm['penalties'].items()]


def _prop(ctx, case, path0, baud, offset_db, tx_osnr):
    eq = ctx['eq']
    from gnpy.core.utils import dbm2watt
    power = case['power'] if case['power'] is not None else dbm2watt(eq['SI']['default'].power_dbm)
    tx_power = dbm2watt(eq['SI']['default'].tx_power_dbm) if eq['SI']['default'].tx_power_dbm is not None else power
    return nets_g.line_prop(path0, eq, case['band'][0], case['band'][1], case['spacing'], baud, offset_db, tx_power,
                            tx_osnr, eq['SI']['default'].roll_off)


def _indep_eval(prop, contribs, tx_osnr, tables):
    """independent receiver evaluation on a harness line propagation: per channel GSNR(0.1nm) with tx and every crossing's
    contribution once, minus interpolated penalties; `contribs` = one per-channel list per contributing crossing"""
    rx = prop['rx']
    imp = {'chromatic_dispersion': rx.chromatic_dispersion, 'pmd': rx.pmd, 'pdl': rx.pdl}
    snr01, pen, met = [], [], []
    for i in range(prop['n']):
        g = nets_g.indep_gsnr(float(rx.raw_snr_01nm[i]), 12.5e9, [c[i] for c in contribs] + [tx_osnr])
        p = sum(nets_g.indep_interp(float(imp[name][i]), xs, ys) for name, xs, ys in tables)
        snr01.append(g)
        pen.append(p)
        met.append(g - p)
    return {'min': min(met), 'snr01': snr01, 'pen': pen}


def _node_profiles(case, i, doc=None):
    """(library profiles of ROADM i as plain dicts, add_drop_osnr of the node) read from the case / library document"""
    nodes = case.get('roadm_nodes') or []
    v = nodes[i] if i < len(nodes) else None
    if v == 'split':
        lib = _split_roadm(case)
    elif v == 'detailed':
        lib = next(x for x in (doc or nets.eqpt_json())['Roadm'] if x.get('type_variety') == 'detailed_impairments')
    else:
        return [], (v['add_drop_osnr'] if isinstance(v, dict) else case['roadm']['add_drop_osnr'])
    profs = []
    for x in lib['roadm-path-impairments']:
        kind = next(k_ for k_ in ('express', 'add', 'drop') if f'roadm-{k_}-path' in x)
        profs.append({'id': x['roadm-path-impairments-id'], 'ptype': kind,
                      'bands': [[b['frequency-range']['lower-frequency'], b['frequency-range']['upper-frequency'],
                                 b.get('roadm-osnr')] for b in x[f'roadm-{kind}-path']]})
    return profs, lib['add_drop_osnr']


def _crossing_list(case, path, doc=None):
    """the ROADM crossings of a route, described from the topology / library / per_degree_impairments only: path type from the
    neighbours (after the transceiver: add, before it: drop, else express), library profiles, user entry, add_drop_osnr"""
    from gnpy.core.elements import Roadm, Transceiver
    out = []
    for k, e in enumerate(path):
        if not isinstance(e, Roadm):
            continue
        i = int(e.uid.split('N')[-1])
        ptype = 'add' if isinstance(path[k - 1], Transceiver) else ('drop' if isinstance(path[k + 1], Transceiver) else 'express')
        profs, ad = _node_profiles(case, i, doc)
        user = next((d['impairment_id'] for d in _per_degree(case, i)
                     if d['from_degree'] == path[k - 1].uid and d['to_degree'] == path[k + 1].uid), None)
        out.append({'profiles': profs, 'user': user, 'ptype': ptype, 'add_drop_osnr': ad})
    return out


def _adddrop(case, path, prop=None, doc=None):
    """the per-channel roadm-osnr contribution of every crossing of the route that contributes, evaluated with plain Python:
    a default ROADM states the OSNR of add and drop together (`add_drop_osnr`), so each stage counts add_drop_osnr + 10log10(2);
    a ROADM with profiles contributes the `roadm-osnr` of the user-selected profile, else of the first library profile of the
    path type, for the frequency range holding the carrier; crossings without a value (express) contribute nothing"""
    freqs = _freqs(case) if prop is None else [float(x) for x in prop['si'].frequency]
    out = []
    for c in _crossing_list(case, path, doc):
        if c['user'] is not None:
            prof = next(p_ for p_ in c['profiles'] if p_['id'] == c['user'])
        else:
            prof = next((p_ for p_ in c['profiles'] if p_['ptype'] == c['ptype']), None)
        if prof is None:
            vals = None if c['ptype'] == 'express' else [c['add_drop_osnr'] + 10 * math.log10(2)] * len(freqs)
        else:
            vals = []
            for f in freqs:
                vals.append(next((b[2] for b in prof['bands'] if b[2] is not None and (b[0] is None or b[0] <= f <= b[1])), None))
            if all(x is None for x in vals):
                vals = None
        if vals is not None:
            out.append(vals)
    return out


def _freqs(case):
    """carrier frequencies of the request comb (create_input_spectral_information: f_min + spacing * i, i = 1..n)"""
    n = int((case['band'][1] - case['band'][0]) // case['spacing'])
    return [case['band'][0] + case['spacing'] * i for i in range(1, n + 1)]


def _crossings_json(case, path, doc=None):
    out = []
    for c in _crossing_list(case, path, doc):
        out.append({'profiles': [{'id': p_['id'], 'ptype': p_['ptype'],
                                  'bands': [[None if b[0] is None else f2b(b[0]), f2b(b[1]), None if b[2] is None else f2b(b[2])]
                                            for b in p_['bands']]} for p_ in c['profiles']],
                    'user': c['user'], 'ptype': c['ptype'], 'add_drop_osnr': f2b(c['add_drop_osnr'])})
    return out


def _check_crossings(res, drv, case, path, prop, tx_osnr, label):
    """correspondence: the per-carrier argument list of the receiver's update_snr as the MODEL builds it from the ROADM types,
    profiles and per_degree_impairments of the route  vs  what the implementation's ROADMs hand out (get_impairment) + tx"""
    freqs = [float(x) for x in prop['si'].frequency]
    ans = drv.ask('c13.crossings', crossings=_crossings_json(case, path), freqs=fl(freqs), tx_osnr=f2b(tx_osnr))
    impl = [[None if r is None else r[i] for r in prop['roadm']] + [float(tx_osnr)] for i in range(prop['n'])]
    model = [a if isinstance(a, str) else [None if x is None else b2f(x) for x in a] for a in ans]
    res.compared += max(1, len(impl))
    ok = len(impl) == len(model) and all(
        not isinstance(m_, str) and len(a) == len(m_) and all((x is None) == (y is None) and (x is None or abs(x - y) <= 1e-9)
                                                                 for x, y in zip(a, m_)) for a, m_ in zip(impl, model))
    if not ok:
        res.mismatch(f'update_snr.arguments_from_crossings({label})', impl[:2], model[:2])
    return model[0] if model and not isinstance(model[0], str) else None


def _own_figures(ctx, case, path0, m):
    prop = _prop(ctx, case, path0, m['baud_rate'], m['offset_mdb'] / 1000, m['tx_osnr'])
    return _indep_eval(prop, _adddrop(case, path0, prop), m['tx_osnr'], _tables(ctx, m))


def _prop_json(prop, baud_hz, offset_mdb):
    rx = prop['rx']
    d = {k: fl(v) for k, v in nets_g.rx_raw(rx).items()}
    d.update({'baud_hz': int(baud_hz), 'offset': int(offset_mdb),
              'roadm': [None if r is None else fl(r) for r in prop['roadm']],
              'cd': fl(rx.chromatic_dispersion), 'pmd': fl(rx.pmd), 'pdl': fl(rx.pdl)})
    return d


def _pens_json(rx, tables):
    imp = {'chromatic_dispersion': rx.chromatic_dispersion, 'pmd': rx.pmd, 'pdl': rx.pdl}
    return [{'values': fl(imp[name]), 'table': [[f2b(x), f2b(y)] for x, y in zip(xs, ys)]} for name, xs, ys in tables]


def _pen_list(arr):
    return [None if math.isinf(float(x)) else float(x) for x in np.broadcast_to(arr, np.shape(arr) or (1,))]


def _cmp_pens(res, fn, impl, model):
    """penalties with inf encoded as None on the model side"""
    impl = _pen_list(impl)
    model = [None if x is None else b2f(x) for x in model]
    res.compared += max(1, len(impl))
    if len(impl) != len(model) or any((a is None) != (b is None) for a, b in zip(impl, model)):
        res.mismatch(fn, impl[:8], model[:8])
        return
    res.cmp_floats(fn, [a for a in impl if a is not None], [b for b in model if b is not None], abs_=1e-9)


# ---------------------------------------------------------------------------------------------------------------------
# run
# ---------------------------------------------------------------------------------------------------------------------

def run(case, drv):
    return {'trx': run_trx, 'loader': run_loader, 'path': run_path}[case['kind']](case, drv)


def _loader_mode(pens, interleave=False):
    entries = []
    for imp in IMPAIR:
        for up, val in pens.get(imp, []):
            entries.append({imp: up, 'penalty_value': val})
    if interleave:
        entries = entries[::2] + entries[1::2]
    return entries


def run_loader(case, drv):
    from gnpy.tools.json_io import Transceiver as JT
    res = Result()
    raw = _loader_mode(case['penalties'], case.get('interleave', False))
    mode = {'format': 'x', 'baud_rate': 32e9, 'OSNR': 11, 'bit_rate': 100e9, 'roll_off': 0.15, 'tx_osnr': 40,
            'min_spacing': 37.5e9, 'cost': 1}
    if raw:
        mode['penalties'] = copy.deepcopy(raw)
    t = JT(type_variety='T', frequency={'min': 191.35e12, 'max': 196.1e12}, mode=[mode])
    got = t.mode[0]['penalties']
    needs = False
    for imp in IMPAIR:
        ent = [[float(e[imp]), float(e['penalty_value'])] for e in raw if imp in e]
        if not ent:
            if imp in got:
                res.fail(f'penalty table: {imp} appears in the loaded mode without any entry in the library')
            continue
        if imp not in got:
            res.fail(f'penalty table: {imp} lost at load')
            continue
        impl = [[float(a), float(b)] for a, b in zip(got[imp]['up_to_boundary'], got[imp]['penalty_value'])]
        model = [[b2f(a), b2f(b)] for a, b in drv.ask('c13.normalise', entries=[[f2b(a), f2b(b)] for a, b in ent])]
        res.cmp_exact(f'json_io.Transceiver.penalties.{imp}', impl, model)
        # monitor: ascending, the zero point in front when every boundary is positive, nothing else added or lost
        xs = [a for a, _ in impl]
        if any(x > y for x, y in zip(xs, xs[1:])):
            res.fail(f'penalty table: {imp} boundaries not ascending after load: {xs}')
        exp = sorted(ent + ([[0.0, 0.0]] if all(a > 0 for a, _ in ent) else []))
        if sorted(impl) != exp:
            res.fail(f'penalty table: {imp} entries after load {impl} are not the library entries (+ zero point) {exp}')
        if all(a > 0 for a, _ in ent) or xs != [a for a, _ in ent]:
            needs = True
    res.nontrivial = needs
    res.stats.update({'loader': 1, 'loader_tables': len(got), 'loader_needs_normalisation': int(needs)})
    return res


def _mk_si(case):
    from gnpy.core.info import create_arbitrary_spectral_information
    n = len(case['baud'])
    f, freqs = 191.4e12, []
    slot = [50e9 if b < 45e9 else 75e9 for b in case['baud']]
    for w in slot:
        f += w / 2
        freqs.append(f)
        f += w / 2
    si = create_arbitrary_spectral_information(freqs, pch=1e-3, baud_rate=case['baud'], tx_osnr=40.0, tx_power=1e-3,
                                               slot_width=slot, label='x')
    si.add_ase(np.array(case['ase']))
    si.add_nli(np.array(case['nli']))
    si.chromatic_dispersion = np.array(case['cd']) * 1e-3
    si.pmd = np.array(case['pmd']) * 1e-12
    si.pdl = np.array(case['pdl'])
    return si, n


def run_trx(case, drv):
    from gnpy.core.elements import Transceiver
    from gnpy.tools.json_io import Transceiver as JT
    res = Result()
    si, n = _mk_si(case)
    raw_in = {'raw_osnr_ase': si.snr_lin_db, 'raw_osnr_ase_01nm': si.opt_snr_lin_db, 'raw_snr': si.gsnr_db,
              'raw_snr_01nm': si.opt_gsnr_db, 'baud': si.baud_rate}
    raw_in = {k: [float(x) for x in v] for k, v in raw_in.items()}
    rx = Transceiver(uid='rx', metadata=nets.loc())
    rx(si)
    for k in ('raw_osnr_ase', 'raw_osnr_ase_01nm', 'raw_snr', 'raw_snr_01nm'):
        res.cmp_floats(f'Transceiver._calc_snr.{k}', getattr(rx, k), raw_in[k], abs_=1e-9)
    # successive update_snr calls
    calls_json = []
    for args in case['calls']:
        calls_json.append([None if a is None else fl(a if isinstance(a, list) else [a] * n) for a in args])
    ans = drv.ask('c13.update_snr', calls=calls_json, **{k: fl(v) for k, v in raw_in.items()})
    empty = 0
    for ci, args in enumerate(case['calls']):
        with np.errstate(divide='ignore'):
            rx.update_snr(*[None if a is None else (np.array(a) if isinstance(a, list) else a) for a in args])
        present = [a for a in args if a is not None]
        if not present:
            empty += 1
        for k, attr in (('osnr_ase', 'osnr_ase'), ('osnr_ase_01nm', 'osnr_ase_01nm'), ('snr', 'snr'),
                        ('snr_01nm', 'snr_01nm')):
            res.cmp_floats(f'Transceiver.update_snr.{k}', getattr(rx, attr), [b2f(x) for x in ans[ci][k]], abs_=1e-9,
                           call=ci)
        # monitor: every figure is the RAW figure plus exactly the contributions of THIS call (history-free)
        for i in range(n):
            added = [(a[i] if isinstance(a, list) else a) for a in present]
            for attr, rawk, bw in (('snr_01nm', 'raw_snr_01nm', 12.5e9), ('osnr_ase_01nm', 'raw_osnr_ase_01nm', 12.5e9),
                                   ('snr', 'raw_snr', raw_in['baud'][i]), ('osnr_ase', 'raw_osnr_ase', raw_in['baud'][i])):
                exp = nets_g.indep_gsnr(raw_in[rawk][i], bw, added)
                got = float(getattr(rx, attr)[i])
                if abs(got - exp) > 1e-6:
                    res.fail(f'receiver figure: {attr}[{i}] after call {ci} is {got:.6f} dB, line figure plus the '
                             f'{len(added)} contributions of this call once each gives {exp:.6f} dB', call=ci)
                    break
    # penalties
    mode = {'format': 'x', 'baud_rate': 32e9, 'OSNR': 11, 'bit_rate': 100e9, 'roll_off': 0.15, 'tx_osnr': 40,
            'min_spacing': 37.5e9, 'cost': 1}
    raw = _loader_mode(case['penalties'])
    if raw:
        mode['penalties'] = raw
    pens = JT(type_variety='T', frequency={'min': 191.35e12, 'max': 196.1e12}, mode=[mode]).mode[0]['penalties']
    tables = [(imp, [float(x) for x in t['up_to_boundary']], [float(x) for x in t['penalty_value']])
              for imp, t in pens.items()]
    rx.calc_penalties(pens)
    ansp = drv.ask('c13.calc_penalties', nch=n, penalties=_pens_json(rx, tables))
    for (imp, xs, ys), mp in zip(tables, ansp['per']):
        _cmp_pens(res, f'Transceiver.calc_penalties.{imp}', rx.penalties[imp], mp)
    _cmp_pens(res, 'Transceiver.total_penalty', np.broadcast_to(rx.total_penalty, (n,)), ansp['total'])
    outside = 0
    impv = {'chromatic_dispersion': [float(x) for x in rx.chromatic_dispersion], 'pmd': [float(x) for x in rx.pmd],
            'pdl': [float(x) for x in rx.pdl]}     # the impairments accumulated at the receiver (ps/nm, ps, dB)
    for k_, arr in (('chromatic_dispersion', case['cd']), ('pmd', case['pmd']), ('pdl', case['pdl'])):
        if any(abs(a - b) > 1e-9 * max(1.0, abs(b)) for a, b in zip(impv[k_], arr)):
            res.fail(f'receiver impairment: {k_} at the receiver {impv[k_][:3]} is not the propagated value {arr[:3]}')
    tot = np.broadcast_to(rx.total_penalty, (n,))
    for i in range(n):
        exp = 0.0
        for imp, xs, ys in tables:
            e = nets_g.indep_interp(impv[imp][i], xs, ys)
            if math.isinf(e):
                outside += 1
            exp += e
        got = float(tot[i])
        if (math.isinf(exp) != math.isinf(got)) or (not math.isinf(exp) and abs(exp - got) > 1e-6):
            res.fail(f'penalty: channel {i} total penalty {got} dB, piecewise-linear tables (inf outside) give {exp} dB')
            break
    res.nontrivial = True
    res.stats.update({'trx': 1, 'trx_calls': len(case['calls']), 'trx_calls_without_contribution': empty,
                      'trx_channels': n, 'trx_penalty_tables': len(tables), 'trx_penalty_outside_table': outside})
    return res


class _Spy:
    """records the arguments of every Transceiver.update_snr call (wrapping at run time, no source change)"""

    def __enter__(self):
        from gnpy.core.elements import Transceiver
        self.cls = Transceiver
        self.orig = Transceiver.update_snr
        self.calls = []
        spy = self

        def wrapped(obj, *args):
            spy.calls.append((obj.uid, [None if a is None else float(np.atleast_1d(a)[0]) for a in args]))
            return spy.orig(obj, *args)
        Transceiver.update_snr = wrapped
        return self

    def __exit__(self, *a):
        self.cls.update_snr = self.orig


def _mode_model_json(ctx, m, idx):
    return {'id': idx, 'baud': int(m['baud_rate']), 'bit_rate': int(m['bit_rate']), 'min_spacing': int(m['min_spacing']),
            'offset': int(m['offset_mdb']), 'osnr': f2b(m['OSNR']), 'tx_osnr': f2b(m['tx_osnr']),
            'tables': [{'name': name, 'table': [[f2b(x), f2b(y)] for x, y in zip(xs, ys)]}
                       for name, xs, ys in _tables(ctx, m)]}


def _judge(metric, thr):
    """(verdict, ill) of the rounded worst-channel metric against the threshold; ill = not judged by the property"""
    if math.isnan(metric):
        return None, True
    if math.isinf(metric):
        return metric > 0, False
    r = nets_g.round2(metric)
    frac = metric * 100 - math.floor(metric * 100)
    if abs(r - thr) < 1e-6 or abs(frac - 0.5) < 1e-6 or abs(metric - thr) < 1e-6:
        return None, True
    if (r > thr) != (metric > thr):    # threshold off the 0.01 grid and inside the rounding interval
        return None, True
    return r > thr, False


def run_path(case, drv):
    from gnpy.topology.request import compute_path_dsjctn, compute_path_with_disjunction
    res = Result()
    mal = case.get('malformed')
    ctx = _build(case)
    eq = ctx['eq']
    modes = ctx['modes']
    by_name = {m['format']: m for m in modes}
    # ---- request construction: accepted or rejected with the stated error kind ------------------------------------------
    m_req = by_name.get(case['mode']) if case['mode'] is not None else None
    exp_err = drv.ask('c13.request_check', trx_known=mal != 'unknown_trx', mode_given=case['mode'] is not None,
                      mode_found=m_req is not None, baud=int(m_req['baud_rate']) if m_req else 0,
                      min_spacing=int(m_req['min_spacing']) if m_req else 0, spacing=int(case['spacing']))
    try:
        rqs = _requests(ctx, case, case['mode'])
        impl_err = None
    except Exception as e:   # noqa: BLE001
        impl_err = err_kind(e)
    res.cmp_exact('requests_from_json.error_kind', impl_err, exp_err)
    # monitor (independent of the model): the stated error kind per malformation; valid requests are accepted
    want = {'unknown_trx': 'EquipmentConfigError', 'unknown_mode': 'EquipmentConfigError',
            'baud_above_min_spacing': 'EquipmentConfigError'}.get(mal)
    if mal == 'spacing_below_min' and case['mode'] is not None:
        want = 'ServiceError'
    # (the error KIND is correspondence only; the property is about accepted vs rejected)
    if (impl_err is None) != (want is None):
        res.fail(f'request check: request with {mal or "valid"} parameters was {"accepted" if impl_err is None else "rejected (" + impl_err + ")"}, '
                 f'must be {"accepted" if want is None else "rejected"}')
    res.stats.update({'path': 1, f'path_request_{impl_err or "accepted"}': 1,
                      'path_calibration_fallback': int(case.get('calibrated') is False)})
    if impl_err or exp_err:
        res.nontrivial = True
        return res
    rq = rqs[0]
    pths = compute_path_dsjctn(ctx['net'], eq, rqs, [])
    path0 = pths[0]
    with _Spy() as spy, np.errstate(divide='ignore'):
        prop_paths, rev_paths, rev_prop = compute_path_with_disjunction(ctx['net'], eq, rqs, pths)
    reason = getattr(rq, 'blocking_reason', None)
    thr_margin = eq['SI']['default'].sys_margins
    src_uid, dst_uid = f'trx N{case["src"]}', f'trx N{case["dst"]}'
    rpath0 = rev_paths[0]
    from gnpy.core.elements import Roadm
    n_roadm = sum(1 for e in path0 if isinstance(e, Roadm))
    res.stats.update({f'path_roadms_{n_roadm}': 1, 'path_bidir': int(case['bidir']),
                      'path_fibre_dispersion_slope_or_per_frequency': int(bool(case.get('fiber'))),
                      'path_split_impairment_roadm': int('split' in (case.get('roadm_nodes') or [])),
                      'path_user_per_degree_impairment_on_route': int(any(c['user'] is not None for c in _crossing_list(case, path0))),
                      'path_express_crossing_with_osnr': int(any(c['ptype'] == 'express' and any(
                          p_['ptype'] == 'express' and any(b[2] is not None for b in p_['bands']) for p_ in c['profiles'])
                          for c in _crossing_list(case, path0))),
                      f'path_{"auto" if case["mode"] is None else "fixed"}': 1})

    def reverse_check(m, fwd_blocked):
        """reverse direction with mode m: correspondence + independent verdict; returns (pass or None, ill)"""
        rp = _prop(ctx, case, rpath0, m['baud_rate'], m['offset_mdb'] / 1000, m['tx_osnr'])
        ev = _indep_eval(rp, _adddrop(case, rpath0, rp), m['tx_osnr'], _tables(ctx, m))
        return rp, ev

    if case['mode'] is not None:
        # ================= fixed mode ========================================================================================
        m = m_req
        thr = m['OSNR'] + thr_margin
        fp = _prop(ctx, case, path0, m['baud_rate'], m['offset_mdb'] / 1000, m['tx_osnr'])
        n = fp['n']
        args = {'osnr': f2b(m['OSNR']), 'margin': f2b(thr_margin), 'bidir': case['bidir'],
                'fwd': dict({k: fl(v) for k, v in nets_g.rx_raw(fp['rx']).items()},
                            contribs=[None if r is None else fl(r) for r in fp['roadm']] + [fl([m['tx_osnr']] * n)],
                            penalties=_pens_json(fp['rx'], _tables(ctx, m)))}
        rp = rev_ev = None
        if case['bidir']:
            rp, rev_ev = reverse_check(m, False)
            args['rev'] = dict({k: fl(v) for k, v in nets_g.rx_raw(rp['rx']).items()},
                               contribs=[None if r is None else fl(r) for r in rp['roadm']] + [fl([m['tx_osnr']] * rp['n'])],
                               penalties=_pens_json(rp['rx'], _tables(ctx, m)))
        ans = drv.ask('c13.fixed', **args)
        rx = prop_paths[0][-1]
        res.cmp_floats('propagate.rx.snr_01nm', rx.snr_01nm, [b2f(x) for x in ans['fwd']['rx']['snr_01nm']], abs_=1e-9)
        res.cmp_floats('propagate.rx.snr', rx.snr, [b2f(x) for x in ans['fwd']['rx']['snr']], abs_=1e-9)
        res.cmp_floats('propagate.rx.osnr_ase_01nm', rx.osnr_ase_01nm,
                       [b2f(x) for x in ans['fwd']['rx']['osnr_ase_01nm']], abs_=1e-9)
        _cmp_pens(res, 'propagate.rx.total_penalty', np.broadcast_to(rx.total_penalty, (n,)), ans['fwd']['total'])
        ties = [ans['fwd']['tie']] + ([ans['rev']['tie']] if ans['rev'] else [])
        near = False
        for e in [ans['fwd']] + ([ans['rev']] if ans['rev'] else []):
            if e['round'] is not None and (abs(b2f(e['round']) - b2f(ans['thr'])) < 1e-6 or b2f(e['tie']) < 1e-4):
                near = True
        if case['bidir']:
            rrx = rev_prop[0][-1]
            res.cmp_floats('propagate.rev.rx.snr_01nm', rrx.snr_01nm, [b2f(x) for x in ans['rev']['rx']['snr_01nm']],
                           abs_=1e-9)
            _cmp_pens(res, 'propagate.rev.rx.total_penalty', np.broadcast_to(rrx.total_penalty, (rp['n'],)),
                      ans['rev']['total'])
        if near:
            res.ill += 1
        else:
            res.cmp_exact('compute_path_with_disjunction.fixed.blocking_reason', reason, ans['reason'])
        # argument lists of update_snr on the receivers
        _check_contribs(res, drv, case, spy.calls, [(path0, fp, [m['tx_osnr']], src_uid, dst_uid)] +
                        ([(rpath0, rp, [m['tx_osnr']], dst_uid, src_uid)] if case['bidir'] else []), loop=False)
        # ---- monitor -------------------------------------------------------------------------------------------------------------
        ev = _indep_eval(fp, _adddrop(case, path0, fp), m['tx_osnr'], _tables(ctx, m))
        _monitor_figures(res, 'forward', rx, ev)
        vf, ill = _judge(ev['min'], thr)
        vr, illr = (True, False)
        if case['bidir']:
            _monitor_figures(res, 'reverse', rev_prop[0][-1], rev_ev)
            vr, illr = _judge(rev_ev['min'], thr)
        if ill or illr:
            res.ill += 1
        else:
            exp_reason = None if (vf and vr) else 'MODE_NOT_FEASIBLE'
            if reason != exp_reason:
                res.fail(f'fixed-mode verdict: reported {reason}, worst channel forward {ev["min"]:.4f} dB'
                         + (f' reverse {rev_ev["min"]:.4f} dB' if case['bidir'] else '')
                         + f' against OSNR+margin {thr:.4f} dB requires {exp_reason}')
        res.cmp_exact('compute_path_with_disjunction.fixed.tsp_mode', rq.tsp_mode, m['format'])
        res.nontrivial = True
        met = [g - q for g, q in zip(ev['snr01'], ev['pen'])]
        res.stats.update({f'fixed_{reason or "served"}': 1, 'fixed_penalty_inf': int(math.isinf(ev['min'])),
                          'fixed_worst_channel_is_not_lowest_gsnr_channel': int(met.index(min(met)) != ev['snr01'].index(min(ev['snr01']))),
                          'fixed_penalty_differs_across_channels': int(max(ev['pen']) - min(ev['pen']) > 0.05 or
                                                                        (math.isinf(max(ev['pen'])) and not math.isinf(min(ev['pen'])))),
                          'fixed_some_channels_outside_table': int(math.isinf(max(ev['pen'])) and not math.isinf(min(ev['pen'])))})
        return res

    # ===================== automatic mode selection ===========================================================================
    fitting = [m for m in modes if m['min_spacing'] <= case['spacing']]
    idx = {m['format']: i for i, m in enumerate(modes)}
    pairs = sorted({(m['baud_rate'], m['offset_mdb']) for m in fitting}, reverse=True)
    props = {}
    for b, o in pairs:
        props[(b, o)] = _prop(ctx, case, path0, b, o / 1000, None)
    ans = drv.ask('c13.select', modes=[_mode_model_json(ctx, m, i) for i, m in enumerate(modes)],
                  spacing=int(case['spacing']), margin=f2b(thr_margin),
                  props=[_prop_json(props[p], p[0], p[1]) for p in pairs])
    res.cmp_exact('propagate_and_optimize_mode.pairs', [[int(b), int(o)] for b, o in pairs], ans['pairs'])
    near = any(j['round'] is not None and (abs(b2f(j['round']) - b2f(j['thr'])) < 1e-6 or b2f(j['tie']) < 1e-4)
               for j in ans['judgements'])
    impl_kind = reason if reason in ('NO_FEASIBLE_MODE', 'NO_FEASIBLE_BAUDRATE_WITH_SPACING', 'NO_COMPUTED_SNR') else 'served'
    if case['bidir'] and reason == 'MODE_NOT_FEASIBLE':
        impl_kind = 'served'
    impl_mode = idx.get(rq.tsp_mode) if rq.tsp_mode is not None else None
    rx = prop_paths[0][-1] if prop_paths[0] else None
    cur, rep = ans['current'], ans['repaired']
    cur['explored'], rep['explored'] = ans['explored_current'], ans['explored_repaired']

    def same(o):
        if o['kind'] != impl_kind or o['mode'] != impl_mode:
            return False
        if rx is None or o['figures'] is None:
            return rx is None and o['figures'] is None
        a = [float(x) for x in rx.snr_01nm]
        b = [b2f(x) for x in o['figures']['rx']['snr_01nm']]
        return len(a) == len(b) and all(abs(x - y) <= 1e-9 for x, y in zip(a, b))
    mixed = any(a['baud_rate'] == b['baud_rate'] and a['offset_mdb'] != b['offset_mdb'] for a in fitting for b in fitting)
    same_rep, same_cur = same(rep), same(cur)
    # F9 (fixed in /repo as 5d202380): the loop used to judge every mode of a baud rate on one (baud, offset) pair's
    # propagation.  The implementation must equal the repaired loop `selectMode`; `selectModeOld` (the old loop) is kept in
    # the model only as the counterexample witness and is used here for a statistic.
    old_loop = mixed and same_cur and not same_rep
    if near:
        res.ill += 1
    else:
        res.compared += 3
        if not same_rep:
            res.mismatch('propagate_and_optimize_mode', {'kind': impl_kind, 'mode': impl_mode},
                         {'repaired': {k: rep[k] for k in ('kind', 'mode', 'prop')},
                          'old_loop_F9': {k: cur[k] for k in ('kind', 'mode', 'prop')}}, behaves_like_old_F9_loop=old_loop)
    chosen = modes[impl_mode] if impl_mode is not None else None
    # reverse direction with the retained mode
    rev_ev = rp = None
    if case['bidir'] and chosen is not None:
        rp, rev_ev = reverse_check(chosen, False)
        a = drv.ask('c13.fixed', osnr=f2b(chosen['OSNR']), margin=f2b(thr_margin), bidir=False,
                    fwd=dict({k: fl(v) for k, v in nets_g.rx_raw(rp['rx']).items()},
                             contribs=[None if r is None else fl(r) for r in rp['roadm']] + [fl([chosen['tx_osnr']] * rp['n'])],
                             penalties=_pens_json(rp['rx'], _tables(ctx, chosen))))
        rrx = rev_prop[0][-1]
        res.cmp_floats('propagate.rev.rx.snr_01nm', rrx.snr_01nm, [b2f(x) for x in a['fwd']['rx']['snr_01nm']], abs_=1e-9)
        rnear = a['fwd']['round'] is not None and (abs(b2f(a['fwd']['round']) - b2f(a['thr'])) < 1e-6
                                                    or b2f(a['fwd']['tie']) < 1e-4)
        if rnear or near:
            res.ill += 1
        else:
            mr = drv.ask('c13.auto_reason', kind=impl_kind, bidir=True, rev_pass=a['pass_fwd'])
            res.cmp_exact('compute_path_with_disjunction.auto.blocking_reason', reason, mr)
    elif not near:
        mr = drv.ask('c13.auto_reason', kind=impl_kind, bidir=False, rev_pass=True)
        res.cmp_exact('compute_path_with_disjunction.auto.blocking_reason', reason, mr)
    # update_snr argument lists during the loop (forward) — the order explored by the implementation is the current
    # loop's or the repaired loop's; both give "roadm entries + exactly one tx" per call, which is what is compared
    if pairs:
        _check_crossings(res, drv, case, path0, props[pairs[0]], fitting[0]['tx_osnr'], 'auto')
        n_rev = 2 if (case['bidir'] and chosen is not None) else 0
        explored = None if (near or not same_rep) else [rep['explored']]
        _check_loop_contribs(res, drv, spy.calls[:len(spy.calls) - n_rev], path0, props[pairs[0]], src_uid, dst_uid, modes,
                             explored, n_roadm)

    # ---- monitor: every fitting mode judged on ITS OWN propagation -------------------------------------------------------------
    own = {}
    for m in fitting:
        p = props[(m['baud_rate'], m['offset_mdb'])]
        ev = _indep_eval(p, _adddrop(case, path0, p), m['tx_osnr'], _tables(ctx, m))
        v, i_ = _judge(ev['min'], m['OSNR'] + thr_margin)
        own[m['format']] = (None if i_ else v, ev)       # None = sits on a tie: not judged by the property
    key = lambda m: (m['baud_rate'], m['bit_rate'])      # noqa: E731
    failures = []
    skipped_for_tie = False
    if not fitting:
        if reason != 'NO_FEASIBLE_BAUDRATE_WITH_SPACING':
            failures.append(f'mode selection: no mode fits the spacing but the request is reported as {reason}')
    else:
        feas = [m for m in fitting if own[m['format']][0] is True]
        unknown = [m for m in fitting if own[m['format']][0] is None]
        best = max(key(m) for m in feas) if feas else None
        # a near-tie mode matters only when it ranks at or above the expected winner (or when nothing else is feasible)
        relevant = [m for m in unknown if best is None or key(m) >= best]
        if relevant:
            skipped_for_tie = True
        elif not feas:
            if reason != 'NO_FEASIBLE_MODE':
                failures.append(f'mode selection: no fitting mode is feasible on its own propagation but the request is '
                                f'reported as {reason or "served with " + str(rq.tsp_mode)}')
        else:
            if reason in ('NO_FEASIBLE_MODE', 'NO_FEASIBLE_BAUDRATE_WITH_SPACING', 'NO_COMPUTED_SNR'):
                failures.append(f'mode selection: blocked as {reason} although mode(s) {[m["format"] for m in feas]} '
                                f'are feasible and fit the spacing')
            elif chosen is None or chosen not in fitting:
                failures.append(f'mode selection: chosen mode {rq.tsp_mode} does not fit the spacing')
            elif own[chosen['format']][0] is False:
                failures.append(f'mode selection: chosen mode {chosen["format"]} is not feasible on its own propagation '
                                f'(worst channel {own[chosen["format"]][1]["min"]:.4f} dB, needs > '
                                f'{chosen["OSNR"] + thr_margin:.4f} dB)')
            elif own[chosen['format']][0] is None:
                skipped_for_tie = True          # a lower-ranked near-tie mode was chosen: its feasibility is not judged
            elif key(chosen) != best:
                failures.append(f'mode selection: chosen {chosen["format"]} (baud {chosen["baud_rate"]:.4g}, bit rate '
                                f'{chosen["bit_rate"]:.4g}) but a feasible fitting mode has (baud, bit rate) = {best}')
            else:
                vr_ok = True
                if case['bidir']:
                    vr, illr = _judge(rev_ev['min'], chosen['OSNR'] + thr_margin)
                    vr_ok = None if illr else vr
                if vr_ok is not None:
                    exp_reason = None if vr_ok else 'MODE_NOT_FEASIBLE'
                    if reason != exp_reason:
                        failures.append(f'mode selection: mode {chosen["format"]} selected, reverse direction '
                                        f'{"passes" if vr_ok else "fails"}, but the request is reported as {reason}')
    if skipped_for_tie:
        res.ill += 1
    # the figures reported for a SERVED request must be those of the selected mode's own propagation (what is left on the
    # receiver after a request blocked by the selection is not stated by the property: correspondence only, see `same`)
    if chosen is not None and rx is not None and chosen in fitting:
        if reason is None or (case['bidir'] and reason == 'MODE_NOT_FEASIBLE'):
            msg = _monitor_figures(None, 'forward', rx, own[chosen['format']][1])
            if msg:
                failures.append(msg)
            if case['bidir'] and rev_ev is not None:
                msg = _monitor_figures(None, 'reverse', rev_prop[0][-1], rev_ev)
                if msg:
                    failures.append(msg)
        # bookkeeping of the request object after selection: correspondence (the model's selected mode carries these values)
        res.cmp_exact('compute_path_with_disjunction.request_attributes_after_selection',
                      [rq.baud_rate, rq.OSNR, rq.bit_rate, rq.tx_osnr, rq.offset_db],
                      [chosen['baud_rate'], chosen['OSNR'], chosen['bit_rate'], chosen['tx_osnr'], chosen['offset_mdb'] / 1000])
    for f in failures:
        res.fail(('F9-like ' if old_loop else '') + f, cls='unlisted')
    res.nontrivial = bool(fitting)
    res.stats.update({f'auto_{reason or "served"}': 1, 'auto_modes': len(modes), 'auto_fitting': len(fitting),
                      'auto_pairs': len(pairs), 'auto_same_baud_different_offset': int(mixed),
                      'auto_old_F9_loop_would_differ': int(mixed and (cur['kind'], cur['mode'], cur['prop']) != (rep['kind'], rep['mode'], rep['prop'])),
                      'auto_feasible_modes': sum(1 for m in fitting if own[m['format']][0] is True),
                      'auto_monitor_skipped_for_relevant_tie': int(skipped_for_tie)})
    return res


def _monitor_figures(res, which, rx, ev):
    """reported receiver GSNR (0.1 nm) and total penalty = independent evaluation (tx and each add/drop once)"""
    got = [float(x) for x in rx.snr_01nm]
    tot = [float(x) for x in np.broadcast_to(rx.total_penalty, (len(got),))]
    msg = None
    if len(got) != len(ev['snr01']):
        msg = f'receiver figures: {which} receiver reports {len(got)} channels, the propagation has {len(ev["snr01"])}'
    else:
        for i, (g, e, p, q) in enumerate(zip(got, ev['snr01'], tot, ev['pen'])):
            if abs(g - e) > 1e-6:
                msg = (f'receiver figures: {which} GSNR(0.1nm)[{i}] reported {g:.6f} dB; line GSNR with transmitter OSNR and '
                       f'each add/drop OSNR counted once is {e:.6f} dB')
                break
            if (math.isinf(p) != math.isinf(q)) or (not math.isinf(p) and abs(p - q) > 1e-6):
                msg = f'receiver figures: {which} total penalty[{i}] reported {p} dB, tables give {q} dB'
                break
    if msg and res is not None:
        res.fail(msg)
    return msg


def _check_contribs(res, drv, case, calls, dirs, loop):
    """fixed mode: per direction the emitter gets [tx], the receiver gets one entry per ROADM then tx"""
    exp = []
    for path, prop, txs, s_uid, d_uid in dirs:
        from gnpy.core.elements import Roadm
        is_roadm = [isinstance(e, Roadm) for e in path]
        vals, it = [], iter(prop['roadm'])
        for r in is_roadm:
            v = next(it) if r else None
            vals.append(None if v is None else f2b(v[0]))
        a = drv.ask('c13.contribs', path=vals, is_roadm=is_roadm, txs=fl(txs))
        res.cmp_exact('propagate.args(roadm values -> list)', [None if r is None else round(r[0], 9) for r in prop['roadm']] + [round(float(txs[0]), 9)],
                      [None if x is None else round(b2f(x), 9) for x in a['propagate']])
        # the list as the model builds it from the ROADM types / profiles / per_degree_impairments of the route
        m0 = _check_crossings(res, drv, case, path, prop, txs[0], 'fixed')
        exp.append((s_uid, [txs[0]]))
        exp.append((d_uid, m0 if m0 is not None else [None if x is None else b2f(x) for x in a['propagate']]))
    got = [(u, [None if x is None else round(x, 9) for x in l]) for u, l in calls]
    expr = [(u, [None if x is None else round(x, 9) for x in l]) for u, l in exp]
    res.cmp_exact('propagate.update_snr.arguments', got, expr)
    for (u, l), (path, prop, txs, s_uid, d_uid) in zip(calls[1::2], dirs):
        n_r = sum(1 for r in prop['roadm'])
        res.cmp_exact('propagate.update_snr.argument_count', len(l), n_r + 1, receiver=u)


def _check_loop_contribs(res, drv, calls, path0, prop, src_uid, dst_uid, modes, explored, n_roadm):
    """automatic mode: iteration k gives the emitter [tx_k] and the receiver (one entry per ROADM) + [tx_k]; the list does
    not grow from one iteration to the next.  `explored` = mode ids in the order the matched loop variant explores."""
    from gnpy.core.elements import Roadm
    loop_calls = calls[: 2 * (len(calls) // 2)]
    em = [l for u, l in loop_calls[0::2]]
    rc = [l for u, l in loop_calls[1::2]]
    if explored:
        # the tx_osnr sequence handed to the emitter = the modes explored, in order, by the loop variant(s) whose outcome
        # the implementation produced
        exp_txs = [[float(modes[i]['tx_osnr']) for i in ex] for ex in explored]
        got_tx = [l[0] if len(l) == 1 else None for l in em]
        res.compared += 1
        if got_tx not in exp_txs:
            res.mismatch('propagate_and_optimize_mode.explored_tx_sequence', got_tx, exp_txs)
    is_roadm = [isinstance(e, Roadm) for e in path0]
    vals, it = [], iter(prop['roadm'])
    for r in is_roadm:
        v = next(it) if r else None
        vals.append(None if v is None else f2b(v[0]))
    txs = [l[0] for l in em if len(l) == 1]
    if txs:
        a = drv.ask('c13.contribs', path=vals, is_roadm=is_roadm, txs=fl(txs))
        model = [[None if x is None else round(b2f(x), 9) for x in l] for l in a['loop']]
        got = [[None if x is None else round(x, 9) for x in l] for l in rc[:len(txs)]]
        res.cmp_exact('propagate_and_optimize_mode.update_snr.arguments', got, model)
    for k, l in enumerate(rc):
        if not res.cmp_exact('propagate_and_optimize_mode.update_snr.argument_count', len(l), n_roadm + 1, iteration=k):
            break


# ---------------------------------------------------------------------------------------------------------------------
# shrinking
# ---------------------------------------------------------------------------------------------------------------------

def shrink_candidates(case):
    if case['kind'] == 'path':
        for i in range(len(case['modes'])):
            if len(case['modes']) > 1 and case['modes'][i]['format'] != case['mode']:
                c = copy.deepcopy(case)
                del c['modes'][i]
                yield c
        for i, m in enumerate(case['modes']):
            for imp in list(m['penalties']):
                c = copy.deepcopy(case)
                del c['modes'][i]['penalties'][imp]
                yield c
        if case['bidir']:
            c = copy.deepcopy(case)
            c['bidir'] = False
            yield c
        for key in ('fwd', 'rev'):
            for i, link in enumerate(case[key]):
                if len(link) > 1:
                    c = copy.deepcopy(case)
                    c[key][i] = link[:-1]
                    yield c
        if case['power'] is not None:
            c = copy.deepcopy(case)
            c['power'] = None
            yield c
    elif case['kind'] == 'trx':
        n = len(case['baud'])
        if n > 1:
            for i in range(n):
                c = copy.deepcopy(case)
                for k in ('baud', 'ase', 'nli', 'cd', 'pmd', 'pdl'):
                    del c[k][i]
                c['calls'] = [[(a[:i] + a[i + 1:]) if isinstance(a, list) else a for a in call] for call in c['calls']]
                yield c
        if len(case['calls']) > 1:
            for i in range(len(case['calls'])):
                c = copy.deepcopy(case)
                del c['calls'][i]
                yield c
        for imp in list(case['penalties']):
            c = copy.deepcopy(case)
            del c['penalties'][imp]
            yield c
    elif case['kind'] == 'loader':
        for imp in list(case['penalties']):
            c = copy.deepcopy(case)
            del c['penalties'][imp]
            yield c
