"""C12 — requests declared disjoint never share a link in either direction.

Implementation under test: requests_from_json -> correct_json_route_list -> disjunctions_from_json ->
deduplicate_disjunctions -> requests_aggregation -> compute_path_dsjctn (steps 1-5, isdisjoint, find_reversed_path),
once in a while the whole worker_utils.planning.

  implementation <-> Lean   : returned paths of every group through the verified checker `allDisjointB`; for a single
                              pair `DisjunctionError` <-> `disjointOracle`; `isdisjoint` on real short lists <->
                              `isdisjointPy`/`shortList`; the returned combination <-> the model of steps 2-5
                              (`selectDisjoint`) fed with the candidate lists of step 1
  Lean <-> Python brute force: links of every path, existence of an acceptable disjoint pair, candidate counts
  MONITOR (implementation <-> own OMS computation in Python, NOT the code's isdisjoint): pairwise link-disjointness in
  both directions for every requested group; every returned path a loop-free walk between its end points honouring
  STRICT lists; for a single pair: error iff no acceptable disjoint pair exists (cut-off 80); LOOSE lists dropped only
  when no disjoint pair honours them.
"""
import copy
import json

from common.util import Result, err_kind
from common import meshes, routing

ID = 'C12'
N = {'quick': 700, 'thorough': 10000}
LEAN_MODULES = ['GnpyProofs.Props.C12']
THEOREMS = [f'Gnpy.Route.{t}' for t in (
    'linkDisjoint_checker', 'allDisjoint_checker', 'linkDisjoint_symm', 'linkDisjoint_iff', 'oms_disjoint_iff_links',
    'zip_sites', 'linksOf_of_sites', 'isdisjoint_test_iff_linkDisjoint', 'disjointOracle_iff',
    'step2_combinations_disjoint', 'step2_combinations_good', 'selection_sound', 'step4_nil_iff',
    'step5_single_none_iff', 'pair_complete', 'group_complete_partial', 'overlapping_complete_fails_current')] + [
    f'Gnpy.Sync.{t}' for t in (
        'dedup_spec', 'dedup_no_duplicates_fails_current', 'aggregation_preserves_disjointness_demands',
        'aggregation_pair_demand', 'partners_never_merged', 'merge_requires_same_disj')] + [
    'Gnpy.Route.single_vector_complete', 'Gnpy.Route.single_vector_complete_distinct']
RULE = ('one PRNG; a case is a random mesh (ring with chords / grid / random connected graph, quick 4-7 ROADMs, thorough '
        'up to 10; bidirectional links of 1-3 spans, symmetric or not) designed by GNPy, 2-6 requests (often sharing '
        'end points, as in 1+1 protection; ~35 % with STRICT / LOOSE / mixed include lists of ROADMs or line elements) '
        'and 1-4 synchronisation vectors: pairs, triples, quadruples, overlapping vectors, duplicated vectors. About '
        'half of the cases hold exactly one pair (completeness is judged there). Unsatisfiable vectors (bridges, '
        'trees, contradictory STRICT lists) are the rejected stream: DisjunctionError. ~22 % of the cases are overlapping '
        'vectors around one shared request with a 1+1 twin in a well-connected mesh (later vectors must stay consistent '
        'with the path already fixed); ~15 % stress the vector bookkeeping: identical requests (aggregation) with equal or '
        'different partners, vectors repeated 2-7 times with permuted ids; ~15 % are one vector of 2-3 requests on a '
        'triangle / square (+ diagonal) / 5-ring where each request has its own STRICT, LOOSE or mixed include list '
        '(a STRICT detour colliding with the partner\'s only route next to a partner missing only a LOOSE hop), both '
        'orders inside the vector; ~7 % pairs/triples between the same ROADMs competing for ONE include element (first '
        'LOOSE, later STRICT, and reversed); ~6 % long rings (12-14 ROADMs, 2-5 spans per link) whose only disjoint alternative is '
        '75-85 elements long (the 80-hop cut-off from both sides); 15 % of the random meshes have a PARALLEL link (links '
        'are identified by OMS); link-only / node-only disjointness flags and vectors of one request now and then. Non-trivial = some vector has a '
        'request with at least two candidate paths.')
MODEL_SCOPE = ('modelled: isdisjoint, the short list of step 1, find_reversed_path (C11), steps 2-5 of '
               'compute_path_dsjctn over candidate indices incl. Python remove-while-iterating semantics and '
               'remove_candidate; deduplicate_disjunctions (nested remove-while-iterating) and the vector bookkeeping of '
               'requests_aggregation (group G\'s C19 model requestsAggregationD, imported) under exact correspondence; '
               'oracle instead of a model for networkx all_simple_paths (candidate lists of step 1 are inputs of the '
               'selection model). One STRICT hop makes a list STRICT. not modelled: propagation, spectrum')
PARTIAL = ['completeness (a disjoint solution is found whenever one exists) is proved for one pair of requests and for '
           'ONE vector of any size under the explicit NoOrphan hypothesis (single_vector_complete; the hypothesis holds '
           'for pairs and whenever the requests have pairwise different end points), and monitored for pairs; for '
           'several / overlapping vectors only soundness is claimed: the first combination of one vector can exclude '
           'every combination of another (step 5 has no backtracking; witness overlapping_complete_fails_current)']

MANIFEST = {
    'text': 'Lean 4 theorems over a model of compute_path_dsjctn steps 2-5 (candidate combinations, Python '
            'remove-while-iterating pruning, constraint filter with alternates, first-combination selection with '
            'remove_candidate): selection_sound - for ANY set of synchronisation vectors (pairs, larger, overlapping) every '
            'request gets one path and any two requests of a vector get paths that passed the disjointness test, else '
            'the result is a DisjunctionError; isdisjoint_test_iff_linkDisjoint - the code\'s isdisjoint test on its short '
            'lists, applied in both directions, is exactly "no common ROADM-to-ROADM link, a link and its opposite '
            'identified"; pair_complete + disjointOracle_iff - for one pair of requests an error occurs iff no acceptable '
            'link-disjoint pair of candidates (<= 80 hops) exists. The selection model is fed with the real candidate '
            'lists and compared path-by-path with the code on every run; returned paths go through the verified checker '
            'and an independent OMS-based monitor.',
    'note': 'networkx all_simple_paths is not modelled (its candidate lists are inputs of the selection model). '
            'deduplicate_disjunctions (own model) and the vector bookkeeping of requests_aggregation (group G\'s C19 model, '
            'imported) are under exact correspondence: dedup_spec (nothing invented, nothing lost; "no duplicates left" is '
            'false for the code and harmless), aggregation_preserves_disjointness_demands (every declared vector survives '
            'with renamed ids), partners_never_merged. Completeness is claimed for a single pair only. Trusted base: Lean 4.33 kernel (+ leanchecker in thorough), Mathlib v4.33, axioms '
            'propext/Classical.choice/Quot.sound only.',
    'technique': 'Lean 4 theorems over an executable model of the candidate selection + verified disjointness checker and '
                 'pair oracle, differential correspondence against the real code, independent monitor',
}

S, L = 'STRICT', 'LOOSE'


# --------------------------------------------------------------------------------------------------------------------
# generator
# --------------------------------------------------------------------------------------------------------------------

def gen_overlap(rng, tier):
    """overlapping vectors around one shared request in a well-connected mesh: the shared request A has a 1+1 twin B
    (so the first vector does not give A its shortest candidate) and further vectors {A, C}, {A, D}, {B, C} ...;
    every later vector has to stay consistent with the path already fixed for the shared request"""
    n = rng.choice([5, 6, 6, 7])
    mesh = meshes.rand_mesh(rng, n, shape=rng.choice(['ring', 'random', 'random']), max_extra=rng.choice([3, 4, 5]))
    for lk in mesh['links']:                      # single-span links keep the candidate lists short
        lk[2], lk[3], lk[4] = lk[2][:1], lk[3][:1], 'plain'
    s, t = rng.sample(range(n), 2)
    ends = [(s, t), (s, t) if rng.random() < 0.75 else (t, s)]
    for _ in range(rng.choice([1, 1, 2])):
        r = rng.random()
        ends.append((s, rng.choice([x for x in range(n) if x != s])) if r < 0.3 else
                    (rng.choice([x for x in range(n) if x != t]), t) if r < 0.5 else tuple(rng.sample(range(n), 2)))
    reqs = [{'id': i, 'src': ['T', a], 'dst': ['T', b], 'inc': [], 'bidir': False, 'mode': 'mode 1'}
            for i, (a, b) in enumerate(ends)]
    sync = [rng.sample([0, 1], 2)]
    for c in range(2, len(reqs)):
        sync.append(rng.sample([rng.choice([0, 0, 1]), c], 2))
    if len(reqs) == 4 and rng.random() < 0.4:
        sync.append([2, 3])
    if rng.random() < 0.3:
        rng.shuffle(sync)
    return {'kind': 'disj', 'mesh': mesh, 'reqs': reqs, 'sync': sync, 'via': 'dsjctn'}


def gen_sync(rng, tier):
    """stress of the vector bookkeeping: several identical requests (aggregation candidates, with equal or different
    sets of partners), vectors repeated 2-4 times with permuted ids, on a small ring so that paths usually exist"""
    n = rng.choice([4, 5, 5, 6])
    mesh = meshes.rand_mesh(rng, n, shape='ring')
    for lk in mesh['links']:
        lk[2], lk[3], lk[4] = lk[2][:1], lk[3][:1], 'plain'
    k = rng.randint(3, 6)
    ends = [tuple(rng.sample(range(n), 2)) for _ in range(rng.choice([1, 2, 2, 3]))]
    reqs = []
    for i in range(k):
        s, t = rng.choice(ends)
        reqs.append({'id': i, 'src': ['T', s], 'dst': ['T', t], 'inc': [], 'bidir': rng.random() < 0.15,
                     'mode': 'mode 1' if rng.random() < 0.85 else 'mode 2'})
    pool = []
    for _ in range(rng.choice([1, 2, 2, 3])):
        pool.append(rng.sample(range(k), min(k, rng.choice([2, 2, 3]))))
    sync = []
    for _ in range(rng.choice([1, 2, 3, 4, 5, 6, 7])):
        g = list(rng.choice(pool))
        if rng.random() < 0.5:
            rng.shuffle(g)
        sync.append(g)
    return {'kind': 'disj', 'mesh': mesh, 'reqs': reqs, 'sync': sync, 'via': 'dsjctn' if rng.random() < 0.95 else 'planning'}


def gen_strict_loose(rng, tier):
    """one vector of 2-3 requests on a tiny mesh (triangle, square + diagonal, square, ring of 5) where every request has
    its own include list with its own hop types: a STRICT detour of one request that collides with the only route left
    to its partner, next to a partner that merely misses a LOOSE hop - in both orders inside the vector.  A STRICT list
    is never relaxed: either it is crossed in order by the returned path or the computation stops with an error."""
    shape = rng.choice(['triangle', 'square+diag', 'square+diag', 'square', 'ring5'])
    n, pairs = {'triangle': (3, [(0, 1), (1, 2), (0, 2)]),
                'square+diag': (4, [(0, 1), (1, 2), (2, 3), (0, 3), (0, 2)]),
                'square': (4, [(0, 1), (1, 2), (2, 3), (0, 3)]),
                'ring5': (5, [(0, 1), (1, 2), (2, 3), (3, 4), (0, 4)])}[shape]
    km = lambda: rng.choice([20, 40, 50, 80, 80, 100])          # noqa: E731
    links = []
    for a, b in pairs:
        x = km()
        links.append([a, b, [x], [x if rng.random() < 0.8 else km()], 'plain'])
    mesh = {'n': n, 'links': links}
    k = rng.choice([2, 2, 2, 3])
    reqs = []
    for i in range(k):
        if reqs and rng.random() < 0.5:
            s, t = reqs[0]['src'][1], reqs[0]['dst'][1]
            if rng.random() < 0.3:
                s, t = t, s
        else:
            s, t = rng.sample(range(n), 2)
        inc = []
        if rng.random() < 0.85:
            paths = routing.mesh_simple_paths(mesh, s, t, limit=50)
            r = rng.random()
            if paths and r < 0.75:
                p = rng.choice(paths)                       # any route, the long way round included
                items = []
                for a, b in zip(p, p[1:]):
                    items += [['R', a], ['L', a, b, round(rng.random() * 0.999, 3)]]
                items = items[1:]
                pos = sorted(rng.sample(range(len(items)), min(rng.choice([1, 1, 2]), len(items))))
                inc = [items[j] for j in pos]
            else:
                inc = [['R', rng.choice([x for x in range(n)])]]
            kind = rng.choice(['S', 'S', 'L', 'L', 'M'])
            hops = [S] * len(inc) if kind == 'S' else [L] * len(inc) if kind == 'L' else \
                [rng.choice([S, L]) for _ in inc]
            inc = [[it, h] for it, h in zip(inc, hops)]
        reqs.append({'id': i, 'src': ['T', s], 'dst': ['T', t], 'inc': inc, 'bidir': False, 'mode': 'mode 1'})
    tri = [(a, m, b) for a in range(n) for m in range(n) for b in range(n) if len({a, m, b}) == 3 and
           all(tuple(sorted(e)) in pairs for e in ((a, m), (m, b), (a, b)))]
    if tri and rng.random() < 0.55:
        # targeted: A goes s -> t (adjacent) and MUST (STRICT) pass the third corner m of a triangle; the partner B lives on
        # that detour and only has a LOOSE wish, usually one its route does not cross
        s, m, t = rng.choice(tri)
        a_inc = [[['R', m], S]]
        if rng.random() < 0.3:
            a_inc.insert(rng.choice([0, 1]), [['L', s, m, 0.5] if rng.random() < 0.5 else ['R', s], rng.choice([S, L])])
        b_ends = rng.choice([(s, m), (m, t), (s, t), (t, s), (m, s), (t, m)])
        others = [x for x in range(n)]
        b_inc = [[['R', rng.choice(others)], L]]
        if rng.random() < 0.3:
            b_inc.append([['R', rng.choice(others)], L])
        if rng.random() < 0.15:
            b_inc = []
        reqs = [{'id': 0, 'src': ['T', s], 'dst': ['T', t], 'inc': a_inc, 'bidir': False, 'mode': 'mode 1'},
                {'id': 1, 'src': ['T', b_ends[0]], 'dst': ['T', b_ends[1]], 'inc': b_inc, 'bidir': False,
                 'mode': 'mode 1'}]
        if rng.random() < 0.25:
            c = rng.sample(range(n), 2)
            reqs.append({'id': 2, 'src': ['T', c[0]], 'dst': ['T', c[1]], 'bidir': False, 'mode': 'mode 1',
                         'inc': [] if rng.random() < 0.5 else [[['R', rng.choice(others)], rng.choice([S, L])]]})
        k = len(reqs)
    order = list(range(k))
    rng.shuffle(order)
    return {'kind': 'disj', 'mesh': mesh, 'reqs': reqs, 'sync': [order], 'via': 'dsjctn'}


def gen_long_ring(rng, tier):
    """the 80-hop cut-off of step 1 (`all_simple_paths(cutoff=80)`: candidates of at most 81 elements): a ring of 12-14
    ROADMs with 2-5 spans per link and a 1+1 pair whose only disjoint alternative is the long way round, 77 ... 85
    elements long - completeness 'for candidate paths of at most 80 elements' on both sides of the limit (a candidate of
    exactly 81 elements is the boundary and is not judged)"""
    n = rng.choice([12, 13, 14])
    h = rng.choice([8, 9, 9, 10])                       # hops of the long way
    d = n - h                                           # hops of the short way
    target = rng.choice([75, 77, 79, 79, 81, 83, 83, 85])      # elements of the long way: 3 + sum(2k+2)
    ks = [3] * h
    total = lambda: 3 + sum(2 * k + 2 for k in ks)      # noqa: E731
    guard = 0
    while total() != target and guard < 200:
        i = rng.randrange(h)
        if total() < target and ks[i] < 5:
            ks[i] += 1
        elif total() > target and ks[i] > 2:
            ks[i] -= 1
        guard += 1
    links = []
    # ROADMs 0..n-1 on a ring; the pair runs 0 -> d (short way 0,1,..,d; long way 0,n-1,...,d)
    for i in range(n):
        a, b = i, (i + 1) % n
        k = 3 if i < d else ks[i - d]
        if i < d:
            k = rng.choice([2, 3, 3])
        spans = [80] * k
        links.append([min(a, b), max(a, b), list(spans), list(spans), rng.choice(['plain', 'plain', 'fused'])])
    if rng.random() < 0.5:
        # one line of the long way ends in a Fused: the long way becomes 76 ... 86 elements (even lengths, 80 included)
        links[rng.randrange(d, n)][4] = 'fusedend'
    mesh = {'n': n, 'links': links}
    s, t = (0, d) if rng.random() < 0.7 else (d, 0)
    reqs = [{'id': 0, 'src': ['T', s], 'dst': ['T', t], 'inc': [], 'bidir': False, 'mode': 'mode 1'},
            {'id': 1, 'src': ['T', s] if rng.random() < 0.7 else ['T', t],
             'dst': ['T', t], 'inc': [], 'bidir': False, 'mode': 'mode 1'}]
    if reqs[1]['src'] == reqs[1]['dst']:
        reqs[1]['src'], reqs[1]['dst'] = ['T', t], ['T', s]
    return {'kind': 'disj', 'mesh': mesh, 'reqs': reqs, 'sync': [rng.sample([0, 1], 2)], 'via': 'dsjctn'}


def gen_compete(rng, tier):
    """two (or three) requests of ONE vector between the same ROADMs that compete for the same include element, which only
    one of them can have because they must be disjoint: the FIRST-listed request names it as a LOOSE hop, a LATER one as a
    STRICT hop (and the other way round now and then).  The STRICT request must be routed across the element (the LOOSE
    wish of the other is dropped) - or the computation stops; a returned route never ignores a STRICT hop."""
    shape = rng.choice(['three-routes', 'three-routes', 'square+diag', 'four-routes'])
    if shape == 'square+diag':
        n, pairs, s, t, mids = 4, [(0, 1), (1, 2), (2, 3), (0, 3), (0, 2)], 0, 2, [1, 3]
    elif shape == 'three-routes':
        n, pairs, s, t, mids = 4, [(0, 1), (0, 2), (2, 1), (0, 3), (3, 1)], 0, 1, [2, 3]
    else:
        n, pairs, s, t, mids = 5, [(0, 1), (0, 2), (2, 1), (0, 3), (3, 1), (0, 4), (4, 1)], 0, 1, [2, 3, 4]
    km = lambda: rng.choice([40, 50, 60, 70, 80, 100])          # noqa: E731
    links = []
    for a, b in pairs:
        x = km()
        links.append([a, b, [x], [x], 'plain'])
    mesh = {'n': n, 'links': links}
    if rng.random() < 0.3:
        s, t = t, s
    m = rng.choice(mids)
    item = rng.choice([['R', m], ['L', s, m, 0.5] if (min(s, m), max(s, m)) in [tuple(sorted(p)) for p in pairs] else ['R', m],
                       ['L', m, t, round(rng.random() * 0.99, 3)], ['L', m, t, 0.5]])
    first, later = (L, S) if rng.random() < 0.75 else (S, L)
    reqs = [{'id': 0, 'src': ['T', s], 'dst': ['T', t], 'inc': [[list(item), first]], 'bidir': False, 'mode': 'mode 1'},
            {'id': 1, 'src': ['T', s], 'dst': ['T', t], 'inc': [[list(item), later]], 'bidir': False, 'mode': 'mode 1'}]
    if rng.random() < 0.25:
        reqs.append({'id': 2, 'src': ['T', s], 'dst': ['T', t], 'bidir': False, 'mode': 'mode 1',
                     'inc': [] if rng.random() < 0.5 else [[list(item), rng.choice([S, L])]]})
    order = list(range(len(reqs)))
    if rng.random() < 0.2:
        rng.shuffle(order)
    return {'kind': 'disj', 'mesh': mesh, 'reqs': reqs, 'sync': [order], 'via': 'dsjctn'}


def gen(rng, tier, widen=False):
    case = gen0(rng, tier, widen)
    r = rng.random()
    if r < 0.12:
        case['disjointness'] = rng.choice(['link', 'link', 'node'])       # the loader only records the two flags
    if rng.random() < 0.06 and case['reqs']:
        case['sync'] = case['sync'] + [[rng.choice(case['reqs'])['id']]]   # a vector of one request demands nothing
    return case


def gen0(rng, tier, widen=False):
    r = rng.random()
    if r > 0.94:
        return gen_long_ring(rng, tier)
    if r > (0.80 if widen else 0.87):
        return gen_compete(rng, tier)
    if r > (0.65 if widen else 0.75):
        return gen_strict_loose(rng, tier)
    if r < (0.4 if widen else 0.2):
        return gen_overlap(rng, tier)
    if r < (0.7 if widen else 0.35):
        return gen_sync(rng, tier)
    if tier == 'quick':
        n = rng.choice([4, 5, 5, 6, 6, 7])
    else:
        n = rng.choice([4, 5, 6, 7, 8, 9, 10])
    shape = rng.choice(['ring', 'ring', 'grid', 'random', 'random', 'tree+'])
    mesh = meshes.rand_mesh(rng, n, shape=shape, max_extra=(rng.choice([2, 3, 5]) if n <= 6 else 3 if n <= 7 else 2),
                            parallel=0.15)
    single_pair = rng.random() < 0.5
    k = 2 if (single_pair and rng.random() < 0.6) else rng.randint(2, 6)
    reqs = []
    for i in range(k):
        if reqs and rng.random() < 0.4:
            o = rng.choice(reqs)
            s, t = o['src'][1], o['dst'][1]
            if rng.random() < 0.25:
                s, t = t, s
        else:
            s, t = rng.sample(range(n), 2)
        inc = []
        if rng.random() < 0.35:
            paths = routing.mesh_simple_paths(mesh, s, t, limit=100)
            r = rng.random()
            if paths and r < 0.7:
                p = rng.choice(paths)
                items = []
                for a, b in zip(p, p[1:]):
                    items += [['R', a], ['L', a, b, round(rng.random() * 0.999, 3)]]
                items = items[1:]
                pos = sorted(rng.sample(range(len(items)), min(rng.choice([1, 1, 2]), len(items))))
                inc = [items[j] for j in pos]
            else:
                inc = [['R', rng.randrange(n)]]
            hop = rng.choice([[S] * 3, [L] * 3, [S, L, S], [L, S, L]])
            inc = [[it, hop[j]] for j, it in enumerate(inc)]
        reqs.append({'id': i, 'src': ['T', s], 'dst': ['T', t], 'inc': inc, 'bidir': rng.random() < 0.2,
                     'mode': rng.choice(['mode 1', 'mode 1', 'mode 2'])})
    sync = []
    if single_pair:
        sync = [rng.sample(range(k), 2)]
    else:
        for _ in range(rng.choice([1, 2, 2, 3, 4])):
            size = min(k, rng.choice([2, 2, 2, 3, 3, 4]))
            sync.append(rng.sample(range(k), size))
        if rng.random() < 0.15:
            d = list(rng.choice(sync))
            rng.shuffle(d)
            sync.append(d)
    via = 'planning' if rng.random() < 0.04 else 'dsjctn'
    return {'kind': 'disj', 'mesh': mesh, 'reqs': reqs, 'sync': sync, 'via': via}


# --------------------------------------------------------------------------------------------------------------------
# run
# --------------------------------------------------------------------------------------------------------------------

def short_list(net, path):
    """the harness' transliteration of the comprehension of step 1 (uids)"""
    isr = lambda u: net.kinds[net.idx[u]] == 'R'            # noqa: E731
    return [e for i, e in enumerate(path[1:-1]) if isr(e) or isr(path[i])]


def step1_candidates(net, rq):
    """the candidate list of step 1, obtained with the same library calls (networkx is not modelled)"""
    from networkx import all_simple_paths
    g = net.net
    src, dst = net.node[rq.source], net.node[rq.destination]
    allp = list(all_simple_paths(g, source=src, target=dst, cutoff=80))
    allp = sorted(allp, key=lambda x: sum(g.get_edge_data(x[i], x[i + 1])['weight'] for i in range(len(x) - 2)))
    return allp


def _req_key(q):
    """the fields compare_reqs looks at besides the vectors (harness transliteration; ids, bandwidth, N/M are not compared)"""
    return json.dumps([q.source, q.destination, q.tsp, q.tsp_mode, q.baud_rate, q.nodes_list, q.loose_list, q.spacing,
                       q.power, q.nb_channel, q.f_min, q.f_max, q.format, q.OSNR, q.roll_off, q.tx_power,
                       bool(q.bidir)], default=str)


def sync_bookkeeping(res, drv, rqs, d0, declared):
    """deduplicate_disjunctions + requests_aggregation on the real objects, both under exact correspondence with the
    model (vector ids, order, request ids inside every vector, duplicates), and the MONITOR of what the user declared:
    every pair of request ids that some declared vector wants disjoint is still demanded disjoint - between the
    requests that absorbed them - by some vector handed to the path computation.  -> (rqs, dsjn) or None"""
    from gnpy.topology.request import deduplicate_disjunctions, requests_aggregation
    from common.util import f2b
    before = [{'id': str(d.disjunction_id), 'reqs': [str(x) for x in d.disjunctions_req]} for d in d0]
    try:
        d1 = deduplicate_disjunctions(d0)
    except Exception as e:
        res.fail(f'deduplicate_disjunctions raised {err_kind(e)}: {str(e)[:100]}')
        return None
    after = [[str(d.disjunction_id), [str(x) for x in d.disjunctions_req]] for d in d1]
    m = drv.ask('c12.dedup', disjunctions=before)
    res.cmp_exact('deduplicate_disjunctions', after, [[x['id'], x['reqs']] for x in m])
    sets_in = [frozenset(b['reqs']) for b in before]
    sets_out = [frozenset(r) for _, r in after]
    for sv in set(sets_in):
        if sv not in sets_out:
            res.fail(f'vector lost: deduplicate_disjunctions dropped every vector over {sorted(sv)}')
    if any(sv not in sets_in for sv in sets_out):
        res.fail('vector invented: deduplicate_disjunctions returned a vector over a set of requests that was not declared')
    res.stats['dedup_removed'] += len(before) - len(after)
    res.stats['dedup_duplicates_left'] += int(len(set(sets_out)) < len(sets_out))
    # ---- aggregation
    agg_in = [{'id': q.request_id, 'key': _req_key(q), 'has_mode': q.tsp_mode is not None, 'bw': f2b(q.path_bandwidth),
               'N': [None if x is None else int(x) for x in q.N], 'M': [None if x is None else int(x) for x in q.M]}
              for q in rqs]
    ds_in = [{'id': i, 'reqs': r} for i, r in after]
    orig_ids = [q.request_id for q in rqs]
    try:
        rqs2, d2 = requests_aggregation(rqs, d1)
    except Exception as e:
        res.fail(f'requests_aggregation raised {err_kind(e)}: {str(e)[:100]}')
        return None
    m = drv.ask('c12.aggregation', requests=agg_in, disjunctions=ds_in)
    out_ids = [q.request_id for q in rqs2]
    out_vecs = [[str(d.disjunction_id), [str(x) for x in d.disjunctions_req]] for d in d2]
    res.cmp_exact('requests_aggregation.request_ids', out_ids, m['requests'])
    res.cmp_exact('requests_aggregation.vectors', out_vecs, [[x['id'], x['reqs']] for x in m['disjunctions']])
    res.cmp_exact('requestsAggregationT = requestsAggregationD', True, m['traced_same'])
    final = {}
    for rid in out_ids:
        for part in rid.split(' | '):
            final[part] = rid
    res.cmp_exact('requests_aggregation.renaming', [[x, final.get(x)] for x in orig_ids], m['renamed'])
    res.stats['aggregated_requests'] += len(orig_ids) - len(out_ids)
    # ---- monitor: the demands the user declared survive
    for grp in declared:
        for i in range(len(grp)):
            for j in range(i + 1, len(grp)):
                x, y = grp[i], grp[j]
                if x == y:
                    continue
                fx, fy = final.get(x), final.get(y)
                if fx is None or fy is None:
                    res.fail(f'request lost: request {x if fx is None else y} of vector {grp} disappeared in the aggregation')
                elif fx == fy:
                    res.fail(f'merged partners: requests {x} and {y} of vector {grp} were aggregated into one request '
                             f'{fx}: they cannot be routed disjoint any more')
                elif not any(fx in r and fy in r for _, r in out_vecs):
                    res.fail(f'demand lost: vector {grp} wants {x} and {y} disjoint, but no vector handed to the path '
                             f'computation holds both {fx} and {fy} (vectors {out_vecs})')
    return rqs2, d2


def check_route_basic(net, res, rid, src, dst, path):
    if path[0] != src or path[-1] != dst:
        res.fail(f'end points: path of request {rid} runs {path[0]} -> {path[-1]}, requested {src} -> {dst}')
    if not net.is_walk(path):
        res.fail(f'not a walk: path of request {rid} uses a non-existing link')
    if len(set(path)) != len(path):
        res.fail(f'loop: path of request {rid} visits an element twice')


def run(case, drv):
    from gnpy.tools.json_io import requests_from_json, disjunctions_from_json
    from gnpy.topology.request import (correct_json_route_list, deduplicate_disjunctions, requests_aggregation,
                                       compute_path_dsjctn, isdisjoint, find_reversed_path)
    from gnpy.core.exceptions import DisjunctionError
    res = Result()
    via = case.get('via', 'dsjctn')
    net = routing.get_net(case['mesh']) if via != 'planning' else routing.Net(case['mesh'])
    roadm_ids = [net.idx[u] for u in net.roadms]
    reqs = []
    for r in case['reqs']:
        inc, seen = [], set()
        for it, h in r['inc']:
            u = routing.resolve(net, it)
            if u in net.idx and u not in seen:
                seen.add(u)
                inc.append([u, h])
        reqs.append({'id': str(r['id']), 'src': routing.resolve(net, r['src']), 'dst': routing.resolve(net, r['dst']),
                     'inc': inc, 'bidir': r.get('bidir', False), 'mode': r.get('mode', 'mode 1')})
    byid = {r['id']: r for r in reqs}
    sync = [[str(x) for x in grp] for grp in case['sync']]
    data = meshes.service_json(reqs, sync, case.get('disjointness', 'node link'))
    parallel = net.has_parallel()
    res.stats['parallel_links'] += int(parallel)
    res.stats['disjointness_' + case.get('disjointness', 'node link').replace(' ', '+')] += 1
    # ------------------------------------------------------------------------------------------- implementation
    raised = None
    results = {}          # request id -> path uids
    reasons = {}          # request id -> blocking_reason
    rqs = dsjn = None
    cands = None
    pre = None
    if via == 'planning':
        from gnpy.tools.worker_utils import planning
        try:
            _, pths, _, rqs, dsjn, _ = planning(net.net, net.eq, data)
            for rq, p in zip(rqs, pths):
                for rid in rq.request_id.split(' | '):
                    results[rid] = [e.uid for e in p]
                    reasons[rid] = getattr(rq, 'blocking_reason', None)
        except DisjunctionError:
            raised = 'DisjunctionError'
        except Exception as e:
            raised = err_kind(e)
            res.fail(f'planning raised {raised}: {str(e)[:150]}')
        res.stats['via_planning'] += 1
    else:
        rqs = requests_from_json(data, net.eq)
        rqs = correct_json_route_list(net.net, rqs)
        dsjn = sync_bookkeeping(res, drv, rqs, disjunctions_from_json(data), sync)
        if dsjn is None:
            return res
        rqs, dsjn = dsjn
        # inputs of the selection model, captured before compute_path_dsjctn edits the requests
        in_groups = {x for d in dsjn for x in d.disjunctions_req}
        disjt = [rq for rq in rqs if rq.request_id in in_groups]
        pre = {'ids': [rq.request_id for rq in disjt],
               'nodes': [list(rq.nodes_list) for rq in disjt],
               'strict': [S in rq.loose_list for rq in disjt],
               'groups': [[k, list(d.disjunctions_req)] for k, d in enumerate(dsjn)]}
        stale = [x for x in in_groups if x not in pre['ids']]
        res.stats['stale_ids_selection_skipped'] += int(bool(stale))
        if not stale:
            cands = [[[e.uid for e in p] for p in step1_candidates(net, rq)] for rq in disjt]
        try:
            pths = compute_path_dsjctn(net.net, net.eq, rqs, dsjn)
            for rq, p in zip(rqs, pths):
                for rid in rq.request_id.split(' | '):
                    results[rid] = [e.uid for e in p]
                    reasons[rid] = getattr(rq, 'blocking_reason', None)
        except DisjunctionError:
            raised = 'DisjunctionError'
        except Exception as e:
            raised = err_kind(e)
            res.fail(f'compute_path_dsjctn raised {raised}: {str(e)[:150]} (groups {sync})')
        res.stats['via_dsjctn'] += 1
    res.stats[f'outcome_{raised or "paths"}'] += 1
    res.stats[f'outcome_{raised or "paths"}_{min(len(sync), 4)}vec'] += 1
    res.stats['shared_endpoints'] += int(len({(r['src'], r['dst']) for r in reqs}) < len(reqs))
    # ------------------------------------------------------------------------------------------- monitor: soundness
    groups = []
    for grp in sync:
        if sorted(grp) not in [sorted(g) for g in groups]:
            groups.append(grp)
    nontrivial = False
    if raised is None:
        for grp in groups:
            paths = [results.get(rid) for rid in grp]
            if any(p is None for p in paths):
                res.fail(f'missing result: a request of vector {grp} has no result entry')
                continue
            if any(not p for p in paths):
                res.fail(f'empty path: vector {grp} answered with an empty path instead of a disjunction error')
                continue
            for i in range(len(grp)):
                for j in range(i + 1, len(grp)):
                    if not routing.link_disjoint(net, paths[i], paths[j], 'lenient'):
                        common = [l for l in net.links(paths[i]) if l in net.links(paths[j])
                                  or (l[1], l[0]) in net.links(paths[j])]
                        res.fail(f'shared link: requests {grp[i]} and {grp[j]} of vector {grp} both use {common[:2]} '
                                 f'(a link and its opposite direction count as one)')
            for rid, p in zip(grp, paths):
                rr = byid[rid]
                check_route_basic(net, res, rid, rr['src'], rr['dst'], p)
                inc = [u for u, _ in rr['inc']]
                if S in [h for _, h in rr['inc']] and not routing.crosses_in_order(inc, p):
                    res.fail(f'strict include not honoured: request {rid} of vector {grp} does not cross {inc} in order')
            # ---- Lean checker on the same paths
            ans = drv.ask('c12.check', n=net.n, roadms=roadm_ids, paths=[net.ids(p) for p in paths])
            # Lean keys links by ROADM pair (= 'strict'); with parallel links that is more than the property demands
            res.cmp_exact('oracle.linkDisjointB', [[routing.link_disjoint(net, p, q, 'strict') for q in paths]
                                                   for p in paths], ans['pairs'])
            if not parallel:
                res.cmp_exact('allDisjointB(impl paths)', True, ans['all'], vector=grp)
            res.cmp_exact('oracle.links', [[[net.idx[a], net.idx[b]] for a, b in net.links(p)] for p in paths],
                          ans['links'])
        # requests outside every vector of a batch that has vectors: the full C11 monitor (real loop-free route, includes
        # in order, minimal fibre length, STRICT / LOOSE handling)
        from props import c11
        ingrp = {x for g in groups for x in g}
        for rr in reqs:
            if rr['id'] not in ingrp and rr['id'] in results:
                c11.judge(net, res, rr, [u for u, _ in rr['inc']], [h for _, h in rr['inc']], results[rr['id']],
                          reasons.get(rr['id']), via)
                res.stats['outside_requests_judged'] += 1
    # ------------------------------------------------------------------------------------------- single pair: completeness
    if len(groups) == 1 and len(set(groups[0])) == 2:
        a, b = byid[groups[0][0]], byid[groups[0][1]]

        def acc_paths(rr, limit):
            inc = [u for u, _ in rr['inc']]
            strict = S in [h for _, h in rr['inc']]
            allp = [p for p in net.simple_paths(rr['src'], rr['dst']) if len(p) <= limit]
            return allp, [p for p in allp if (not strict) or routing.crosses_in_order(inc, p)], \
                [p for p in allp if routing.crosses_in_order(inc, p)]
        exists, exists_strict = {}, {}
        for limit in (80, 81):
            pa, acca, fulla = acc_paths(a, limit)
            pb, accb, fullb = acc_paths(b, limit)
            exists[limit] = any(routing.link_disjoint(net, p, q, 'lenient') for p in acca for q in accb)
            exists_strict[limit] = any(routing.link_disjoint(net, p, q, 'strict') for p in acca for q in accb)
            exists_full = any(routing.link_disjoint(net, p, q, 'strict') for p in fulla for q in fullb)
        if len(pa) >= 2 or len(pb) >= 2:
            nontrivial = True
        longest = max([len(p) for p in net.simple_paths(a['src'], a['dst']) + net.simple_paths(b['src'], b['dst'])] or [0])
        res.stats['longest_candidate_' + ('<=60' if longest <= 60 else '61-78' if longest <= 78 else '79-80' if
                                          longest <= 80 else '81' if longest == 81 else '>81')] += 1
        # the Lean oracle (ROADM-pair links, candidates of at most 81 elements = cutoff 80 hops) vs the brute force
        def rq(rr):
            return {'s': net.idx[rr['src']], 't': net.idx[rr['dst']], 'inc': net.ids([u for u, _ in rr['inc']]),
                    'strict': S in [h for _, h in rr['inc']]}
        o = drv.ask('c12.oracle', roadms=roadm_ids, r1=rq(a), r2=rq(b), **net.graph_args())
        res.cmp_exact('oracle.exists', exists_strict[81], o['exists'])
        res.cmp_exact('oracle.ncand', [len(pa), len(pb)], [o['ncand1'], o['ncand2']])
        res.cmp_exact('oracle.nacceptable', [len(acca), len(accb)], [o['nacc1'], o['nacc2']])
        if exists[80] != exists[81] or exists_strict[80] != exists_strict[81]:
            res.ill += 1          # the solution hinges on a path of exactly 81 elements: cut-off boundary, not judged
            res.stats['ill_cutoff_boundary'] += 1
        elif exists[81] != exists_strict[81]:
            res.ill += 1          # parallel links: which backward line is 'the' opposite of a forward line is not determined
            res.stats['ill_parallel_pairing'] += 1
        elif raised in (None, 'DisjunctionError'):
            if exists[81] and raised:
                res.fail(f'pair incomplete: DisjunctionError although an acceptable link-disjoint pair exists for '
                         f'requests {a["id"]} ({a["src"]}->{a["dst"]}, include {a["inc"]}) and {b["id"]} '
                         f'({b["src"]}->{b["dst"]}, include {b["inc"]})')
            if not exists[81] and not raised:
                res.fail(f'no error: paths returned although no acceptable link-disjoint pair exists for requests '
                         f'{a["id"]} and {b["id"]}')
            if raised is None and exists_full:
                # step 4 keeps the combinations honouring every list when there are some (not stated by C12: correspondence)
                for rr in (a, b):
                    inc = [u for u, _ in rr['inc']]
                    p = results.get(rr['id'])
                    res.cmp_exact('step4.loose_lists_kept_when_a_full_solution_exists', True,
                                  bool(p) and routing.crosses_in_order(inc, p), request=rr['id'])
            res.cmp_exact('compute_path_dsjctn.DisjunctionError(pair)', bool(raised), not o['exists'])
        res.stats['single_pair'] += 1
        res.stats[f'pair_solution_exists_{exists[81]}'] += 1
    # ------------------------------------------------------------------------------------------- selection model (steps 2-5)
    if cands is not None and pre is not None and raised in (None, 'DisjunctionError'):
        ids = pre['ids']
        pos = {rid: k for k, rid in enumerate(ids)}
        if any(len(c) >= 2 for c in cands):
            nontrivial = True
        work = sum(len(c) for c in cands)
        combos = 1
        for k, g in pre['groups']:
            m = 1
            for rid in g:
                m *= max(1, len(cands[pos[rid]]))
            combos = max(combos, m)
        if combos <= 20000:
            dis = []
            donep = set()
            for k, g in pre['groups']:
                for x in g:
                    for y in g:
                        # both orientations: the test of step 2 reverses the NEW path only ('impl' mode, see routing)
                        if x != y and (pos[x], pos[y]) not in donep:
                            donep.add((pos[x], pos[y]))
                            dis.append([pos[x], pos[y], [[routing.link_disjoint(net, p, q, 'impl') for q in cands[pos[y]]]
                                                         for p in cands[pos[x]]]])
            ok = [[routing.crosses_in_order(pre['nodes'][r], p) for p in cands[r]] for r in range(len(ids))]
            vals = {}
            vid = [[vals.setdefault(tuple(p), len(vals)) for p in cands[r]] for r in range(len(ids))]
            ans = drv.ask('c12.select', ncand=[len(c) for c in cands],
                          groups=[[k, [pos[x] for x in g]] for k, g in pre['groups']],
                          reqs=list(range(len(ids))), dis=dis, ok=ok, strict=pre['strict'],
                          hasinc=[bool(x) for x in pre['nodes']], vid=vid)
            res.cmp_exact('compute_path_dsjctn.DisjunctionError(selection)', bool(raised), ans['chosen'] is None,
                          counts=[ans['n2'], ans['n3'], ans['n4']])
            if raised is None and ans['chosen'] is not None:
                model_paths = {ids[r]: cands[r][i] for r, i in ans['chosen']}
                impl_paths = {}
                for rid in ids:
                    impl_paths[rid] = results.get(rid.split(' | ')[0])
                res.cmp_exact('compute_path_dsjctn.selected_paths', impl_paths, model_paths)
            res.stats['selection_compared'] += 1
            res.stats[f'work_{"small" if work < 20 else "medium" if work < 100 else "large"}'] += 1
        else:
            res.stats['selection_too_large'] += 1
        # ---- isdisjoint on real short lists (a few candidate pairs)
        pairs = []
        for k, g in pre['groups'][:2]:
            if len(g) >= 2:
                x, y = pos[g[0]], pos[g[1]]
                for i in range(min(3, len(cands[x]))):
                    for j in range(min(2, len(cands[y]))):
                        pairs.append((cands[x][i], cands[y][j]))
        for p, q in pairs[:6]:
            prev = [e.uid for e in find_reversed_path([net.node[u] for u in p])]
            d1 = isdisjoint(short_list(net, p), short_list(net, q))
            d2 = isdisjoint(short_list(net, prev), short_list(net, q))
            m = drv.ask('c12.isdisjoint', n=net.n, roadms=roadm_ids, p=net.ids(p), p_rev=net.ids(prev), q=net.ids(q))
            res.cmp_exact('isdisjoint(direct)', d1, m['direct'])
            res.cmp_exact('isdisjoint(reverse)', d2, m['reverse'])
            res.cmp_exact('shortList', net.ids(short_list(net, p)), m['short_p'])
            res.cmp_exact('oracle.link_disjoint', routing.link_disjoint(net, p, q, 'strict'), m['link_disjoint'])
            res.cmp_exact('isdisjoint = step-2 relation', d1 + d2 == 0, routing.link_disjoint(net, p, q, 'impl'))
            ld = routing.link_disjoint(net, p, q, 'lenient')
            if ld == routing.link_disjoint(net, p, q, 'strict') and (d1 + d2 == 0) != ld:
                res.fail(f'isdisjoint test: isdisjoint(p,q)+isdisjoint(rev p,q) = {d1 + d2} but own OMS computation says '
                         f'link-disjoint = {ld}')
    if dsjn is not None and pre is not None:
        res.stats[f'vectors_{min(len(pre["groups"]), 4)}'] += 1
    res.stats.update({f'roadms_{case["mesh"]["n"]}': 1, f'requests_{len(reqs)}': 1,
                      'vector_sizes_' + '-'.join(str(len(g)) for g in sorted(groups, key=len)): 1,
                      'with_includes': int(any(r['inc'] for r in reqs))})
    res.nontrivial = nontrivial
    return res


# --------------------------------------------------------------------------------------------------------------------
# exhaustive small scope (thorough tier): every connected topology on 2..5 ROADMs up to isomorphism; n <= 4: every
# unordered pair of requests; n = 5: every request with its 1+1 twin and with its reverse
# --------------------------------------------------------------------------------------------------------------------

def exhaustive():
    for n, edges in meshes.small_topologies(5):
        mesh = meshes.small_mesh(n, edges)
        ends = [(s, t) for s in range(n) for t in range(n) if s != t]
        if n <= 4:
            combos = [(x, y) for i, x in enumerate(ends) for y in ends[i:]]
        else:
            combos = [(x, x) for x in ends] + [(x, (x[1], x[0])) for x in ends if x[0] < x[1]]
        for (s1, t1), (s2, t2) in combos:
            yield {'kind': 'disj', 'mesh': mesh, 'via': 'dsjctn', 'sync': [[0, 1]],
                   'reqs': [{'id': 0, 'src': ['T', s1], 'dst': ['T', t1], 'inc': [], 'bidir': False, 'mode': 'mode 1'},
                            {'id': 1, 'src': ['T', s2], 'dst': ['T', t2], 'inc': [], 'bidir': False, 'mode': 'mode 1'}]}


# --------------------------------------------------------------------------------------------------------------------
# shrinking
# --------------------------------------------------------------------------------------------------------------------

def shrink_candidates(case):
    used = {x for g in case['sync'] for x in g}
    for i, r in enumerate(case['reqs']):
        if r['id'] not in used and len(case['reqs']) > 2:
            c = copy.deepcopy(case)
            del c['reqs'][i]
            yield c
    if len(case['sync']) > 1:
        for i in range(len(case['sync'])):
            c = copy.deepcopy(case)
            del c['sync'][i]
            yield c
    for i, g in enumerate(case['sync']):
        if len(g) > 2:
            for j in range(len(g)):
                c = copy.deepcopy(case)
                del c['sync'][i][j]
                yield c
    if case.get('via') == 'planning':
        c = copy.deepcopy(case)
        c['via'] = 'dsjctn'
        yield c
    for i, r in enumerate(case['reqs']):
        for j in range(len(r['inc'])):
            c = copy.deepcopy(case)
            del c['reqs'][i]['inc'][j]
            yield c
    for i in range(len(case['mesh']['links'])):
        c = copy.deepcopy(case)
        del c['mesh']['links'][i]
        yield c
    for i, lk in enumerate(case['mesh']['links']):
        if len(lk[2]) > 1 or len(lk[3]) > 1 or lk[4] != 'plain':
            c = copy.deepcopy(case)
            c['mesh']['links'][i] = [lk[0], lk[1], lk[2][:1], lk[3][:1], 'plain'] + list(lk[5:])
            yield c
