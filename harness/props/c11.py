"""C11 — every computed route is a real, loop-free, constraint-respecting shortest path.

Implementation under test: json_io.requests_from_json -> request.correct_json_route_list -> request.compute_path_dsjctn
(compute_constrained_path, explicit_path, ispart) and request.find_reversed_path; once in a while the whole
worker_utils.planning.  networkx is not modelled: the Lean side (GnpyModel/Route.lean) is a verified oracle
(`simplePaths`, `bestRoute`, `decideRoute`) and a verified checker (`checkRoute`).

Three parties are compared on every request:
  implementation  <->  Lean oracle/checker      (correspondence: decision kind, fibre length, checker verdict,
                                                  explicit-path shortcut, cleaned route list, reversed path, ispart)
  Lean oracle     <->  Python brute force        (correspondence: number of simple paths / valid routes, minimal lengths)
  implementation  <->  Python brute force        (MONITOR: the property statement evaluated with own DFS over the edges
                                                  of the DiGraph, own subsequence test, own fibre-length sums)
"""
import copy

from common.util import Result, err_kind
from common import meshes, routing

ID = 'C11'
N = {'quick': 1000, 'thorough': 20000}
LEAN_MODULES = ['GnpyProofs.Props.C11']
THEOREMS = [f'Gnpy.Route.{t}' for t in (
    'simplePaths_sound', 'simplePaths_complete', 'simplePaths_iff', 'validPaths_iff', 'checkRoute_iff',
    'bestRoute_valid', 'bestRoute_minimal', 'bestRoute_none_iff', 'weight_min_is_length_min', 'bestRoute_min_length',
    'min_length_unique', 'decide_constrained', 'decide_strict_blocked', 'decide_loose_dropped', 'decide_noPath',
    'decide_blocked_iff', 'clean_ok', 'clean_strict_error', 'clean_result_usable', 'ispart_iff_sublist',
    'ispart_repeated_node', 'reverse_sites', 'reverse_adjacent', 'explicit_path_unique',
    'line_predecessor_on_route', 'explicit_path_shortest', 'explicitPath_sound')]
RULE = ('one PRNG; a case is a random mesh (ring / 2xk or 3xk grid / random connected graph / tree+chord; quick 3-9 '
        'ROADMs, thorough up to 14; parallel-free; every link a pair of opposite lines of 1-3 spans with km-multiple '
        'lengths 1-150 km, symmetric or not; plain / Fused / explicit-Edfa lines; now and then two components or a '
        'one-way link) designed by GNPy itself, plus 3-8 requests (thorough: sometimes all ordered pairs): include '
        'lists of ROADMs, line elements (fibres, amplifiers, Fused), elements picked along a real simple path in order '
        'or swapped, complete explicit OMS chains (with ROADMs on/off the chain, reversed spans, chains revisiting a '
        'ROADM), all-STRICT / all-LOOSE / mixed hops, source/destination repeated in the list, bidirectional flag; '
        '~12 % malformed (unknown names, transceivers inside the list, unknown source/destination) that must raise '
        'ServiceError or be dropped; ~8 % lists with 2-3 unknown LOOSE names at any position (first / between / last) '
        'mixed with valid STRICT/LOOSE hops, meetable or not; ~30 % of the batches hold TWINS (same source, destination '
        'and include nodes, other hop types: all-LOOSE / all-STRICT / mixed) before or after their original; ~8 % FULL '
        'detours (every ROADM and line element of a long real route, 11-25 hops); the route objects of a quarter of the '
        'requests are written in SHUFFLED order in the service document with indices >= 10 / strides (the loader must '
        'order them numerically); 30 % of the batches go through the whole planning() (reverse routes of the product); '
        '12 % of the meshes have a PARALLEL link; bidirectional requests also on meshes with a one-way link (no reverse '
        'route is demanded where the route crosses it); ~7 % of the cases are ONE synchronisation vector of 2-3 requests with '
        'per-request STRICT / LOOSE include lists (competing for the same element, first LOOSE later STRICT, ...): the '
        'routes returned inside a vector must be real routes crossing their STRICT includes.  Non-trivial = some request has a non-empty include list and at least two '
        'simple paths between its end points, or is blocked; ispart cases are always non-trivial.  Include lists '
        'never repeat a node (the code accepts [X, X], a subsequence reading does not: the property is silent).')
MODEL_SCOPE = ('modelled: correct_json_route_list, compute_constrained_path decision logic, explicit_path (repaired: '
               'must be a walk and honour the list), ispart, find_reversed_path, edge-weight rule (fibre metres / 0.01); '
               'oracle instead of a model for networkx shortest_simple_paths / dijkstra_path. One STRICT hop makes the '
               'whole list STRICT: documented simplification of the code, kept under CORRESPONDENCE with the oracle; the '
               'MONITOR accepts, for a mixed list whose STRICT hops can be met, a block or a route crossing the STRICT hops; '
               'for a STRICT hop with an unknown name a raised error or a no-path block; any member of BLOCKING_NOPATH as '
               '"no-path reason". not modelled: '
               'PathRequest parameter plumbing, propagation (C13), spectrum assignment (C14). Requests with source = '
               'destination are outside the property\'s input space (planning() cannot serve them: propagation over the '
               'one-element path raises IndexError) and are never generated')
TRUSTED = ['the harness reads the DiGraph (nodes, edges) and Fiber.params.length from the implementation and numbers '
           'the nodes; fibre lengths are integral metres in every generated network (checked per case)']

MANIFEST = {
    'text': 'Lean 4 theorems establish, for every finite weighted digraph, source/destination and include list, that the '
            'route ORACLE (exhaustive DFS enumeration proved sound and complete, minimum-weight selection, the decision '
            'wrapper of compute_constrained_path) and the route CHECKER mean exactly the property statement: real '
            'loop-free route crossing the includes in order, minimal fibre length (weight-minimal = length-minimal for '
            'km-multiple spans), STRICT => blocked, all-LOOSE => dropped, unreachable => NO_PATH, explicit OMS chain = the '
            'unique route, reversed path = same sites reversed, route-list clean-up, ispart = subsequence. Every path '
            'and blocking reason the real code returns is run through the checker and compared with the oracle on '
            'every run; an independent Python brute force is compared with both.',
    'note': 'networkx (shortest_simple_paths, dijkstra_path) is NOT modelled: the proof is about the oracle/checker, '
            'the code is tied to it by differential execution on generated meshes (3-14 ROADMs) and an exhaustive sweep '
            'of all connected topologies on <= 5 ROADMs in the thorough tier. Trusted base: Lean 4.33 kernel (+ '
            'leanchecker in thorough), Mathlib v4.33, axioms propext/Classical.choice/Quot.sound only. One STRICT hop '
            'makes the whole include list STRICT: the code\'s documented simplification, kept under correspondence with the '
            'oracle; the monitor only demands what the property states (a mixed list whose STRICT hops can be met may be '
            'blocked or routed across the STRICT hops). '
            'Include lists never repeat a node (the property is silent on [X, X]).',
    'technique': 'Lean 4 verified oracle + verified checker for the routing decision, differential correspondence '
                 'against the real code, independent brute-force monitor',
}

S, L = 'STRICT', 'LOOSE'


# --------------------------------------------------------------------------------------------------------------------
# generator
# --------------------------------------------------------------------------------------------------------------------

def _hops(rng, k):
    r = rng.random()
    if r < 0.4:
        return [S] * k
    if r < 0.75:
        return [L] * k
    return [rng.choice([S, L]) for _ in range(k)]


def _path_items(path):
    """symbolic items met along a ROADM path, in order: R a, L a->b, R b, ..."""
    items = []
    for a, b in zip(path, path[1:]):
        items.append(['R', a])
        items.append(['L', a, b, None])
    items.append(['R', path[-1]])
    return items


def _fill(rng, item):
    if item[0] == 'L' and item[3] is None:
        return ['L', item[1], item[2], round(rng.random() * 0.999, 3)]
    return list(item)


def gen_request(rng, mesh, rid, allow_bidir=True, malformed_ok=True, widen=False):
    n = mesh['n']
    s, t = rng.sample(range(n), 2) if n >= 2 else (0, 0)
    style = rng.choice(['none', 'none', 'roadms', 'lines', 'along', 'along', 'swapped', 'explicit', 'explicit',
                        'revisit', 'malformed', 'unknowns', 'detour'])
    if style == 'malformed' and not malformed_ok:
        style = 'along'
    if widen and rng.random() < 0.5:
        style = rng.choice(['unknowns', 'detour'])
    inc = []
    src, dst = ['T', s], ['T', t]
    links = [lk for lk in mesh['links']]
    dir_links = sorted({(lk[0], lk[1]) for lk in links if lk[2]} | {(lk[1], lk[0]) for lk in links if lk[3]})
    paths = routing.mesh_simple_paths(mesh, s, t, limit=300) if s != t else []
    if style == 'roadms':
        k = rng.choice([1, 1, 2, 3])
        inc = [['R', x] for x in rng.sample(range(n), min(k, n))]
    elif style == 'lines' and dir_links:
        k = rng.choice([1, 1, 2])
        inc = [['L', a, b, None] for (a, b) in rng.sample(dir_links, min(k, len(dir_links)))]
    elif style in ('along', 'swapped') and paths:
        items = _path_items(rng.choice(paths))
        k = rng.choice([1, 1, 2, 2, 3, 4])
        pos = sorted(rng.sample(range(len(items)), min(k, len(items))))
        inc = [items[i] for i in pos]
        if style == 'swapped' and len(inc) >= 2:
            i = rng.randrange(len(inc) - 1)
            inc[i], inc[i + 1] = inc[i + 1], inc[i]
    elif style == 'explicit' and paths:
        p = rng.choice(paths)
        inc = [['L', a, b, None] for a, b in zip(p, p[1:])]
        r = rng.random()
        if r < 0.25:                                    # a ROADM of the chain, at its place
            i = rng.randrange(len(p))
            inc.insert(min(i, len(inc)), ['R', p[i]])
        elif r < 0.45:                                  # a ROADM off the chain / at the wrong place
            inc.insert(rng.randrange(len(inc) + 1), ['R', rng.randrange(n)])
        elif r < 0.6 and len(inc) >= 2:                 # links in the wrong order
            i = rng.randrange(len(inc) - 1)
            inc[i], inc[i + 1] = inc[i + 1], inc[i]
        elif r < 0.75:                                  # two elements of one line (maybe in the wrong order)
            a, b = p[0], p[1]
            inc.insert(rng.choice([0, 1]), ['L', a, b, None])
        elif r < 0.85 and len(inc) >= 2:                # chain with a gap
            del inc[rng.randrange(len(inc))]
    elif style == 'revisit' and dir_links:
        outs = {}
        for (a, b) in dir_links:
            outs.setdefault(a, []).append(b)
        back = [(a, b) for (a, b) in dir_links if (b, a) in dir_links and len(outs.get(a, [])) >= 2]
        if back:
            a, b = rng.choice(back)
            c = rng.choice([x for x in outs[a] if x != b])
            s = a
            t = c if rng.random() < 0.7 else rng.choice([x for x in range(n) if x != a])
            src, dst = ['T', s], ['T', t]
            inc = [['L', a, b, None], ['L', b, a, None], ['L', a, c, None]]
    elif style == 'detour' and paths:
        # a FULL detour: every ROADM and every line element of a real (long) route, 11-25 hops; the route objects are
        # written in shuffled order with indices >= 10 in the service document (see `doc` below)
        longest = sorted(paths, key=len)[-max(1, len(paths) // 3):]
        p = rng.choice(longest)
        hop = rng.choice([S, S, L, None])
        for a, b in zip(p, p[1:]):
            inc.append(['R', a])
            inc.append(['LA', a, b])
        inc.append(['R', p[-1]])
        if rng.random() < 0.2 and len(inc) >= 4:          # two sites exchanged: cannot be met
            i = rng.randrange(0, len(inc) - 2, 2)
            inc[i], inc[i + 2] = inc[i + 2], inc[i]
    elif style == 'unknowns':
        # 2-3 names that are not in the topology, to be dropped as LOOSE hops, at any position (first, between, last)
        # of a list of valid hops whose hop types must stay attached to their nodes after the clean-up
        r = rng.random()
        if paths and r < 0.55:
            items = _path_items(rng.choice(paths))
            pos = sorted(rng.sample(range(len(items)), min(rng.choice([1, 2, 2, 3]), len(items))))
            inc = [items[i] for i in pos]
            if rng.random() < 0.3 and len(inc) >= 2:
                inc.reverse()                             # cannot be met in this order
        elif r < 0.9:
            inc = [['R', x] for x in rng.sample(range(n), min(rng.choice([1, 2]), n))]    # often off every route
        else:
            inc = []
        names = rng.sample(['roadm N99', 'nowhere', 'fiber (N0 -> N0)-7', 'Edfa_unknown', 'roadm n1', 'site X'],
                           rng.choice([2, 2, 3]))
        for k, nm in enumerate(names):
            where = rng.choice(['first', 'any', 'any', 'last'])
            at = 0 if where == 'first' else len(inc) if where == 'last' else rng.randrange(len(inc) + 1)
            inc.insert(at, ['U', nm])
    elif style == 'malformed':
        kind = rng.choice(['unknown', 'unknown', 'trx-inside', 'bad-source', 'bad-destination'])
        base = [['R', rng.randrange(n)]] if rng.random() < 0.5 else []
        if kind == 'unknown':
            base.insert(rng.randrange(len(base) + 1), ['U', rng.choice(['roadm N99', 'nowhere', 'fiber (N0 -> N0)-7'])])
        elif kind == 'trx-inside':
            base.insert(rng.randrange(len(base) + 1), ['T', rng.randrange(n)])
        elif kind == 'bad-source':
            src = rng.choice([['U', 'trx N99'], ['R', s]])
        else:
            dst = rng.choice([['U', 'trx N99'], ['R', t]])
        inc = base
    inc = [_fill(rng, it) for it in inc]
    # no repeated include node (see RULE); L items of one line may resolve to the same element: resolved in run()
    seen, uniq = set(), []
    for it in inc:
        key = tuple(it)
        if key not in seen:
            seen.add(key)
            uniq.append(it)
    inc = uniq
    if rng.random() < 0.08:
        inc = [src] + inc
    if rng.random() < 0.08:
        inc = inc + [dst]
    hops = _hops(rng, len(inc))
    doc = None
    if style == 'detour':
        doc = {'shuffle': rng.randrange(1 << 30), 'stride': rng.choice([1, 1, 2, 7]), 'offset': rng.choice([0, 1, 5, 95])}
    elif inc and rng.random() < 0.25:
        doc = {'shuffle': rng.randrange(1 << 30), 'stride': rng.choice([1, 3, 10]), 'offset': rng.choice([0, 8, 9, 99])}
    if style == 'unknowns':
        # valid hops: STRICT / LOOSE / mixed (STRICT-biased: an unmeetable STRICT hop must still block after the
        # unknown names are gone); unknown names LOOSE, now and then one of them STRICT (=> ServiceError)
        valid = rng.choice([[S] * len(inc), [S] * len(inc), [L] * len(inc), [rng.choice([S, L]) for _ in inc]])
        hops = [(L if it[0] == 'U' else valid[j]) for j, it in enumerate(inc)]
        if malformed_ok and rng.random() < 0.12:
            us = [j for j, it in enumerate(inc) if it[0] == 'U']
            hops[rng.choice(us)] = S
    return {'id': rid, 'src': src, 'dst': dst, 'inc': [[it, h] for it, h in zip(inc, hops)],
            'bidir': bool(allow_bidir and rng.random() < 0.3), 'style': style, 'doc': doc}


def gen_mesh(rng, tier, widen=False):
    if tier == 'quick':
        n = rng.choice([3, 4, 4, 5, 5, 6, 6, 7, 8, 9])
        max_extra = rng.choice([1, 3, n]) if n <= 6 else rng.choice([1, 3, 4])
    else:
        n = rng.choice([3, 4, 5, 6, 7, 8, 9, 10, 11, 12, 13, 14])
        max_extra = 4 if n <= 10 else 2
    mesh = meshes.rand_mesh(rng, n, max_extra=max_extra, parallel=0.12)
    oneway = False
    r = rng.random()
    if r < 0.07 and n >= 4:
        # two components: drop every link between {0..k-1} and {k..n-1}
        k = rng.randint(1, n - 1)
        kept = [lk for lk in mesh['links'] if (lk[0] < k) == (lk[1] < k)]
        if kept:                 # a network without any line has no amplifier: build_oms_list cannot size its bitmap
            mesh['links'] = kept
    elif r < 0.14 and mesh['links']:
        lk = rng.choice(mesh['links'])
        lk[rng.choice([2, 3])] = []
        oneway = True
    return mesh, oneway


def gen(rng, tier, widen=False):
    if rng.random() < 0.06:
        # ispart on raw lists (duplicates allowed)
        m = rng.randint(0, 7)
        b = [rng.randrange(9) for _ in range(m)] if rng.random() < 0.3 else rng.sample(range(9), m)
        k = rng.randint(0, 4)
        if rng.random() < 0.6 and b:
            a = [b[i] for i in sorted(rng.sample(range(len(b)), min(k, len(b))))]
            if rng.random() < 0.3 and len(a) >= 2:
                a.reverse()
        else:
            a = [rng.randrange(9) for _ in range(k)]
        return {'kind': 'ispart', 'a': a, 'b': b}
    if rng.random() < (0.15 if widen else 0.07):
        # routes returned for the requests of a synchronisation vector (the part of C11 that holds inside a disjunction
        # group: real loop-free route between the end points, STRICT includes crossed in order); generators shared with C12
        from props import c12
        case = c12.gen_compete(rng, tier) if rng.random() < 0.6 else c12.gen_strict_loose(rng, tier)
        case['kind'] = 'vector'
        if rng.random() < 0.15:
            case['via'] = 'planning'
        return case
    mesh, oneway = gen_mesh(rng, tier, widen)
    via = 'planning' if (rng.random() < 0.3 and not oneway) else 'dsjctn'
    if tier == 'thorough' and rng.random() < 0.04 and mesh['n'] <= 7:
        reqs = []
        for s in range(mesh['n']):
            for t in range(mesh['n']):
                if s != t:
                    r = gen_request(rng, mesh, len(reqs), allow_bidir=True, widen=widen)
                    if r['style'] != 'revisit' and r['src'][0] == 'T' and r['dst'][0] == 'T':
                        r['src'], r['dst'] = ['T', s], ['T', t]
                    reqs.append(r)
    else:
        k = rng.randint(2, 5) if via == 'planning' else rng.randint(3, 8)
        reqs = [gen_request(rng, mesh, i, allow_bidir=True, malformed_ok=(via != 'planning'), widen=widen)
                for i in range(k)]
    if via == 'planning' and any(r['src'] == r['dst'] for r in reqs):
        via = 'dsjctn'       # source = destination is a degenerate request: propagation over [trx] raises IndexError
    if rng.random() < (0.6 if widen else 0.3):
        add_twins(rng, mesh, reqs, oneway, via)
    return {'kind': 'route', 'mesh': mesh, 'reqs': reqs, 'via': via}


def add_twins(rng, mesh, reqs, oneway, via):
    """TWINS: requests of one batch with the same source, destination and include nodes but another hop-type list
    (all-LOOSE / all-STRICT / mixed), in both batch orders: every request is judged on its own, the decision for one
    must not depend on what else is in the batch (requests_aggregation does not merge them: loose_list differs)"""
    ok_styles = ('roadms', 'lines', 'along', 'swapped', 'explicit', 'revisit')
    base = [r for r in reqs if r['inc'] and r['style'] in ok_styles and r['src'][0] == 'T' and r['dst'][0] == 'T']
    if not base:
        for _ in range(6):
            r = gen_request(rng, mesh, len(reqs), allow_bidir=True, malformed_ok=False)
            if r['inc'] and r['style'] in ok_styles:
                reqs.append(r)
                base = [r]
                break
    if not base:
        return
    b = rng.choice(base)
    k = len(b['inc'])
    old = [h for _, h in b['inc']]
    variants = [[S] * k, [L] * k]
    if k >= 2:
        variants.append([S if j % 2 == 0 else L for j in range(k)])
        variants.append([L if j % 2 == 0 else S for j in range(k)])
    variants = [v for v in variants if v != old]
    rng.shuffle(variants)
    if rng.random() < 0.15:
        variants.insert(0, old)            # an exact duplicate: legitimately aggregated, same decision for both
    for v in variants[:rng.choice([1, 1, 2, 3])]:
        t = copy.deepcopy(b)
        t['id'] = max(r['id'] for r in reqs) + 1
        t['inc'] = [[it, h] for (it, _), h in zip(b['inc'], v)]
        t['style'] = 'twin'
        t['bidir'] = bool(rng.random() < 0.3)
        at = reqs.index(b)
        where = rng.choice(['before', 'after', 'first', 'last'])
        pos = at if where == 'before' else at + 1 if where == 'after' else 0 if where == 'first' else len(reqs)
        reqs.insert(pos, t)


# --------------------------------------------------------------------------------------------------------------------
# run
# --------------------------------------------------------------------------------------------------------------------

def run(case, drv):
    if case['kind'] == 'ispart':
        return run_ispart(case, drv)
    if case['kind'] == 'vector':
        return run_vector(case, drv)
    return run_route(case, drv)


def run_vector(case, drv):
    """requests of one synchronisation vector: every route that is RETURNED starts at the source, ends at the destination,
    follows existing links, visits nothing twice and crosses the request's include list in order when the list holds a
    STRICT hop (minimal length is not demanded inside a disjunction group; whether the computation may stop with a
    DisjunctionError instead is property C12)"""
    from gnpy.tools.json_io import requests_from_json, disjunctions_from_json
    from gnpy.topology.request import (correct_json_route_list, deduplicate_disjunctions, requests_aggregation,
                                       compute_path_dsjctn)
    from gnpy.core.exceptions import DisjunctionError
    res = Result()
    via = case.get('via', 'dsjctn')
    net = routing.get_net(case['mesh']) if via != 'planning' else routing.Net(case['mesh'])
    reqs = []
    for r in case['reqs']:
        rr = resolve_request(net, r)
        rr['inc'] = [[u, h] for u, h in rr['inc'] if u in net.idx]
        rr['mode'] = r.get('mode', 'mode 1')
        reqs.append(rr)
    sync = [[str(x) for x in g] for g in case['sync']]
    data = meshes.service_json(reqs, sync)
    results, raised = {}, None
    try:
        if via == 'planning':
            from gnpy.tools.worker_utils import planning
            _, pths, _, rqs, _, _ = planning(net.net, net.eq, data)
        else:
            rqs = correct_json_route_list(net.net, requests_from_json(data, net.eq))
            dsjn = deduplicate_disjunctions(disjunctions_from_json(data))
            rqs, dsjn = requests_aggregation(rqs, dsjn)
            pths = compute_path_dsjctn(net.net, net.eq, rqs, dsjn)
        for rq, p in zip(rqs, pths):
            for rid in rq.request_id.split(' | '):
                results[rid] = ([e.uid for e in p], getattr(rq, 'blocking_reason', None))
    except DisjunctionError:
        raised = 'DisjunctionError'
    except Exception as e:
        raised = err_kind(e)
        res.fail(f'vector: path computation raised {raised}: {str(e)[:120]}')
    res.stats[f'vector_outcome_{raised or "paths"}'] += 1
    gargs, oargs = net.graph_args(), net.oms_args()
    for rr in reqs:
        if rr['id'] not in results:
            continue
        path, reason = results[rr['id']]
        inc = [u for u, _ in rr['inc']]
        hops = [h for _, h in rr['inc']]
        tag = f'request {rr["id"]} {rr["src"]}->{rr["dst"]} include {rr["inc"]} in vector {sync}'
        if not path:
            if reason not in NOPATH:
                res.fail(f'vector: empty route without a no-path reason ({reason}) for {tag}')
            continue
        if path[0] != rr['src'] or path[-1] != rr['dst']:
            res.fail(f'end points: route runs {path[0]} -> {path[-1]} for {tag}')
        if not net.is_walk(path):
            res.fail(f'not a walk: route uses a non-existing link for {tag}')
        if len(set(path)) != len(path):
            res.fail(f'loop: route visits an element twice for {tag}')
        if S in hops and not routing.crosses_in_order(inc, path):
            res.fail(f'strict include not honoured: the route returned inside the vector does not cross {inc} in order '
                     f'({tag})')
        # the verified checker on the same route
        ans = drv.ask('c11.route', s=net.idx[rr['src']], t=net.idx[rr['dst']], inc=net.ids(inc), strict=(S in hops),
                      sR=None, dR=None, path=net.ids(path), **gargs, **oargs)
        res.cmp_exact('checkRoute(route inside a vector)', True, ans['check_inc'] if S in hops else ans['check_plain'],
                      request=rr['id'])
        res.stats['vector_routes_checked'] += 1
        res.stats['vector_loose_dropped'] += int(bool(inc) and S not in hops and not routing.crosses_in_order(inc, path))
    res.nontrivial = any(r['inc'] for r in reqs)
    res.stats['vector_cases'] += 1
    return res


def run_ispart(case, drv):
    from gnpy.topology.request import ispart
    res = Result()
    a, b = case['a'], case['b']
    impl = bool(ispart(list(a), list(b)))
    model = drv.ask('c11.ispart', a=a, b=b)
    res.cmp_exact('ispart', impl, model)
    nodup = len(set(a)) == len(a) and len(set(b)) == len(b)
    if nodup and impl != routing.crosses_in_order(a, b):
        res.fail(f'ispart: ispart({a},{b}) = {impl} but subsequence test says {not impl}')
    res.nontrivial = True
    res.stats.update({'ispart': 1, f'ispart_{impl}': 1, 'ispart_nodup': int(nodup)})
    return res


def resolve_request(net, r):
    inc = [[u, h] for it, h in r['inc'] for u in routing.resolve_all(net, it)]
    if r.get('style') == 'detour':
        inc = inc[:25]
    # drop repeated uids (two L items of one line can hit the same element)
    seen, out = set(), []
    for u, h in inc:
        if u not in seen:
            seen.add(u)
            out.append([u, h])
    return {'id': str(r['id']), 'src': routing.resolve(net, r['src']), 'dst': routing.resolve(net, r['dst']),
            'inc': out, 'bidir': r.get('bidir', False), 'doc': r.get('doc')}


def expected_clean(net, rr):
    """own reading of the route-list clean-up: -> ('ok', [[uid, hop]...]) or ('error', kind)"""
    if rr['src'] not in net.trx:
        return 'error', 'source'
    if rr['dst'] not in net.trx:
        return 'error', 'destination'
    inc = [list(x) for x in rr['inc']]
    if inc and inc[0][0] == rr['src']:
        inc = inc[1:]
    if inc and inc[-1][0] == rr['dst']:
        inc = inc[:-1]
    out = []
    for u, h in inc:
        if u in net.idx and u not in net.trx:
            out.append([u, h])
        elif h == L:
            continue
        else:
            return 'error', 'strict-unknown'
    return 'ok', out


def name_ids(net, names):
    """number names: topology names by node index, others n, n+1, ..."""
    extra = {}
    out = []
    for u in names:
        if u in net.idx:
            out.append(net.idx[u])
        else:
            if u not in extra:
                extra[u] = net.n + len(extra)
            out.append(extra[u])
    return out


def impl_clean(net, rr):
    from gnpy.tools.json_io import requests_from_json
    from gnpy.topology.request import correct_json_route_list
    from gnpy.core.exceptions import ServiceError
    data = meshes.service_json([rr])
    rq = requests_from_json(data, net.eq)[0]
    try:
        correct_json_route_list(net.net, [rq])
    except ServiceError as e:
        msg = str(e)
        kind = ('source' if 'transponder source' in msg else 'destination' if 'transponder destination' in msg
                else 'strict-unknown' if 'Strict constraint' in msg else 'other:' + msg[:40])
        return ('error', kind), None
    except Exception as e:          # anything else is not a documented rejection: reported, never swallowed
        return ('error', 'raised:' + err_kind(e)), None
    return ('ok', [[u, h] for u, h in zip(rq.nodes_list, rq.loose_list)]), rq


def brute(net, src, dst, inc):
    """independent brute force: (all simple paths, those crossing inc in order)"""
    allp = net.simple_paths(src, dst)
    valid = [p for p in allp if routing.crosses_in_order(inc, p)]
    return allp, valid


def check_edge_weights(net, res):
    """the weight rule the length-optimality rests on: fibre out-edge = fibre length (m), any other edge 0.01"""
    from gnpy.core import elements as E
    bad = []
    for u, v, d in net.net.edges(data=True):
        exp = u.params.length if isinstance(u, E.Fiber) else 0.01
        if d.get('weight') != exp:
            bad.append([u.uid, v.uid, d.get('weight'), exp])
    res.cmp_exact('network.edge_weight_rule', bad[:3], [])
    for u, m in net.fibre_m.items():
        if abs(net.node[u].params.length - m) > 1e-9 or m % 1000 != 0:
            raise AssertionError(f'generator guard: fibre {u} length {net.node[u].params.length} m is not a km multiple')


# "a no-path reason": the family the code itself files under BLOCKING_NOPATH (which member is correspondence, not monitor)
NOPATH = ('NO_PATH', 'NO_PATH_WITH_CONSTRAINT', 'NO_FEASIBLE_BAUDRATE_WITH_SPACING', 'NO_COMPUTED_SNR')


def judge(net, res, rr, inc, hops, path, reason, where):
    """THE MONITOR for one request. inc = requested include nodes that exist (own clean-up), path = uids returned"""
    src, dst = rr['src'], rr['dst']
    allp, valid = brute(net, src, dst, inc)
    strict = S in hops
    tag = f'request {src}->{dst} include {inc} hops {hops}'
    info = {'npaths': len(allp), 'nvalid': len(valid)}
    nopath = NOPATH
    if path:
        # a returned path is always a real loop-free route between the end points
        if path[0] != src or path[-1] != dst:
            res.fail(f'end points: {where} path runs {path[0]} -> {path[-1]} for {tag}')
        if not net.is_walk(path):
            bad = [(a, b) for a, b in zip(path, path[1:]) if b not in net.succ.get(a, [])]
            res.fail(f'not a walk: {where} path uses non-existing link(s) {bad[:2]} for {tag}')
        if len(set(path)) != len(path):
            res.fail(f'loop: {where} path visits an element twice for {tag}')
    if not allp:
        info['expect'] = 'NO_PATH'
        if path or reason not in nopath:
            res.fail(f'unreachable: no path exists but {where} returned {len(path)} elements, reason {reason}, {tag}')
        return info
    if valid:
        info['expect'] = 'constrained'
        best = min(net.fibre_len(p) for p in valid)
        info['best'] = best
        if not path:
            res.fail(f'blocked although satisfiable: reason {reason}, {len(valid)} route(s) exist for {tag}')
        else:
            if not routing.crosses_in_order(inc, path):
                res.fail(f'include not honoured: {where} path does not cross {inc} in order ({tag})')
            elif net.is_walk(path) and len(set(path)) == len(path) and net.fibre_len(path) != best:
                res.fail(f'not shortest: {where} path has {net.fibre_len(path)} m of fibre, the shortest route '
                         f'crossing the include list has {best} m ({tag})')
            if reason in nopath:
                res.fail(f'reason on a computed path: {reason} with a non-empty path ({tag})')
        return info
    if strict:
        info['expect'] = 'NO_PATH_WITH_CONSTRAINT'
        strict_inc = [u for u, h in zip(inc, hops) if h == S]
        if L in hops and any(routing.crosses_in_order(strict_inc, p) for p in allp):
            # mixed list: the STRICT hops can be met, only a LOOSE hop cannot.  The code blocks ('one STRICT hop makes the
            # whole list STRICT', kept under correspondence with the oracle); the property is also satisfied by a route that
            # drops the LOOSE hops and crosses the STRICT ones in order
            info['mixed_lenient'] = True
            if path:
                if not routing.crosses_in_order(strict_inc, path):
                    res.fail(f'strict hops not honoured: {where} path does not cross the STRICT hops {strict_inc} in '
                             f'order ({tag})')
            elif reason not in nopath:
                res.fail(f'no route and no no-path reason: reason {reason} ({tag})')
            return info
        if path or reason not in nopath:
            res.fail(f'strict not enforced: no route crosses the STRICT list in order but {where} returned '
                     f'{len(path)} elements, reason {reason} ({tag})')
        return info
    info['expect'] = 'unconstrained'
    best = min(net.fibre_len(p) for p in allp)
    info['best'] = best
    if not path:
        res.fail(f'loose not dropped: only LOOSE hops are unsatisfiable but the request is blocked ({reason}) ({tag})')
    elif net.is_walk(path) and len(set(path)) == len(path) and net.fibre_len(path) != best:
        res.fail(f'loose fallback not shortest: {net.fibre_len(path)} m, unconstrained shortest is {best} m ({tag})')
    return info


def judge_reverse(net, res, rr, path, rpath, where):
    if not path:
        return
    if not rpath:
        res.fail(f'reverse: no reversed path for bidirectional request {rr["src"]}->{rr["dst"]} ({where})')
        return
    sites = [u for u in path if net.kinds[net.idx[u]] == 'R']
    rsites = [u for u in rpath if u in net.idx and net.kinds[net.idx[u]] == 'R']
    if rsites != sites[::-1]:
        res.fail(f'reverse: forward sites {sites}, reverse path sites {rsites} ({where})')
    if rpath[0] != rr['dst'] or rpath[-1] != rr['src'] or not net.is_walk(rpath) or len(set(rpath)) != len(rpath):
        res.fail(f'reverse: reversed path is not a loop-free walk {rr["dst"]} -> {rr["src"]} ({where})')


def run_route(case, drv):
    from gnpy.topology.request import compute_path_dsjctn, explicit_path, find_reversed_path
    res = Result()
    via = case.get('via', 'dsjctn')
    net = routing.get_net(case['mesh']) if via != 'planning' else routing.Net(case['mesh'])
    check_edge_weights(net, res)
    reqs = [resolve_request(net, r) for r in case['reqs']]
    gargs = net.graph_args()
    oargs = net.oms_args()
    nontrivial = False
    survivors = []
    for r0, rr in zip(case['reqs'], reqs):
        # ---------------- (1) route-list clean-up ----------------------------------------------------------------
        exp = expected_clean(net, rr)
        got, rq = impl_clean(net, rr)
        names = [rr['src'], rr['dst']] + [u for u, _ in rr['inc']]
        ids = name_ids(net, names)
        ans = drv.ask('c11.clean', n=net.n, trx=[net.idx[t] for t in net.trx], s=ids[0], t=ids[1],
                      route=[[i, h == S] for i, (_, h) in zip(ids[2:], rr['inc'])])
        back = {i: u for i, u in zip(ids, names)}
        model = ('error', ans['error']) if 'error' in ans else ('ok', [[back[i], S if st else L] for i, st in ans['route']])
        res.cmp_exact('correct_json_route_list', [got[0], got[1]], [model[0], model[1]])
        res.stats[f'clean_{got[0]}' + (f'_{got[1]}' if got[0] == 'error' else '')] += 1
        if exp[0] == 'error':
            # the exact rejection (ServiceError) is the code's documented behaviour and stays under correspondence above;
            # the property only says that a STRICT hop that cannot be met must not yield a route: a raised error or a
            # request blocked with a no-path reason are both fine
            if got[0] != 'error' and exp[1] == 'strict-unknown':
                survivors.append((r0, rr, None, rq))
            continue
        if got[0] == 'error':
            res.fail(f'clean-up: well-formed request rejected ({got[1]}): include {rr["inc"]}')
            continue
        if got[1] != exp[1]:
            res.stats['clean_differs_from_expected'] += 1     # judged below through the returned path
        survivors.append((r0, rr, exp[1], rq))
    if not survivors:
        res.nontrivial = True
        res.stats['all_requests_malformed'] += 1
        return res
    # ---------------- (2) path computation ----------------------------------------------------------------------------
    results = {}
    if via == 'planning':
        from gnpy.tools.worker_utils import planning
        data = meshes.service_json([rr for _, rr, _, _ in survivors])
        try:
            _, pths, rpths, rqs, _, _ = planning(net.net, net.eq, data)
        except Exception as e:      # planning is not expected to raise on well-formed services
            res.fail(f'planning raised {err_kind(e)}: {str(e)[:120]}')
            return res
        for rq, p, rp in zip(rqs, pths, rpths):
            for rid in rq.request_id.split(' | '):
                results[rid] = ([e.uid for e in p], getattr(rq, 'blocking_reason', None), [e.uid for e in rp], rq)
        res.stats['via_planning'] += 1
    else:
        from gnpy.topology.request import requests_aggregation
        rqs = [rq for _, _, _, rq in survivors]
        try:
            # as planning() does: similar requests are aggregated first (requests that differ in their hop types are not
            # similar: each keeps its own decision), then the routes are computed for the whole batch
            rqs, _ = requests_aggregation(rqs, [])
            pths = compute_path_dsjctn(net.net, net.eq, rqs, [])
        except Exception as e:
            res.fail(f'compute_path_dsjctn raised {err_kind(e)}: {str(e)[:120]}')
            return res
        for rq, p in zip(rqs, pths):
            for rid in rq.request_id.split(' | '):
                results[rid] = (p, getattr(rq, 'blocking_reason', None), None, rq)
            res.stats['aggregated'] += int(' | ' in rq.request_id)
        res.stats['via_dsjctn'] += 1
    for r0, rr, inc_hops, _ in survivors:
        p, reason, rp, rq = results[rr['id']]
        path = [e if isinstance(e, str) else e.uid for e in p]
        if inc_hops is None:
            if path or reason not in NOPATH:
                res.fail(f'strict not enforced: a STRICT hop names an element that does not exist, yet {via} returned '
                         f'{len(path)} elements, reason {reason} (include {rr["inc"]})')
            res.stats['strict_unknown_accepted_by_loader'] += 1
            continue
        inc = [u for u, _ in inc_hops]
        hops = [h for _, h in inc_hops]
        # -- the oracle ---------------------------------------------------------------------------------------------------
        s_first, d_prev = net.roadm_of_trx(rr['src'])[0], net.roadm_of_trx(rr['dst'])[1]
        sR = None if s_first is None else (s_first if net.kinds[net.idx[s_first]] == 'R' else rr['src'])
        dR = None if d_prev is None else (d_prev if net.kinds[net.idx[d_prev]] == 'R' else rr['dst'])
        ans = drv.ask('c11.route', s=net.idx[rr['src']], t=net.idx[rr['dst']], inc=net.ids(inc), strict=(S in hops),
                      sR=None if sR is None else net.idx[sR], dR=None if dR is None else net.idx[dR],
                      path=net.ids(path), **gargs, **oargs)
        dec = ans['decision']
        # -- implementation vs oracle ----------------------------------------------------------------------------------
        nopath_reason = reason if reason in ('NO_PATH', 'NO_PATH_WITH_CONSTRAINT') else None
        model_reason = dec['kind'] if dec['kind'] in ('NO_PATH', 'NO_PATH_WITH_CONSTRAINT') else None
        res.cmp_exact('compute_constrained_path.blocking_reason', nopath_reason, model_reason, request=rr)
        if model_reason is None and path:
            res.cmp_exact('compute_constrained_path.fibre_length', net.fibre_len(path), dec['len'], request=rr)
            res.cmp_exact('oracle.path_len(impl path)', net.fibre_len(path), ans['path_len'])
            ok = ans['check_plain'] if dec['kind'] == 'unconstrained' else ans['check_inc']
            res.cmp_exact('checkRoute(impl path)', True, ok, request=rr, decision=dec['kind'])
            if dec['kind'] == 'explicit':
                res.cmp_exact('explicit_path.path', path, [net.uids[i] for i in dec['path']])
                res.cmp_exact('explicit_path.unique_route', 1, ans['nvalid'])      # theorem explicit_path_unique
        elif model_reason is None:
            res.cmp_exact('compute_constrained_path.path_present', bool(path), True, request=rr)
        if via != 'planning':
            ex = explicit_path([net.node[u] for u in inc], net.node[rr['src']], net.node[rr['dst']], net.net)
            res.cmp_exact('explicit_path', None if ex is None else [e.uid for e in ex],
                          None if ans['explicit'] is None else [net.uids[i] for i in ans['explicit']])
        # -- monitor (also provides the independent brute force) ----------------------------------------------------------------
        info = judge(net, res, rr, inc, hops, path, reason, via)
        # -- oracle vs brute force ---------------------------------------------------------------------------------------
        res.cmp_exact('oracle.npaths', info['npaths'], ans['npaths'])
        res.cmp_exact('oracle.nvalid', info['nvalid'], ans['nvalid'])
        if info['expect'] == 'constrained':
            res.cmp_exact('oracle.best_len', info['best'], ans['best_len'])
        elif info['expect'] == 'unconstrained':
            res.cmp_exact('oracle.best0_len', info['best'], ans['best0_len'])
        exp_kind = info['expect']
        got_kind = 'constrained' if dec['kind'] == 'explicit' else dec['kind']
        res.cmp_exact('oracle.decision', exp_kind, got_kind, request=rr)
        # -- reverse path ----------------------------------------------------------------------------------------------------
        if rr['bidir'] and path and rr['src'] != rr['dst']:
            if via == 'planning':
                rpath = rp
                if reason is None or rpath:
                    judge_reverse(net, res, rr, path, rpath, via)
            else:
                m = drv.ask('c11.reverse', ends=[i for i, k in enumerate(net.kinds) if k in 'RT'],
                            path=net.ids(path), **oargs)
                try:
                    rpath = [e.uid for e in find_reversed_path(p)]
                except Exception as e:
                    rpath = None
                    back = {(ln[1], ln[0]) for ln in net.lines}
                    if all((net.lines[k][0], net.lines[k][1]) in back for k in net.oms_seq(path)):
                        res.fail(f'reverse: find_reversed_path raised {err_kind(e)} although every link of the route has '
                                 f'an opposite direction')
                    else:       # the route crosses a one-way link: no reverse route exists, nothing to demand
                        res.stats['reverse_impossible_one_way_link'] += 1
                        res.cmp_exact('find_reversed_path(one-way)', None, m)
                if rpath is not None:
                    res.cmp_exact('find_reversed_path', rpath, None if m is None else [net.uids[i] for i in m])
                    judge_reverse(net, res, rr, path, rpath, via)
            res.stats['bidir_checked'] += 1
        if (inc and info['npaths'] >= 2) or not path:
            nontrivial = True
        res.stats.update({f'decision_{dec["kind"]}': 1, f'style_{r0.get("style", "?")}': 1,
                          'hops_' + ('none' if not hops else 'strict' if L not in hops else 'loose' if S not in hops
                                     else 'mixed'): 1,
                          'requests': 1,
                          'npaths_' + ('0' if info['npaths'] == 0 else '1' if info['npaths'] == 1 else '2-9' if
                                       info['npaths'] < 10 else '10-99' if info['npaths'] < 100 else '100+'): 1,
                          'inc_len_' + ('11+' if len(inc) >= 11 else '6-10' if len(inc) >= 6 else str(len(inc))): 1,
                          'doc_shuffled': int(bool(rr.get('doc')))})
    res.nontrivial = nontrivial
    res.stats.update({f'roadms_{case["mesh"]["n"]}': 1, 'meshes': 1})
    return res


# --------------------------------------------------------------------------------------------------------------------
# exhaustive small scope (thorough tier): every connected topology on 2..5 ROADMs up to isomorphism, all ordered
# pairs, every single-ROADM include (STRICT and LOOSE) and every single-line include (STRICT)
# --------------------------------------------------------------------------------------------------------------------

def exhaustive():
    for n, edges in meshes.small_topologies(5):
        mesh = meshes.small_mesh(n, edges)
        dirs = [(a, b) for a, b in edges] + [(b, a) for a, b in edges]
        reqs = []
        for s in range(n):
            for t in range(n):
                if s == t:
                    continue
                incs = [[]]
                for m in range(n):
                    if m not in (s, t):
                        incs.append([[['R', m], S]])
                        incs.append([[['R', m], L]])
                if n <= 4:
                    for (a, b) in dirs:
                        incs.append([[['L', a, b, 0.5], S]])
                for inc in incs:
                    reqs.append({'id': len(reqs), 'src': ['T', s], 'dst': ['T', t], 'inc': inc, 'bidir': s < t,
                                 'style': 'exhaustive'})
        yield {'kind': 'route', 'mesh': mesh, 'reqs': reqs, 'via': 'dsjctn'}


# --------------------------------------------------------------------------------------------------------------------
# shrinking
# --------------------------------------------------------------------------------------------------------------------

def shrink_candidates(case):
    if case['kind'] == 'vector':
        from props import c12
        for c in c12.shrink_candidates(case):
            yield c
        return
    if case['kind'] != 'route':
        for k in ('a', 'b'):
            for i in range(len(case[k])):
                c = copy.deepcopy(case)
                del c[k][i]
                yield c
        return
    if len(case['reqs']) > 1:
        for i in range(len(case['reqs'])):
            c = copy.deepcopy(case)
            c['reqs'] = [case['reqs'][i]]
            yield c
    if case.get('via') == 'planning':
        c = copy.deepcopy(case)
        c['via'] = 'dsjctn'
        yield c
    for i, r in enumerate(case['reqs']):
        for j in range(len(r['inc'])):
            c = copy.deepcopy(case)
            del c['reqs'][i]['inc'][j]
            yield c
        if r.get('bidir'):
            c = copy.deepcopy(case)
            c['reqs'][i]['bidir'] = False
            yield c
    for i in range(len(case['mesh']['links'])):
        c = copy.deepcopy(case)
        del c['mesh']['links'][i]
        yield c
    for i, lk in enumerate(case['mesh']['links']):
        if len(lk[2]) > 1 or len(lk[3]) > 1 or lk[4] != 'plain':
            c = copy.deepcopy(case)
            c['mesh']['links'][i] = [lk[0], lk[1], lk[2][:1], lk[3][:1], 'plain'] + list(lk[5:])
            yield c
