"""C18 — input documents mean the same thing in legacy and YANG form.

Correspondence: legacy_to_yang / yang_to_legacy (real functions, real libyang validation) vs Gnpy.Yang.legacyToYang /
yangToLegacy on the same JSON tree, twice in each direction (exact, key order included, decimal strings included);
PRECISION_DICT vs Gnpy.Yang.precisionDict; PrettyFloat vs Gnpy.Round.fmtBits; float(str) vs Gnpy.Round.parseFloatBits;
the other_name expansion of _equipment_from_json / Transceiver.__init__ vs expandAliases / expandModes.
Monitor (own arithmetic with `decimal`, own frozen table of declared fraction digits): idempotence of both converters,
every value preserved to the declared precision, every dict/list/degree/band preserved in order, loaders build equal
objects from both forms, every alias reports its own name with the parameters of the declaring entry.
"""
import copy
import json
import logging
import math
import re
from decimal import Decimal, ROUND_HALF_EVEN

from common.util import Result, f2b, b2f, err_kind
from common import nets

logging.disable(logging.CRITICAL)

ID = 'C18'
N = {'quick': 420, 'thorough': 9000}
LEAN_MODULES = ['GnpyProofs.Props.C18']
THEOREMS = ([f'Gnpy.Round.{t}' for t in ('fmt_error_bound', 'fmt_fixpoint', 'fmt_exact')]
            + [f'Gnpy.Yang.{t}' for t in (
                'none_empty_inverse', 'none_to_empty_idempotent', 'convert_dict_idempotent', 'range_roundtrip',
                'degree_roundtrip', 'design_band_roundtrip', 'loss_coef_roundtrip', 'raman_coef_roundtrip',
                'degree_to_yang_idempotent', 'design_band_to_yang_idempotent', 'range_to_yang_idempotent',
                'loss_coef_to_yang_idempotent', 'design_band_to_legacy_idempotent', 'loss_coef_to_legacy_idempotent',
                'range_to_legacy_idempotent', 'to_yang_idempotent_of_normal', 'to_yang_idempotent', 'to_legacy_idempotent',
                'roundtrip_structure_partial', 'forEachIn_roundtrip', 'onRoadmParams_roundtrip', 'withParams_roundtrip',
                'range_roundtrip_doc', 'degree_roundtrip_doc', 'loss_coef_roundtrip_doc',
                'delta_power_range_roundtrip_witness', 'delta_power_range_fails_old', 'raman_efficiency_back_spelling',
                'raman_efficiency_roundtrip_witness', 'raman_efficiency_fails_old',
                'alias_entries', 'alias_fails_pre_fix')])
RULE = ('documents of the five kinds (topology, equipment, services, spectrum, sim-params) generated from one PRNG with '
        'every field the loaders know: per-degree targets of the three kinds, design bands, per-frequency loss, lumped '
        'losses, Raman coefficients / efficiency, pumps, penalties, aliases (entry and mode level), nulls, several SI/Span '
        'entries, values with fewer, exactly and more digits than declared, ints where floats are declared; plus raw '
        'decimal-formatting cases and alias-expansion cases; 14 % of the cases take the YANG form of a generated document and '
        'serialise it in another order (entries of every keyed list reversed/shuffled, or the members of every object '
        'shuffled with the list keys kept in front): libyang must still accept it and yang_to_legacy and the loaders must '
        'convert it and YANG -> legacy -> YANG must preserve its data (a valid document in the YANG sense: RFC 7951, members '
        'and keyed-list entries unordered); that the result equals the one of the original order is a correspondence fact. libyang is the well-formedness oracle: documents it rejects '
        'are counted as malformed (about 10 %, produced on purpose by a field outside the schema / too many digits / a '
        'missing mandatory range) and only the error behaviour is compared. A case is non-trivial when the document was '
        'accepted and contains at least one structure the converters rewrite or a value that needs rounding; distinct = '
        'distinct canonical JSON of the case')
MODEL_SCOPE = ('modelled: convert_none_to_empty, convert_empty_to_none, convert_dict/PrettyFloat (exact binary value rounded '
               'half-even to the declared digits), convert_back (decimal text to nearest double), convert_degree(+back), '
               'convert_design_band(+back), convert_loss_coeff_list(+back), convert_raman_coef(+back), '
               'convert_raman_efficiency(+back), convert_delta_power_range(+back), convert_nf_coef(+back), '
               'convert_nf_fit_coef(+back), add_missing_default_type_variety, remove_null_region_city, '
               'remove_union_that_fail, reorder_keys users, remove_namespace_context, dispatch of legacy_to_yang and '
               'yang_to_legacy, PRECISION_DICT, other_name expansion of Edfa/Transceiver entries and of transceiver modes. '
               'not modelled: libyang validation (oracle), the gnpy-api envelope, Python repr for >= 17 digits (string taken '
               'from the harness and checked to parse back), the loaders themselves (compared object against object)')
PARTIAL = ['roundtrip_structure_partial: yang_to_legacy(legacy_to_yang d) ~ d (same members under every key, numbers within half a '
           'unit of the declared digit) is proved per structure (degree_roundtrip, design_band_roundtrip, loss_coef_roundtrip, '
           'raman_coef_roundtrip, range_roundtrip, fmt_error_bound/fmt_fixpoint), lifted to whole documents per converter '
           '(forEachIn_roundtrip; range_roundtrip_doc for every SI/Span entry, degree_roundtrip_doc and loss_coef_roundtrip_doc '
           'for every element) and checked on five witness documents for the full pipeline; missing lemmas: struct_compose '
           '(composition of the four topology converters on the same params; design-band and Raman _doc instances) and '
           'convertBack_convertDict_leaf (parseFloatBits (fmtBits b d) = nearest double of the rounded decimal) with its '
           'commutation with the structural steps',
           'to_yang_idempotent / to_legacy_idempotent are stated under the decidable predicates wfDoc / wfLegacyDoc (the '
           'conversion result is in YANG / legacy normal form, no bare null / [null], no binary float / numbers already numbers); '
           'that every document libyang accepts satisfies them is checked by the harness on every case (op c18.wf), not proved',
           'fmt for >= 17 declared digits uses Python repr: the model receives that text and only checks that it parses '
           'back to the same double (fmt_repr_partial)']

# ---------------------------------------------------------------------------------------------------------------------
# declared fraction digits (frozen copy written from the YANG modules; independent of gnpy.yang.precision_dict)
# ---------------------------------------------------------------------------------------------------------------------
DECL = {
    'f_min': 1, 'f_max': 1, 'length': 6, 'loss_coef': 6, 'pmd_coef': 18, 'frequency': 1, 'ref_frequency': 1,
    'ref_wavelength': 12, 'g0': 14, 'loss_coef_value': 16, 'position': 6, 'reference_frequency': 1, 'att_in': 2,
    'con_in': 2, 'con_out': 2, 'temperature': 2, 'power': 9, 'gain_target': 6, 'tilt_target': 6, 'out_voa': 2,
    'in_voa': 2, 'delta_p': 6, 'spacing': 2, 'target_pch_out_db': 2, 'target_psd_out_mWperGHz': 10,
    'target_out_mWperSlotWidth': 10, 'per_degree_pch_out_db': 2, 'per_degree_psd_out_mWperGHz': 10,
    'per_degree_psd_out_mWperSlotWidth': 10, 'number-of-channels': 0, 'loss': 2, 'latitude': 6, 'longitude': 6,
    'impairment_id': 0, 'output-power': 8, 'tx_power': 5, 'path_bandwidth': 1, 'N': 0, 'M': 0, 'max-nb-of-channel': 0,
    'index': 0, 'result_spatial_resolution': 3, 'solver_spatial_resolution': 3, 'dispersion_tolerance': 1,
    'phase_shift_tolerance': 1, 'order': 0, 'computed_channels': 0, 'computed_number_of_channels': 0, 'nf_min': 2,
    'nf_max': 2, 'nf0': 2, 'nf_coef': 10, 'coef_order': 0, 'gain_flatmax': 2, 'gain_min': 2, 'extended_gain_range': 2,
    'p_max': 2, 'dispersion': 8, 'dispersion_slope': 11, 'gamma': 8, 'effective_area': 14, 'min_value': 2,
    'max_value': 2, 'step': 2, 'lower-frequency': 2, 'upper-frequency': 2, 'cr': 9, 'frequency_offset': 2,
    'max_length': 2, 'max_loss': 2, 'max_fiber_lineic_loss_for_raman': 2, 'target_extended_gain': 2, 'padding': 2,
    'EOL': 2, 'span_loss_ref': 2, 'power_slope': 2, 'voa_margin': 2, 'voa_step': 2, 'add_drop_osnr': 2, 'pmd': 15,
    'pdl': 2, 'baud_rate': 2, 'power_dbm': 2, 'roll_off': 2, 'tx_osnr': 2, 'tx_power_dbm': 2, 'sys_margins': 2,
    'min': 2, 'max': 2, 'OSNR': 2, 'min_spacing': 2, 'bit_rate': 2, 'cost': 2, 'chromatic_dispersion': 2,
    'penalty_value': 2, 'equalization_offset_db': 4, 'roadm-path-impairments-id': 0, 'roadm-osnr': 2, 'slot_width': 2,
    'delta_pdb': 2, 'roadm-pmd': 8, 'roadm-cd': 5, 'roadm-pdl': 2, 'roadm-inband-crosstalk': 2, 'roadm-maxloss': 2,
    'roadm-pmax': 2, 'roadm-noise-figure': 5, 'roadm-minloss': 2, 'roadm-typloss': 2, 'roadm-pmin': 2, 'roadm-ptyp': 2,
}
# legacy-only spellings: which declared leaf a value under this (parent key, key) ends up in
LEGACY_ALIAS = {('loss_coef', 'value'): 'loss_coef_value', 'power_range_db': 'min_value',
                'delta_power_range_db': 'min_value'}


def declared(path):
    """declared fraction digits for the value at `path` (list of dict keys from the root, list indices left out);
    None = not a decimal leaf (strings, booleans)"""
    if len(path) >= 2 and (path[-2], path[-1]) in LEGACY_ALIAS:
        return DECL[LEGACY_ALIAS[(path[-2], path[-1])]]
    for k in reversed(path):
        if k in LEGACY_ALIAS and isinstance(LEGACY_ALIAS[k], str):
            return DECL[LEGACY_ALIAS[k]]
        if k in DECL:
            return DECL[k]
        # a degree uid / unknown key: look at the enclosing key
    return None


def ulp(x):
    return math.ulp(abs(x)) if x != 0 else 5e-324


def round_decl(x, d):
    """x rounded half-even to d fraction digits on its exact binary value (decimal module: independent of PrettyFloat)"""
    return float(Decimal(x).quantize(Decimal(1).scaleb(-d), rounding=ROUND_HALF_EVEN))


# ---------------------------------------------------------------------------------------------------------------------
# wire form of a JSON tree (see lean/GnpyDriver/C18.lean)
# ---------------------------------------------------------------------------------------------------------------------
def to_wire(x):
    if x is None or isinstance(x, (bool, str)):
        return x
    if isinstance(x, int):
        return x
    if isinstance(x, float):
        return ['f', f2b(x)]
    if isinstance(x, (list, tuple)):
        return ['a'] + [to_wire(e) for e in x]
    if isinstance(x, dict):
        return ['o'] + [[k, to_wire(v)] for k, v in x.items()]
    raise TypeError(f'not a JSON value: {type(x)}')


def from_wire(w):
    if isinstance(w, list):
        if w[0] == 'f':
            return b2f(w[1])
        if w[0] == 'a':
            return [from_wire(e) for e in w[1:]]
        return {k: from_wire(v) for k, v in w[1:]}
    return w


def floats_of(x, acc):
    if isinstance(x, float):
        acc[f2b(x)] = repr(float(x))
    elif isinstance(x, int) and not isinstance(x, bool):
        acc[f2b(float(x))] = repr(float(x))
    elif isinstance(x, list):
        for e in x:
            floats_of(e, acc)
    elif isinstance(x, dict):
        for e in x.values():
            floats_of(e, acc)
    return acc


def reprs_of(x):
    return [[b, r] for b, r in floats_of(x, {}).items()]


def plain(x):
    """strip float subclasses (PrettyFloat) so that comparisons and JSON dumps see ordinary values"""
    if isinstance(x, bool) or x is None or isinstance(x, (str, int)):
        return x
    if isinstance(x, float):
        return float(x)
    if isinstance(x, list):
        return [plain(e) for e in x]
    if isinstance(x, dict):
        return {k: plain(v) for k, v in x.items()}
    return x


# ---------------------------------------------------------------------------------------------------------------------
# value generators
# ---------------------------------------------------------------------------------------------------------------------
class G:
    """generation context: style of the numbers of this document"""

    def __init__(self, rng, widen):
        self.rng = rng
        # 'in': at most the declared digits; 'over': more digits than declared; 'mixed'
        self.style = rng.choice(['in', 'in', 'mixed', 'over']) if not widen else rng.choice(['over', 'tie', 'mixed'])
        self.int_ok = rng.random() < 0.5
        self.over_used = 0
        self.tie_used = 0

    def num(self, key, lo, hi, nat=2, force=None):
        """a value for leaf `key` between lo and hi; `nat` = natural number of digits for round values"""
        rng = self.rng
        d = DECL[key]
        style = force or self.style
        if style == 'mixed':
            style = rng.choice(['in', 'in', 'over', 'tie'])
        if d == 0:
            return int(round(rng.uniform(lo, hi)))
        if style == 'in':
            top = max(abs(lo), abs(hi))
            kmin = 0 if top >= 10 else min(d, max(0, 1 - math.floor(math.log10(top))))   # keep two significant digits
            k = rng.randint(kmin, max(kmin, min(d, nat)))
            v = round(rng.uniform(lo, hi), k)
            if self.int_ok and v == int(v) and abs(v) < 2 ** 50 and rng.random() < 0.5:
                return int(v)
            return v
        if style == 'tie' and d <= 12:
            # a value whose exact binary expansion sits on (or one ulp next to) a rounding tie of the declared digits
            q = Decimal(1).scaleb(-d)
            top = max(abs(lo), abs(hi))
            kmin = 0 if top >= 10 else min(d, max(0, 1 - math.floor(math.log10(top))))
            base = Decimal(repr(round(rng.uniform(lo, hi), max(kmin, min(d, nat)))))
            t = float(base + q / 2)
            t = rng.choice([t, math.nextafter(t, math.inf), math.nextafter(t, -math.inf)])
            self.tie_used += 1
            return t
        self.over_used += 1
        v = rng.uniform(lo, hi)
        return v * (1 + rng.uniform(-1e-7, 1e-7)) if v != 0 else v

    def hz(self, key, lo, hi, step=6.25e9):
        """a frequency in Hz on a grid (integers below 2^53), sometimes with a fraction"""
        rng = self.rng
        v = float(round(rng.uniform(lo, hi) / step) * step)
        style = self.style if self.style != 'mixed' else rng.choice(['in', 'in', 'over'])
        if style in ('over', 'tie') and DECL[key] > 0 and rng.random() < 0.5:
            self.over_used += 1
            return v + rng.choice([0.25, 0.5, 0.75, 0.125, 0.4])
        if self.int_ok and rng.random() < 0.3:
            return int(v)
        return v

    def maybe_null(self, v, p=0.25):
        return None if self.rng.random() < p else v


def shuffled(rng, d, first=()):
    """same dict with the keys in random order, the YANG list keys `first` kept in front (libyang wants them first)"""
    ks = [k for k in d if k not in first]
    rng.shuffle(ks)
    return {kk: d[kk] for kk in [k for k in first if k in d] + ks}


def loc(g, i):
    rng = g.rng
    d = {'latitude': g.num('latitude', -60, 60, 4), 'longitude': g.num('longitude', -120, 120, 4),
         'city': rng.choice([f'city{i}', None, '']), 'region': rng.choice(['RLD', None, ''])}
    if rng.random() < 0.2:
        d.pop(rng.choice(['city', 'region']))
    return {'location': d}


def bands(g, n=None):
    rng = g.rng
    n = n or rng.choice([1, 1, 2])
    out = []
    edges = [(191.3e12, 196.1e12), (186.1e12, 190.9e12)]
    rng.shuffle(edges)
    for lo, hi in edges[:n]:
        b = {'f_min': g.hz('f_min', lo, lo + 0.3e12), 'f_max': g.hz('f_max', hi - 0.3e12, hi)}
        c = rng.random()
        if c < 0.5:
            b['spacing'] = g.hz('spacing', 37.5e9, 100e9, 12.5e9)
        elif c < 0.7:
            b['number-of-channels'] = rng.randint(1, 96)
        out.append(b)
    return out


def gen_topology(g):
    rng = g.rng
    n = rng.choice([2, 2, 3])
    names = ['A', 'B', 'C'][:n]
    els, cxs = [], []
    egress = {x: [] for x in names}     # uids of the first element after each roadm
    ingress = {x: [] for x in names}
    k = [0]

    def uid(prefix):
        k[0] += 1
        return f'{prefix} {k[0]}'

    for x in names:
        t = {'uid': f'trx {x}', 'type': 'Transceiver', 'metadata': loc(g, k[0])}
        if rng.random() < 0.2:
            t['params'] = {'design_bands': bands(g)}
        els.append(t)
    line_specs = []
    for a, b in zip(names, names[1:]):
        line_specs += [(a, b), (b, a)]
    for a, b in line_specs:
        line = []
        if rng.random() < 0.5:
            if rng.random() < 0.25:
                amps = [{'type_variety': v, 'operational': edfa_oper(g)} for v in ('std_medium_gain_C', 'std_medium_gain_L')]
                e = {'uid': uid('mb'), 'type': 'Multiband_amplifier', 'type_variety': 'std_medium_gain_multiband',
                     'amplifiers': amps if rng.random() < 0.8 else amps[:1], 'metadata': loc(g, k[0])}
            else:
                e = {'uid': uid('edfa'), 'type': 'Edfa', 'type_variety': rng.choice(['std_low_gain', 'std_medium_gain', 'test']),
                     'operational': edfa_oper(g), 'metadata': loc(g, k[0])}
                if rng.random() < 0.15:
                    e.pop('operational')
            line.append(e)
        for s in range(rng.choice([1, 1, 2])):
            line.append(fiber(g, uid('fiber')))
            c = rng.random()
            if c < 0.25:
                f = {'uid': uid('fused'), 'type': 'Fused', 'metadata': loc(g, k[0])}
                if rng.random() < 0.7:
                    f['params'] = {'loss': g.maybe_null(g.num('loss', 0, 3, 2), 0.2)}
                line.append(f)
            elif c < 0.6:
                line.append({'uid': uid('edfa'), 'type': 'Edfa', 'type_variety': rng.choice(['std_low_gain', 'std_medium_gain']),
                             'operational': edfa_oper(g), 'metadata': loc(g, k[0])})
        prev = f'roadm {a}'
        egress[a].append(line[0]['uid'])
        ingress[b].append(line[-1]['uid'])
        for e in line:
            els.append(e)
            cxs.append({'from_node': prev, 'to_node': e['uid']})
            prev = e['uid']
        cxs.append({'from_node': prev, 'to_node': f'roadm {b}'})
    for x in names:
        r = {'uid': f'roadm {x}', 'type': 'Roadm', 'metadata': loc(g, k[0])}
        if rng.random() < 0.5:
            r['type_variety'] = 'default'
        p = {}
        c = rng.random()
        if c < 0.3:
            p['target_pch_out_db'] = g.num('target_pch_out_db', -25, -10, 2)
        elif c < 0.5:
            p['target_psd_out_mWperGHz'] = g.num('target_psd_out_mWperGHz', 1e-4, 6e-4, 7)
        elif c < 0.7:
            p['target_out_mWperSlotWidth'] = g.num('target_out_mWperSlotWidth', 1e-4, 6e-4, 7)
        degs = egress[x] + [f'trx {x}']
        kinds = [('per_degree_pch_out_db', -25, -10, 2), ('per_degree_psd_out_mWperGHz', 1e-4, 6e-4, 7),
                 ('per_degree_psd_out_mWperSlotWidth', 1e-4, 6e-4, 7)]
        rng.shuffle(kinds)
        avail = list(degs)
        rng.shuffle(avail)
        for kind, lo, hi, nat in kinds:
            if avail and rng.random() < 0.55:
                take = [avail.pop() for _ in range(rng.randint(1, min(2, len(avail))))]
                p[kind] = {dg: g.num(kind, lo, hi, nat) for dg in take}
        if rng.random() < 0.35:
            p['per_degree_design_bands'] = {dg: bands(g) for dg in rng.sample(degs, rng.randint(1, len(degs)))}
        if rng.random() < 0.3:
            p['design_bands'] = bands(g)
        if rng.random() < 0.5:
            p['restrictions'] = {'preamp_variety_list': rng.choice([[], ['std_low_gain'], ['std_low_gain', 'std_medium_gain']]),
                                 'booster_variety_list': rng.choice([[], ['std_medium_gain']])}
        if rng.random() < 0.3 and ingress[x]:
            p['per_degree_impairments'] = [{'from_degree': rng.choice(ingress[x]), 'to_degree': rng.choice(egress[x]),
                                            'impairment_id': rng.randint(0, 3)}]
        r_ = p.get('restrictions')
        if r_ is not None and not r_['preamp_variety_list'] and not r_['booster_variety_list'] and \
                not any(kk.startswith('target_') or kk in ('per_degree_impairments',) or kk.startswith('per_degree_p') for kk in p):
            # guard: oopt-gnpy-libyang SEGFAULTS on a ROADM whose `roadm` case holds nothing but an empty restrictions
            # container (observed, reported): such a document can be neither accepted nor rejected
            p['target_pch_out_db'] = g.num('target_pch_out_db', -25, -10, 2)
        if p or rng.random() < 0.5:
            keys = list(p)
            rng.shuffle(keys)
            r['params'] = {kk: p[kk] for kk in keys}
        els.append(r)
        cxs.append({'from_node': f'trx {x}', 'to_node': f'roadm {x}'})
        cxs.append({'from_node': f'roadm {x}', 'to_node': f'trx {x}'})
    rng.shuffle(els)
    doc = {'elements': els, 'connections': cxs}
    if rng.random() < 0.4:
        doc['network_name'] = 'net ' + str(rng.randint(0, 99))
    return doc


def edfa_oper(g):
    rng = g.rng
    o = {'gain_target': g.maybe_null(g.num('gain_target', 8, 30, 3)), 'delta_p': g.maybe_null(g.num('delta_p', -3, 3, 3)),
         'tilt_target': g.maybe_null(g.num('tilt_target', -2, 2, 2)), 'out_voa': g.maybe_null(g.num('out_voa', 0, 4, 2))}
    if rng.random() < 0.4:
        o['in_voa'] = g.maybe_null(g.num('in_voa', 0, 4, 2))
    for kk in list(o):
        if rng.random() < 0.1:
            o.pop(kk)
    return o


def fiber(g, uid):
    rng = g.rng
    p = {'length': g.num('length', 20, 120, 3), 'length_units': 'km',
         'att_in': g.num('att_in', 0, 2, 2), 'con_in': g.maybe_null(g.num('con_in', 0, 1, 2)),
         'con_out': g.maybe_null(g.num('con_out', 0, 1, 2))}
    if rng.random() < 0.35:
        nfreq = rng.randint(1, 4)
        fr = sorted({g.hz('frequency', 185e12, 197e12, 1e11) for _ in range(nfreq)})
        p['loss_coef'] = {'value': [g.num('loss_coef_value', 0.15, 0.3, rng.choice([2, 4, 9])) for _ in fr], 'frequency': fr}
        if rng.random() < 0.5:
            p['loss_coef'] = dict(reversed(list(p['loss_coef'].items())))
    else:
        p['loss_coef'] = g.num('loss_coef', 0.15, 0.3, 4)
    if rng.random() < 0.3:
        p['pmd_coef'] = g.num('pmd_coef', 0.5e-15, 4e-15, 18) if rng.random() < 0.8 else g.num('pmd_coef', 1e-4, 3e-4, 10)
    if rng.random() < 0.2:
        p['ref_frequency'] = g.hz('ref_frequency', 193e12, 194e12, 1e11)
    elif rng.random() < 0.2:
        p['ref_wavelength'] = g.num('ref_wavelength', 1.53e-6, 1.56e-6, 10)
    if rng.random() < 0.25:
        p['dispersion'] = g.num('dispersion', 1.5e-5, 1.8e-5, 8)
        if rng.random() < 0.5:
            p['dispersion_slope'] = g.num('dispersion_slope', 5e-8, 7e-8, 11)
    if rng.random() < 0.2:
        p['effective_area'] = g.num('effective_area', 70e-12, 90e-12, 14)
    if rng.random() < 0.2:
        p['gamma'] = g.num('gamma', 1e-3, 1.5e-3, 6)
    if rng.random() < 0.3:
        nfo = rng.randint(1, 4)
        fo = sorted({g.hz('reference_frequency', 0.5e12, 16e12, 0.5e12) for _ in range(nfo)})
        rc = {'g0': [g.num('g0', 0, 4e-4, rng.choice([5, 8, 14])) for _ in fo], 'frequency_offset': fo,
              'reference_frequency': g.hz('reference_frequency', 205e12, 207e12, 1e9)}
        ks = list(rc)
        rng.shuffle(ks)
        p['raman_coefficient'] = {kk: rc[kk] for kk in ks}
    if rng.random() < 0.3:
        pos = sorted({g.num('position', 1, 19, 3, force='in') for _ in range(rng.randint(1, 3))})
        ll = []
        for x in pos:
            it = {'position': x, 'loss': g.num('loss', 0.1, 2, 2)}
            if rng.random() < 0.5:
                it = dict(reversed(list(it.items())))
            ll.append(it)
        p['lumped_losses'] = ll
    ks = list(p)
    rng.shuffle(ks)
    e = {'uid': uid, 'type': 'Fiber', 'type_variety': rng.choice(['SSMF', 'NZDF', 'LOF']), 'params': {kk: p[kk] for kk in ks},
         'metadata': loc(g, 0)}
    if rng.random() < 0.3:
        e['type'] = 'RamanFiber'
        e['type_variety'] = 'SSMF'
        if e['params']['con_out'] is None:
            e['params']['con_out'] = g.num('con_out', 0, 1, 2)
        pumps = []
        for fq in sorted({g.hz('frequency', 200e12, 207e12, 1e11) for _ in range(rng.randint(1, 3))}):
            pu = {'power': g.num('power', 0.1, 0.4, 6), 'frequency': fq,
                  'propagation_direction': rng.choice(['coprop', 'counterprop'])}
            ks = list(pu)
            rng.shuffle(ks)
            pumps.append({kk: pu[kk] for kk in ks})
        e['operational'] = {'temperature': g.num('temperature', 280, 300, 2), 'raman_pumps': pumps}
    return e


def impairment_rows(g, kind):
    rng = g.rng
    rows = []
    lo = 191.3e12
    for _ in range(rng.choice([1, 1, 2])):
        hi = lo + rng.choice([2.4e12, 4.8e12])
        row = {'frequency-range': {'lower-frequency': g.hz('lower-frequency', lo, lo, 1e9),
                                   'upper-frequency': g.hz('upper-frequency', hi, hi, 1e9)},
               'roadm-pmd': g.maybe_null(g.num('roadm-pmd', 0, 1e-3, 8), 0.15), 'roadm-cd': g.num('roadm-cd', 0, 5, 3),
               'roadm-pdl': g.num('roadm-pdl', 0, 1, 2), 'roadm-inband-crosstalk': g.num('roadm-inband-crosstalk', 0, 1, 2),
               'roadm-maxloss': g.num('roadm-maxloss', 6, 18, 2)}
        if kind != 'roadm-express-path':
            row['roadm-pmax'] = g.num('roadm-pmax', -10, 3, 2)
            row['roadm-osnr'] = g.num('roadm-osnr', 30, 45, 2)
            row['roadm-noise-figure'] = g.num('roadm-noise-figure', 5, 25, 3)
        if kind == 'roadm-drop-path':
            row['roadm-minloss'] = g.num('roadm-minloss', 5, 8, 2)
            row['roadm-typloss'] = g.num('roadm-typloss', 8, 11, 2)
            row['roadm-pmin'] = g.num('roadm-pmin', -15, -12, 2)
            row['roadm-ptyp'] = g.num('roadm-ptyp', -12, -10, 2)
        rows.append(row)
        lo = hi
    return rows


def trx_mode(g, name):
    rng = g.rng
    baud = g.hz('baud_rate', 28e9, 70e9, 1e9)
    m = {'format': name, 'baud_rate': baud, 'OSNR': g.num('OSNR', 9, 26, 1), 'bit_rate': g.hz('bit_rate', 100e9, 600e9, 50e9),
         'roll_off': g.maybe_null(g.num('roll_off', 0.05, 0.3, 2), 0.15), 'tx_osnr': g.num('tx_osnr', 35, 45, 1),
         'min_spacing': g.hz('min_spacing', float(baud) + 6.25e9, float(baud) + 30e9, 6.25e9), 'cost': g.num('cost', 1, 3, 0)}
    if rng.random() < 0.4:
        pen = []
        for imp, top in (('chromatic_dispersion', 6e4), ('pmd', 40), ('pdl', 4)):
            if rng.random() < 0.6:
                vals = sorted({g.num(imp, top / 10, top, 1, force='in') for _ in range(rng.randint(1, 3))})
                if rng.random() < 0.3 and imp == 'chromatic_dispersion':
                    vals = [g.num(imp, -top / 10, 0, 0, force='in')] + vals
                for v in vals:
                    pen.append({imp: v, 'penalty_value': g.num('penalty_value', 0, 3, 2)})
        rng.shuffle(pen)
        m['penalties'] = pen
    if rng.random() < 0.3:
        m['equalization_offset_db'] = g.num('equalization_offset_db', -3, 3, 3)
    if rng.random() < 0.25:
        m['tx_power_dbm'] = g.num('tx_power_dbm', -5, 3, 2)
    if rng.random() < 0.3:
        m['other_name'] = [f'{name} alias {i}' for i in range(rng.randint(1, 2))]
    return m


# (gain_flatmax, gain_min, nf_min, nf_max) of the shipped variable-gain amplifiers: estimate_nf_model accepts them
NF_TUPLES = [(26, 15, 6, 10), (16, 8, 6.5, 11), (35, 25, 5.5, 7), (25, 15, 6, 10)]


_RAW = {}


def shipped_json(name):
    """a shipped example document exactly as it is on disk (never through the loader under test)"""
    if name not in _RAW:
        with open(nets.EX / name, encoding='utf-8') as fh:
            _RAW[name] = json.load(fh)
    return copy.deepcopy(_RAW[name])


def gen_equipment(g):
    """a library derived from the shipped one (so that every reference resolves) with generated entries of each kind"""
    rng = g.rng
    base = shipped_json('eqpt_config.json')
    doc = {}
    # --- Edfa: keep the shipped entries the generated ones refer to, add generated ones
    edfa = [e for e in base['Edfa'] if e['type_variety'] in ('std_medium_gain', 'std_low_gain', 'std_fixed_gain', '4pumps_raman')]
    for i in range(rng.randint(1, 4)):
        kind = rng.choice(['variable_gain', 'fixed_gain', 'openroadm', 'openroadm_preamp', 'openroadm_booster', 'dual_stage',
                           'advanced_model', 'variable_gain'])
        gfm, gmin, nfmin, nfmax = rng.choice(NF_TUPLES)
        e = {'type_variety': f'gen_{kind}_{i}', 'type_def': kind, 'gain_flatmax': g.num('gain_flatmax', gfm, gfm + 0.3, 1),
             'gain_min': g.num('gain_min', gmin, gmin + 0.3, 1), 'p_max': g.num('p_max', 16, 25, 1),
             'out_voa_auto': rng.random() < 0.3, 'allowed_for_design': rng.random() < 0.5}
        if kind == 'variable_gain':
            e['nf_min'] = g.num('nf_min', nfmin, nfmin + 0.1, 2)
            e['nf_max'] = g.num('nf_max', nfmax, nfmax + 0.1, 2)
            if rng.random() < 0.3:
                e['default_config_from_json'] = 'std_medium_gain_advanced_config.json'
        elif kind == 'fixed_gain':
            e['nf0'] = g.num('nf0', 4, 8, 2)
        elif kind == 'openroadm':
            e['nf_coef'] = [g.num('nf_coef', -0.1, 0.1, rng.choice([4, 7, 10])) for _ in range(3)] + [g.num('nf_coef', 20, 40, 2)]
        elif kind == 'dual_stage':
            e['preamp_variety'] = '4pumps_raman'
            e['booster_variety'] = 'std_low_gain'
            e['raman'] = True
            e.pop('gain_flatmax'), e.pop('p_max')
            e['gain_min'] = g.num('gain_min', 25, 30, 1)
        elif kind == 'advanced_model':
            e['advanced_config_from_json'] = 'std_medium_gain_advanced_config.json'
        if rng.random() < 0.3 and kind != 'dual_stage':
            e['f_min'] = g.hz('f_min', 191.2e12, 191.4e12, 25e9)
            e['f_max'] = g.hz('f_max', 196.0e12, 196.2e12, 25e9)
        if rng.random() < 0.25:
            e['pmd'] = g.num('pmd', 0, 1e-12, 15)
            e['pdl'] = g.num('pdl', 0, 1, 2)
        if rng.random() < 0.2:
            e['extended_gain_range'] = g.num('extended_gain_range', 0, 3, 1)
        if rng.random() < 0.35:
            e['other_name'] = [f'gen_{kind}_{i} alias {j}' for j in range(rng.randint(1, 3))]
        edfa.append(shuffled(rng, e, ('type_variety',)))
    if rng.random() < 0.4:
        edfa += [e for e in shipped_json('eqpt_config_multiband.json')['Edfa']
                 if e['type_variety'] in ('std_medium_gain_C', 'std_medium_gain_L', 'std_medium_gain_multiband')]
    rng.shuffle(edfa)
    doc['Edfa'] = edfa
    # --- Fiber / RamanFiber
    fibers = []
    for name in ['SSMF'] + rng.sample(['NZDF', 'LOF', 'F4'], rng.randint(0, 2)):
        f = {'type_variety': name, 'dispersion': g.num('dispersion', 0.4e-5, 2.2e-5, 8),
             'effective_area': g.num('effective_area', 60e-12, 130e-12, 13), 'pmd_coef': g.num('pmd_coef', 0.5e-15, 4e-15, 18)}
        if rng.random() < 0.3:
            f['gamma'] = g.num('gamma', 1e-3, 1.5e-3, 6)
        if rng.random() < 0.15:
            f.pop('effective_area')
        fibers.append(f)
    doc['Fiber'] = fibers
    rf = dict(copy.deepcopy(fibers[0]))
    if rng.random() < 0.5:
        nfo = rng.randint(1, 4)
        fo = sorted({g.hz('frequency_offset', 0.5e12, 16e12, 0.5e12) for _ in range(nfo)})
        re_ = {'cr': [g.num('cr', 0, 4e-4, rng.choice([5, 8, 9])) for _ in fo], 'frequency_offset': fo}
        if rng.random() < 0.5:
            re_ = dict(reversed(list(re_.items())))
        rf['raman_efficiency'] = re_
    doc['RamanFiber'] = [rf]
    # --- Span (several entries)
    spans = []
    for i in range(rng.choice([1, 1, 2, 3])):
        lo_ = g.num('min_value', -4, 0, 1)
        s = {'power_mode': rng.random() < 0.7, 'delta_power_range_db': [lo_, g.num('max_value', 0, 4, 1), g.num('step', 0.25, 1, 2)],
             'max_fiber_lineic_loss_for_raman': g.num('max_fiber_lineic_loss_for_raman', 0.2, 0.3, 2),
             'target_extended_gain': g.num('target_extended_gain', 0, 3, 1), 'max_length': g.num('max_length', 100, 200, 0),
             'length_units': 'km', 'max_loss': g.num('max_loss', 20, 35, 1), 'padding': g.num('padding', 8, 12, 1),
             'EOL': g.num('EOL', 0, 2, 1), 'con_in': g.num('con_in', 0, 1, 2), 'con_out': g.num('con_out', 0, 1, 2)}
        if rng.random() < 0.3:
            s.update({'span_loss_ref': g.num('span_loss_ref', 18, 22, 1), 'power_slope': g.num('power_slope', 0.1, 0.5, 2),
                      'voa_margin': g.num('voa_margin', 0, 2, 1), 'voa_step': g.num('voa_step', 0.1, 1, 2)})
        if i > 0:
            s['type_variety'] = f'span{i}' if False else None
            s.pop('type_variety')
        ks = list(s)
        rng.shuffle(ks)
        spans.append({kk: s[kk] for kk in ks})
    doc['Span'] = spans
    # --- Roadm
    roadms = []
    for i, name in enumerate([None] + rng.sample(['roadm_type_1', 'detailed_impairments', 'gen_roadm'], rng.randint(0, 3))):
        r = {}
        if name is not None or rng.random() < 0.3:
            r['type_variety'] = name or 'default'
        c = rng.random()
        if c < 0.5:
            r['target_pch_out_db'] = g.num('target_pch_out_db', -25, -10, 2)
        elif c < 0.75:
            r['target_psd_out_mWperGHz'] = g.num('target_psd_out_mWperGHz', 1e-4, 6e-4, 8)
        else:
            r['target_out_mWperSlotWidth'] = g.num('target_out_mWperSlotWidth', 1e-4, 6e-4, 8)
        r.update({'add_drop_osnr': g.num('add_drop_osnr', 30, 40, 1), 'pmd': g.num('pmd', 0, 3e-12, 15), 'pdl': g.num('pdl', 0, 1.5, 2),
                  'restrictions': {'preamp_variety_list': rng.choice([[], ['std_low_gain']]),
                                   'booster_variety_list': rng.choice([[], ['std_medium_gain']])}})
        if rng.random() < 0.5:
            imps = []
            for j, kind in enumerate(rng.sample(['roadm-express-path', 'roadm-add-path', 'roadm-drop-path'], rng.randint(0, 3))):
                it = {'roadm-path-impairments-id': j, kind: impairment_rows(g, kind)}
                imps.append(it)
            r['roadm-path-impairments'] = imps
        roadms.append(r)
    doc['Roadm'] = roadms
    # --- SI (several entries)
    sis = []
    for i in range(rng.choice([1, 1, 2, 3])):
        s = {'f_min': g.hz('f_min', 191.2e12, 191.5e12, 25e9), 'baud_rate': g.hz('baud_rate', 30e9, 66e9, 1e9),
             'f_max': g.hz('f_max', 195e12, 196.2e12, 25e9), 'spacing': g.hz('spacing', 50e9, 100e9, 12.5e9),
             'power_dbm': g.num('power_dbm', -3, 3, 1), 'power_range_db': [g.num('min_value', -3, 0, 1), g.num('max_value', 0, 3, 1),
                                                                        g.num('step', 0.5, 1, 1)],
             'roll_off': g.maybe_null(g.num('roll_off', 0.1, 0.2, 2), 0.1), 'tx_osnr': g.num('tx_osnr', 35, 45, 1),
             'sys_margins': g.num('sys_margins', 0, 3, 1)}
        if rng.random() < 0.4:
            s['tx_power_dbm'] = g.num('tx_power_dbm', -3, 3, 1)
        if rng.random() < 0.3:
            s['use_si_channel_count_for_design'] = rng.random() < 0.5
        if i > 0:
            s['type_variety'] = f'si{i}'
        elif rng.random() < 0.3:
            s['type_variety'] = 'default'
        sis.append(s)
    doc['SI'] = sis
    # --- Transceiver
    trxs = []
    for i in range(rng.choice([1, 2])):
        t = {'type_variety': f'T{i}', 'frequency': {'min': g.hz('min', 191.3e12, 191.4e12, 50e9), 'max': g.hz('max', 196e12, 196.1e12, 50e9)},
             'mode': [trx_mode(g, f'mode {j}') for j in range(rng.randint(1, 3))]}
        if rng.random() < 0.5:
            t['other_name'] = [chr(65 + j) for j in range(rng.randint(1, 3))] if i == 0 else [f'T{i} alias']
        trxs.append(t)
    doc['Transceiver'] = trxs
    ks = list(doc)
    rng.shuffle(ks)
    return {kk: doc[kk] for kk in ks}


def gen_services(g):
    rng = g.rng
    reqs = []
    nreq = rng.randint(1, 5)
    nodes = ['trx Lorient_KMA', 'trx Vannes_KBE', 'trx Brest_KLA', 'trx Rennes_STA', 'trx Lannion_CAS']
    for i in range(nreq):
        s, d = rng.sample(nodes, 2)
        mode = rng.choice([None, 'mode 1', 'mode 2'])
        te = {'technology': 'flexi-grid', 'trx_type': 'Voyager', 'trx_mode': mode,
              'spacing': g.hz('spacing', 75e9 if mode == 'mode 2' else 50e9, 100e9, 12.5e9),
              'path_bandwidth': g.hz('path_bandwidth', 100e9, 400e9, 100e9)}
        c = rng.random()
        if c < 0.4:
            te['effective-freq-slot'] = [{'N': None, 'M': None}]
        elif c < 0.75:
            slots = []
            n0 = rng.randint(-280, 200)
            for _ in range(rng.randint(1, 3)):
                m = rng.choice([4, 6, 8, 12])
                sl = {'N': n0, 'M': rng.choice([m, m, None])}
                n0 += 2 * m + rng.choice([0, 4])
                slots.append(sl)
            te['effective-freq-slot'] = slots
        if rng.random() < 0.7:
            te['max-nb-of-channel'] = rng.choice([None, rng.randint(1, 60)])
        if rng.random() < 0.7:
            te['output-power'] = rng.choice([None, g.num('output-power', 5e-4, 2.5e-3, 7)])
        if rng.random() < 0.3:
            te['tx_power'] = rng.choice([None, g.num('tx_power', 5e-4, 2.5e-3, 5)])
        ks = list(te)
        rng.shuffle(ks)
        r = {'request-id': str(i), 'source': s, 'destination': d, 'src-tp-id': s, 'dst-tp-id': d,
             'bidirectional': rng.random() < 0.3, 'path-constraints': {'te-bandwidth': {kk: te[kk] for kk in ks}}}
        if rng.random() < 0.5:
            hops = []
            idxs = list(range(rng.randint(1, 4)))
            if rng.random() < 0.3:
                rng.shuffle(idxs)
            for ix in idxs:
                h = {'explicit-route-usage': 'route-include-ero', 'index': ix,
                     'num-unnum-hop': {'node-id': 'roadm ' + rng.choice(nodes)[4:], 'link-tp-id': 'link-tp-id is not used',
                                       'hop-type': rng.choice(['LOOSE', 'STRICT'])}}
                ks = list(h)
                rng.shuffle(ks)
                hops.append({kk: h[kk] for kk in ks})
            r['explicit-route-objects'] = {'route-object-include-exclude': hops}
        reqs.append(r)
    doc = {'path-request': reqs}
    if nreq >= 2 and rng.random() < 0.6:
        doc['synchronization'] = [{'synchronization-id': str(j), 'svec': {
            'relaxable': rng.random() < 0.3, 'disjointness': rng.choice(['node link', 'link', 'node']),
            'request-id-number': [str(x) for x in rng.sample(range(nreq), 2)]}} for j in range(rng.randint(1, 2))]
    return doc


def gen_spectrum(g):
    rng = g.rng
    parts = []
    f = 191.4e12
    for i in range(rng.randint(1, 4)):
        slot = rng.choice([37.5e9, 50e9, 75e9, 100e9])
        nch = rng.randint(1, 8)
        f = f + slot
        fmin = g.hz('f_min', f, f, 12.5e9)
        p = {'f_min': fmin, 'f_max': (fmin if nch == 1 else g.hz('f_max', f + (nch - 1) * slot, f + (nch - 1) * slot, 12.5e9)),
             'baud_rate': g.hz('baud_rate', 0.6 * slot, 0.9 * slot, 1e9), 'slot_width': (int(slot) if g.int_ok and rng.random() < 0.3 else slot),
             'roll_off': g.maybe_null(g.num('roll_off', 0.05, 0.3, 2), 0.1)}
        f = f + nch * slot + rng.choice([0, 50e9])
        if rng.random() < 0.6:
            p['delta_pdb'] = g.num('delta_pdb', -3, 3, 2)
        if rng.random() < 0.6:
            p['tx_osnr'] = g.num('tx_osnr', 35, 45, 1)
        if rng.random() < 0.4:
            p['tx_power_dbm'] = g.num('tx_power_dbm', -5, 3, 2)
        if rng.random() < 0.6:
            p['label'] = f'part {i}'
        parts.append(shuffled(rng, p, ('f_min',)))
    if rng.random() < 0.3:
        rng.shuffle(parts)
    return {'spectrum': parts}


def gen_simparams(g):
    rng = g.rng
    rp = {'flag': rng.random() < 0.6, 'result_spatial_resolution': g.num('result_spatial_resolution', 1e3, 5e4, 2),
          'solver_spatial_resolution': g.num('solver_spatial_resolution', 10, 1e4, 3)}
    if rng.random() < 0.4:
        rp['order'] = rng.choice([1, 2])
    if rng.random() < 0.4:
        rp['method'] = rng.choice(['perturbative', 'numerical'])
    npar = {'method': rng.choice(['gn_model_analytic', 'ggn_spectrally_separated', 'ggn_approx']),
            'dispersion_tolerance': g.num('dispersion_tolerance', 1, 4, 1), 'phase_shift_tolerance': g.num('phase_shift_tolerance', 0.1, 1, 1)}
    c = rng.random()
    if c < 0.4:
        npar['computed_channels'] = sorted(rng.sample(range(1, 96), rng.randint(1, 6)))
    elif c < 0.7:
        npar['computed_number_of_channels'] = rng.randint(1, 20)
    doc = {}
    for kk in rng.sample(['raman_params', 'nli_params'], rng.choice([1, 2, 2])):
        doc[kk] = rp if kk == 'raman_params' else npar
    return doc


SHIPPED = [('eqpt_config.json', 'equipment'), ('eqpt_config_multiband.json', 'equipment'),
           ('eqpt_config_openroadm_ver5.json', 'equipment'),
           ('meshTopologyExampleV2.json', 'topology'), ('multiband_example_network.json', 'topology'),
           ('raman_edfa_example_network.json', 'topology'), ('edfa_example_network.json', 'topology'),
           ('meshTopologyExampleV2_services.json', 'services'), ('service_pluggable.json', 'services'),
           ('sim_params.json', 'simparams'), ('initial_spectrum1.json', 'spectrum'), ('initial_spectrum2.json', 'spectrum'),
           ('multiband_spectrum.json', 'spectrum')]

GENS = {'topology': gen_topology, 'equipment': gen_equipment, 'services': gen_services, 'spectrum': gen_spectrum,
        'simparams': gen_simparams}


def damage(rng, kind, doc):
    """the malformed stream: one defect that the loaders must refuse"""
    what = rng.choice(['unknown-field', 'too-many-digits', 'missing-range', 'unrecognised'])
    if what == 'unrecognised':
        return {'foo': 1, 'bar': [1.5]}, what
    if what == 'missing-range' and kind == 'equipment':
        rng.choice(doc['Span'] + doc['SI']).pop(rng.choice(['delta_power_range_db', 'power_range_db']), None)
        return doc, what
    if kind == 'topology':
        f = [e for e in doc['elements'] if e['type'] in ('Fiber', 'RamanFiber')][0]
        if what == 'too-many-digits':
            f['params']['raman_coefficient'] = {'g0': [1e-4], 'frequency_offset': [1234.56], 'reference_frequency': 206e12}
        else:
            f['params']['dispersion_per_frequency'] = {'value': [1.6e-5], 'frequency': [193e12]}
    elif kind == 'equipment':
        doc['Fiber'][0]['dispersion_per_frequency'] = {'value': [1.6e-5], 'frequency': [193e12]}
    elif kind == 'services':
        doc['path-request'][0]['path-constraints']['te-bandwidth'].pop('trx_type', None)
    elif kind == 'spectrum':
        doc['spectrum'][0]['colour'] = 'red'
    else:
        doc[list(doc)[0]]['verbose'] = 3
    return doc, what


def gen(rng, tier, widen=False):
    k = rng.random()
    if k < 0.08:
        return gen_fmt(rng, widen)
    if k < 0.14:
        return gen_alias(rng)
    if k < 0.33:
        # a YANG-form document whose keyed lists (or object members) are serialised in another order
        kind = rng.choice(['topology', 'topology', 'equipment', 'equipment', 'equipment', 'services', 'spectrum'])
        g = G(rng, widen)
        return {'kind': 'permuted', 'base_kind': kind, 'doc': GENS[kind](g), 'what': rng.choice(['lists', 'lists', 'members']),
                'pseed': rng.randrange(10 ** 9)}
    if k < 0.38:
        name, kind = rng.choice(SHIPPED)
        return {'kind': kind, 'doc': shipped_json(name), 'style': 'shipped', 'shipped': name}
    kind = rng.choice(['topology', 'topology', 'equipment', 'equipment', 'services', 'spectrum', 'simparams'])
    g = G(rng, widen)
    doc = GENS[kind](g)
    case = {'kind': kind, 'doc': doc, 'style': g.style}
    if rng.random() < 0.1:
        case['doc'], case['damage'] = damage(rng, kind, doc)
    return case


def gen_fmt(rng, widen):
    xs = []
    for _ in range(12):
        d = rng.choice([0, 1, 2, 2, 3, 4, 5, 6, 8, 9, 10, 11, 12, 14, 15, 16, 17, 18])
        c = rng.random()
        mag = rng.choice([1e-15, 1e-12, 1e-6, 1e-3, 1, 1, 100, 1e4, 1e9, 1.9e14])
        if c < 0.3:
            x = rng.uniform(-1, 1) * mag
        elif c < 0.6:
            x = round(rng.uniform(-1, 1) * mag, min(d, 15))
        elif c < 0.9 and d <= 14:
            t = float(Decimal(repr(round(rng.uniform(0, 1) * min(mag, 1e4), d))) + Decimal(1).scaleb(-d) / 2)
            x = rng.choice([t, -t, math.nextafter(t, math.inf), math.nextafter(t, -math.inf)])
        else:
            x = rng.choice([0.0, -0.0, 1.0, 0.5, 2.5, 0.125, 1e22, 5e-324, 123456789.125, float(2 ** 53)])
        if rng.random() < 0.2:
            # many declared digits on a large value: the printed text is longer than Python's repr (exercises the
            # 16/17-digit boundary of PrettyFloat)
            d = rng.choice([14, 15, 16, 17, 18])
            x = round(rng.uniform(1, 2e14), rng.choice([1, 2, 3]))
        xs.append([d, x])
    return {'kind': 'fmt', 'xs': xs}


def gen_alias(rng):
    g = G(rng, False)
    g.style = 'in'
    if rng.random() < 0.5:
        t = {'type_variety': 'T0', 'frequency': {'min': 191.35e12, 'max': 196.1e12},
             'mode': [trx_mode(g, f'mode {j}') for j in range(rng.randint(1, 3))],
             'other_name': [chr(65 + j) for j in range(rng.randint(1, 4))]}
        return {'kind': 'alias', 'what': 'Transceiver', 'entry': t}
    gfm, gmin, nfmin, nfmax = rng.choice(NF_TUPLES)
    e = {'type_variety': 'E0', 'type_def': 'variable_gain', 'gain_flatmax': gfm, 'gain_min': gmin,
         'p_max': g.num('p_max', 16, 25, 1), 'nf_min': nfmin, 'nf_max': nfmax, 'out_voa_auto': False, 'allowed_for_design': True,
         'other_name': [f'E0-{j}' for j in range(rng.randint(1, 4))]}
    return {'kind': 'alias', 'what': 'Edfa', 'entry': e}


# ---------------------------------------------------------------------------------------------------------------------
# running one case
# ---------------------------------------------------------------------------------------------------------------------
LAST_MSG = ['']


def _impl(fn, doc):
    try:
        with quiet_stderr():
            return plain(fn(copy.deepcopy(doc))), None
    except Exception as e:  # noqa: BLE001 – every kind is mapped and compared
        LAST_MSG[0] = str(e)
        return None, err_kind(e)


def _model(drv, op, doc):
    ans = drv.ask(op, doc=to_wire(doc), reprs=reprs_of(doc))
    if 'error' in ans:
        k = ans['error'].split(':')[0]
        return None, k
    return ans['value'], None


def _cmp_conv(res, name, impl, ierr, mod, merr):
    """exact comparison of a converter result (tree incl. key order and decimal strings) or of the error kind"""
    if ierr in ('other:Error', 'libyang-crash'):
        # libyang refused the document inside the converter: validation is not modelled, the monitor judges this
        res.stats['libyang_rejection_inside_converter'] += 1
        return
    if ierr is not None or merr is not None:
        res.cmp_exact(name + '.error', ierr, merr)
        return
    res.cmp_exact(name, to_wire(impl), mod)


def run(case, drv):
    kind = case['kind']
    if kind == 'fmt':
        return run_fmt(case, drv)
    if kind == 'alias':
        return run_alias(case, drv)
    if kind == 'permuted':
        return run_permuted(case, drv)
    return run_doc(case, drv)


def run_fmt(case, drv):
    from gnpy.tools.yang_convert_utils import PrettyFloat
    res = Result()
    for d, x in case['xs']:
        s = str(PrettyFloat(x, d))
        ans = drv.ask('c18.fmt', bits=f2b(x), d=d, reprs=[[f2b(x), repr(x)]])
        res.cmp_exact('PrettyFloat.__repr__', s, ans.get('value', ans.get('error')), x=x, d=d)
        back = float(s)
        res.cmp_exact('float(str)', f2b(back), drv.ask('c18.parse', s=s), s=s)
        # monitor: |parse(fmt x d) - x| <= 1/2 * 10^-d  (exact rational arithmetic), second pass changes nothing
        err = abs(Decimal(s) - Decimal(x))
        if d < 17 and err > Decimal(1).scaleb(-d) / 2:
            res.fail(f'precision: {x!r} printed with {d} digits as {s}: error {err} exceeds half a unit of the last digit')
        if d >= 17 and back != x and err > Decimal(1).scaleb(-d) + Decimal(ulp(x)):
            res.fail(f'precision: {x!r} printed with {d} digits as {s}: error {err} exceeds one unit of the last digit')
        s2 = str(PrettyFloat(back, d))
        if s2 != s and abs(x) * 10 ** d < 2 ** 52:
            res.fail(f'idempotence: {x!r} -> {s} -> {back!r} -> {s2} with {d} digits')
        res.stats.update({f'fmt_digits_{d:02d}': 1, 'fmt_tie_or_near': int(err * 2 == Decimal(1).scaleb(-d))})
    res.nontrivial = True
    res.stats['case_fmt'] += 1
    return res


def canon_obj(o, depth=0):
    """loader objects -> plain trees"""
    import numpy as np
    if depth > 12:
        return '<deep>'
    if o is None or isinstance(o, (bool, str, int)):
        return o
    if isinstance(o, float):
        return float(o)
    if isinstance(o, np.generic):
        return o.item()
    if isinstance(o, np.ndarray):
        return canon_obj(o.tolist(), depth + 1)
    if isinstance(o, dict):
        return {str(k): canon_obj(v, depth + 1) for k, v in o.items()}
    if isinstance(o, tuple) and hasattr(o, '_fields'):
        return {'__nt__': type(o).__name__, **{f: canon_obj(getattr(o, f), depth + 1) for f in o._fields}}
    if isinstance(o, (list, tuple)):
        return [canon_obj(x, depth + 1) for x in o]
    if hasattr(o, '__dict__'):
        return {'__cls__': type(o).__name__, **{k: canon_obj(v, depth + 1) for k, v in vars(o).items()}}
    return repr(o)


def diff_obj(a, b, path=''):
    """first difference between two canonical trees (numbers: relative 1e-9)"""
    if isinstance(a, bool) or isinstance(b, bool) or a is None or b is None or isinstance(a, str) or isinstance(b, str):
        return None if (a == b and type(a) is type(b)) or (a == b and a is None) else (path, a, b)
    if isinstance(a, (int, float)) and isinstance(b, (int, float)):
        if a == b or abs(a - b) <= 1e-9 * max(abs(a), abs(b)):
            return None
        return (path, a, b)
    if type(a) is not type(b):
        return (path, a, b)
    if isinstance(a, dict):
        for k in a:
            if k not in b:
                return (path + '/' + k, a[k], '<missing>')
        for k in b:
            if k not in a:
                return (path + '/' + k, '<missing>', b[k])
        for k in a:
            d = diff_obj(a[k], b[k], path + '/' + k)
            if d:
                return d
        return None
    if isinstance(a, list):
        if len(a) != len(b):
            return (path, f'len {len(a)}', f'len {len(b)}')
        for i, (x, y) in enumerate(zip(a, b)):
            d = diff_obj(x, y, f'{path}[{i}]')
            if d:
                return d
        return None
    return None if a == b else (path, a, b)


def round_doc(x, path=()):
    """the legacy document with every decimal leaf rounded to its declared digits (independent arithmetic)"""
    if isinstance(x, dict):
        return {k: round_doc(v, path + (k,)) for k, v in x.items()}
    if isinstance(x, list):
        return [round_doc(e, path) for e in x]
    if isinstance(x, bool) or x is None or isinstance(x, str):
        return x
    d = declared(list(path))
    if d is None:
        return x
    if d == 0:
        return x
    return round_decl(float(x), d)


def preserved(res, a, b, path=(), ip=''):
    """monitor: b (after YANG and back) against a (before): same keys, same lists in order, every number within half a
    unit of its declared last digit (one unit where >= 17 digits are declared: the code cuts Python's repr there), ints
    stay ints where the declaration is an integer, strings/bools/nulls identical.
    `path` = dict keys from the root (for the declared digits), `ip` = the same with list indices (for messages and for
    the finding class).  Returns the number of leaves that needed rounding."""
    if isinstance(a, dict):
        if not isinstance(b, dict):
            res.fail(f'structure: {ip} was a dict, came back as {type(b).__name__}', path=ip)
            return 0
        n = 0
        for k in a:
            if k not in b:
                res.fail(f'structure: key {k} lost on the way through YANG ({ip}/{k})', path=f'{ip}/{k}')
            else:
                n += preserved(res, a[k], b[k], path + (k,), f'{ip}/{k}')
        for k in b:
            if k not in a and not _benign_added(path, k, b[k]):
                res.fail(f'structure: key {k} appeared on the way through YANG ({ip}/{k})', path=f'{ip}/{k}')
        return n
    if isinstance(a, list):
        if not isinstance(b, list) or len(a) != len(b):
            res.fail(f'structure: list at {ip} had {len(a)} entries, came back as {b if not isinstance(b, list) else len(b)}',
                     path=ip)
            return 0
        return sum(preserved(res, x, y, path, f'{ip}[{i}]') for i, (x, y) in enumerate(zip(a, b)))
    if isinstance(a, bool) or a is None or isinstance(a, str):
        if a != b or type(a) is not type(b):
            res.fail(f'value: {ip} was {a!r}, came back as {b!r}', path=ip)
        return 0
    d = declared(list(path))
    if isinstance(b, bool) or not isinstance(b, (int, float)):
        res.fail(f'value: number {a!r} at {ip} came back as {b!r}', path=ip)
        return 0
    if d is None:
        if a != b:
            res.fail(f'value: {ip} was {a!r}, came back as {b!r}', path=ip)
        return 0
    if d == 0:
        # an integer leaf: the value must come back; int vs float spelling (5 / 5.0) is not part of the statement (the exact
        # type is compared with the model in the correspondence)
        if a != b:
            res.fail(f'value: integer {a!r} at {ip} came back as {b!r}', path=ip)
        return 0
    tol = (0.5 if d < 17 else 1.0) * 10.0 ** (-d) * (1 + 1e-12) + 2 * ulp(float(a))
    if abs(float(a) - float(b)) > tol:
        res.fail(f'value: {ip} was {a!r}, came back as {b!r}: more than half a unit of digit {d}', path=ip)
    return int(float(a) != float(b))


def legacy_spelling(kind, l):
    """yang_to_legacy writes an equipment RamanFiber `raman_efficiency {cr, frequency_offset}` back as
    `raman_coefficient {g0, frequency_offset}` (pinned by the repo's own expected files).  The two spellings carry the same
    values, so the document-level comparison reads the second as the first; whether the LOADER and a second conversion
    understand that spelling is judged separately (finding F7)."""
    if kind != 'equipment' or not isinstance(l, dict):
        return l
    l = copy.deepcopy(l)
    for f in l.get('RamanFiber', []):
        rc = f.get('raman_coefficient')
        if isinstance(rc, dict) and 'raman_efficiency' not in f and set(rc) == {'g0', 'frequency_offset'}:
            del f['raman_coefficient']
            f['raman_efficiency'] = {'cr': rc['g0'], 'frequency_offset': rc['frequency_offset']}
    return l


def _benign_added(path, k, v):
    # add_missing_default_type_variety names the first unnamed ROADM entry 'default' (what the loader assumes anyway)
    return path == ('Roadm',) and k == 'type_variety' and v == 'default'


# F6 (second SI/Span entry not converted back, f4882f89) and F7 (raman_efficiency lost on the way back, df307dac) were
# findings of this check; their witnesses stay in corpus/C18 as regression cases.


def diff_paths(a, b, ip=''):
    """all places where two documents differ (order of dict keys ignored)"""
    if isinstance(a, dict) and isinstance(b, dict):
        out = []
        for k in a:
            if k not in b:
                out.append(f'{ip}/{k}')
            else:
                out += diff_paths(a[k], b[k], f'{ip}/{k}')
        out += [f'{ip}/{k}' for k in b if k not in a]
        return out
    if isinstance(a, list) and isinstance(b, list):
        if len(a) != len(b):
            return [ip]
        out = []
        for i, (x, y) in enumerate(zip(a, b)):
            out += diff_paths(x, y, f'{ip}[{i}]')
        return out
    return [] if (a == b and type(a) is type(b)) else [ip]


class quiet_stderr:
    """libyang logs every validation error to fd 2 (the code switches that on); keep the check's output readable"""

    def __enter__(self):
        import os
        import sys
        sys.stderr.flush()
        self.saved = os.dup(2)
        self.null = os.open(os.devnull, os.O_WRONLY)
        os.dup2(self.null, 2)

    def __exit__(self, *a):
        import os
        os.dup2(self.saved, 2)
        os.close(self.saved)
        os.close(self.null)


class Probe:
    """libyang (oopt-gnpy-libyang) can SEGFAULT on some documents (observed: a ROADM whose params hold nothing but an empty
    `restrictions` container). A crash inside the check's own process would take the whole run down, so every document
    is first shown to a helper process that does nothing but `load_data`; if the helper dies the document is classified
    'libyang-crash' and is not validated in-process."""
    CODE = ('import sys, os, logging\n'
            'logging.disable(logging.CRITICAL)\n'
            'os.dup2(os.open(os.devnull, os.O_WRONLY), 2)\n'
            'from gnpy.tools.yang_convert_utils import load_data\n'
            'for line in sys.stdin:\n'
            '    try:\n'
            '        load_data(line)\n'
            '        print("ok", flush=True)\n'
            '    except Exception as e:\n'
            '        print("err", flush=True)\n')

    def __init__(self):
        self.p = None

    def start(self):
        import subprocess
        import sys
        self.p = subprocess.Popen([sys.executable, '-c', self.CODE], stdin=subprocess.PIPE, stdout=subprocess.PIPE,
                                  text=True, bufsize=1)

    def crashes(self, ydoc):
        if self.p is None or self.p.poll() is not None:
            self.start()
        try:
            self.p.stdin.write(json.dumps(ydoc) + '\n')
            self.p.stdin.flush()
            ans = self.p.stdout.readline()
        except BrokenPipeError:
            ans = ''
        if ans == '':
            self.p = None
            return True
        return False


PROBE = Probe()


def validate(y):
    from gnpy.tools.yang_convert_utils import load_data
    if PROBE.crashes(y):
        return 'libyang-crash'
    try:
        with quiet_stderr():
            load_data(json.dumps(y))
        return None
    except Exception as e:  # noqa: BLE001
        return err_kind(e)


def safe_y2l(doc):
    """yang_to_legacy(doc) in-process, unless the document it would hand to libyang crashes libyang"""
    from gnpy.tools.convert_legacy_yang import legacy_to_yang, yang_to_legacy
    try:
        ydoc = plain(legacy_to_yang(copy.deepcopy(doc)))
    except Exception:  # noqa: BLE001 – yang_to_legacy will raise the same before it reaches libyang
        return _impl(yang_to_legacy, doc)
    if PROBE.crashes(ydoc):
        LAST_MSG[0] = 'libyang crashed (segmentation fault) on the YANG form of this document'
        return None, 'libyang-crash'
    return _impl(yang_to_legacy, doc)


def run_doc(case, drv):
    from gnpy.tools.convert_legacy_yang import legacy_to_yang, yang_to_legacy
    res = Result()
    kind = case['kind']
    d = case['doc']
    res.stats[f'case_{kind}'] += 1
    res.stats[f'style_{case.get("style")}'] += 1
    # --- the declared digits the code uses are the declared ones (model copy and frozen harness copy)
    from gnpy.yang.precision_dict import PRECISION_DICT
    res.cmp_exact('PRECISION_DICT', [[k, v] for k, v in PRECISION_DICT.items()], drv.ask('c18.precision'))
    for k, v in DECL.items():
        if PRECISION_DICT.get(k) != v:
            res.fail(f'declared digits: {k} is declared with {v} fraction digits, precision_dict says {PRECISION_DICT.get(k)}')
    # --- legacy -> YANG
    y, yerr = _impl(legacy_to_yang, d)
    my, myerr = _model(drv, 'c18.to_yang', d)
    _cmp_conv(res, 'legacy_to_yang', y, yerr, my, myerr)
    if case.get('shipped'):
        res.stats['shipped_example_files'] += 1
    if yerr is not None:
        if case.get('shipped'):
            res.fail(f'shipped example: {case["shipped"]} is refused by legacy_to_yang ({yerr})')
        res.stats[f'rejected_by_converter_{yerr}'] += 1
        res.stats['malformed'] += 1
        # the loader must refuse it too (it runs the same conversion first)
        l, lerr = safe_y2l(d)
        if lerr is None:
            res.fail('rejects: legacy_to_yang refuses the document but yang_to_legacy (the loader path) accepts it')
        return res
    verr = validate(y)
    if verr == 'libyang-crash':
        # neither accepted nor rejected: third-party crash on the input itself (outside the property's quantifier)
        res.stats['libyang_crash_on_generated_input'] += 1
        return res
    l, lerr = safe_y2l(y)
    if verr is not None:
        if case.get('shipped'):
            res.fail(f'shipped example: libyang refuses the YANG form of {case["shipped"]}')
        res.stats['malformed'] += 1
        res.stats[f'rejected_by_libyang_{case.get("damage", "generated")}'] += 1
        if lerr is None:
            res.fail('rejects: libyang refuses the YANG form but yang_to_legacy accepted it')
        _, l0err = safe_y2l(d)
        if l0err is None:
            res.fail('rejects: libyang refuses the document but the loader path (yang_to_legacy on the legacy form) accepted it')
        return res
    res.stats['accepted'] += 1
    if case.get('damage'):
        res.stats[f'damage_accepted_{case["damage"]}'] += 1
    ml, mlerr = _model(drv, 'c18.to_legacy', y)
    _cmp_conv(res, 'yang_to_legacy', l, lerr, ml, mlerr)
    if lerr is not None:
        res.fail(f'accepted document cannot be converted back: yang_to_legacy raises {lerr}')
        return res
    # --- the decidable hypotheses of the document-level theorems (to_yang_idempotent, to_legacy_idempotent) hold for this
    #     document and for the legacy document the implementation returned
    wf = drv.ask('c18.wf', doc=to_wire(d), legacy=to_wire(l), reprs=reprs_of(d) + reprs_of(l))
    res.cmp_exact('wfDoc(document)  [hypothesis of to_yang_idempotent]', True, wf['yang'])
    res.cmp_exact('wfLegacyDoc(yang_to_legacy result)  [hypothesis of to_legacy_idempotent]', True, wf['legacy'])
    # --- second passes (idempotence), implementation and model
    y2, y2err = _impl(legacy_to_yang, y)
    y2msg = LAST_MSG[0]
    _cmp_conv(res, 'legacy_to_yang(yang)', y2, y2err, *_model(drv, 'c18.to_yang', y))
    l2, l2err = safe_y2l(l)
    l2msg = LAST_MSG[0]
    _cmp_conv(res, 'yang_to_legacy(legacy)', l2, l2err, *_model(drv, 'c18.to_legacy', l))
    y3, y3err = _impl(legacy_to_yang, l)
    y3msg = LAST_MSG[0]
    _cmp_conv(res, 'legacy_to_yang(roundtrip)', y3, y3err, *_model(drv, 'c18.to_yang', l))
    # the loader path on the legacy form itself (what load_gnpy_json does with a legacy file)
    l0, l0err = safe_y2l(d)
    l0msg = LAST_MSG[0]
    _cmp_conv(res, 'yang_to_legacy(original)', l0, l0err, *_model(drv, 'c18.to_legacy', d))
    # --- monitor: idempotence
    def idem(what, got, err, want, msg):
        if err is not None:
            res.fail(f'idempotence: {what} raises {err}')
        elif got != want:
            res.fail(f'idempotence: {what} changes the document at {diff_paths(want, got)[0]}')

    idem('legacy_to_yang applied to its own output', y2, y2err, y, y2msg)
    idem('yang_to_legacy applied to its own output', l2, l2err, l, l2msg)
    idem('legacy -> YANG -> legacy -> YANG', y3, y3err, y, y3msg)
    idem('yang_to_legacy applied to a document that already is in legacy form', l0, l0err, d, l0msg)
    # --- monitor: values to the declared precision, structure, order
    nround = preserved(res, d, legacy_spelling(kind, l))
    # --- loaders on both forms
    run_loaders(res, kind, d, l)
    res.nontrivial = bool(nround or _has_rewritten_structure(kind, d))
    res.stats.update({'leaves_needing_rounding': nround, 'docs_with_rounding': int(nround > 0)})
    _doc_stats(res, kind, d)
    return res


def _has_rewritten_structure(kind, d):
    if kind == 'topology':
        for e in d['elements']:
            p = e.get('params', {})
            if any(k.startswith('per_degree') for k in p) or isinstance(p.get('loss_coef'), dict) \
                    or 'raman_coefficient' in p or 'lumped_losses' in p or 'raman_pumps' in e.get('operational', {}):
                return True
        return False
    if kind == 'equipment':
        return True
    if kind == 'services':
        return any('explicit-route-objects' in r or 'effective-freq-slot' in r['path-constraints']['te-bandwidth']
                   for r in d['path-request'])
    return True


def _doc_stats(res, kind, d):
    s = res.stats
    if kind == 'topology':
        for e in d['elements']:
            s[f'el_{e["type"]}'] += 1
            p = e.get('params', {})
            for k in ('per_degree_pch_out_db', 'per_degree_psd_out_mWperGHz', 'per_degree_psd_out_mWperSlotWidth',
                      'per_degree_design_bands', 'design_bands', 'raman_coefficient', 'lumped_losses', 'per_degree_impairments'):
                if k in p:
                    s[f'has_{k}'] += 1
            if isinstance(p.get('loss_coef'), dict):
                s['has_loss_coef_per_frequency'] += 1
            if 'raman_pumps' in e.get('operational', {}):
                s['has_raman_pumps'] += 1
            for v in list(p.values()) + list(e.get('operational', {}).values()) + list(e['metadata']['location'].values()):
                if v is None:
                    s['null_values'] += 1
    elif kind == 'equipment':
        s['n_SI'] += len(d.get('SI', []))
        s['n_Span'] += len(d.get('Span', []))
        s['multi_SI_or_Span'] += int(len(d.get('SI', [])) > 1 or len(d.get('Span', [])) > 1)
        s['has_raman_efficiency'] += int(any('raman_efficiency' in f for f in d.get('RamanFiber', [])))
        s['edfa_aliases'] += sum(len(e.get('other_name', [])) for e in d.get('Edfa', []))
        s['trx_aliases'] += sum(len(e.get('other_name', [])) for e in d.get('Transceiver', []))
        s['mode_aliases'] += sum(len(m.get('other_name', [])) for e in d.get('Transceiver', []) for m in e.get('mode', []))
        s['modes_with_penalties'] += sum(int('penalties' in m) for e in d.get('Transceiver', []) for m in e.get('mode', []))
        s['roadm_with_impairments'] += sum(int(bool(r.get('roadm-path-impairments'))) for r in d.get('Roadm', []))
        for e in d.get('Edfa', []):
            s[f'edfa_{e.get("type_def")}'] += 1
    elif kind == 'services':
        s['requests'] += len(d['path-request'])
        s['with_route'] += sum(int('explicit-route-objects' in r) for r in d['path-request'])
        s['with_sync'] += int('synchronization' in d)


def _gnpy_errors():
    from gnpy.core import exceptions as ex
    return (ex.ConfigurationError, ex.EquipmentConfigError, ex.NetworkTopologyError, ex.ServiceError, ex.ParametersError,
            ex.SpectrumError, ex.DisjunctionError)


GnpyErrors = _gnpy_errors()


def run_loaders(res, kind, d, l, rounded=True, order_cls=False):
    """build the objects from the legacy form (values rounded to the declared digits by the harness) and from the form
    that went through YANG; they must be equal"""
    from gnpy.tools.json_io import _equipment_from_json, network_from_json, requests_from_json, _spectrum_from_json, \
        DEFAULT_EXTRA_CONFIG
    dr = round_doc(d) if rounded else d

    def build(doc):
        doc = copy.deepcopy(doc)
        if kind == 'equipment':
            eq = _equipment_from_json(doc, DEFAULT_EXTRA_CONFIG)
            return canon_obj(eq)
        if kind == 'topology':
            from gnpy.tools.json_io import network_to_json
            net = network_from_json(doc, nets.eqpt('eqpt_config_multiband.json'))
            j = network_to_json(net)
            if order_cls:
                for e in j['elements']:
                    e.get('params', {}).pop('raman_coefficient', None)   # derived from the mirrored profile, see _DERIVED
            return {'elements': {e['uid']: canon_obj(e) for e in j['elements']},
                    'connections': sorted((c['from_node'], c['to_node']) for c in j['connections']),
                    'name': net.graph['network_name'],
                    'objects': {n.uid: canon_obj({k: v for k, v in vars(n).items() if k in ('params', 'operational',
                                                                                            'per_degree_pch_out_dbm', 'per_degree_pch_psd',
                                                                                            'per_degree_pch_psw', 'design_bands',
                                                                                            'per_degree_design_bands', 'raman_pumps',
                                                                                            'temperature', 'variety_list')})
                                for n in net.nodes()}}
        if kind == 'services':
            reqs = requests_from_json(doc, nets.eqpt('eqpt_config.json'))
            from gnpy.tools.json_io import disjunctions_from_json
            rq = [canon_obj(r) for r in reqs]
            if order_cls:
                for r in rq:
                    if isinstance(r.get('N'), list) and isinstance(r.get('M'), list) and len(r['N']) == len(r['M']):
                        pairs = sorted(zip(r['N'], r['M']), key=lambda p_: json.dumps(p_))
                        r['N'], r['M'] = [p_[0] for p_ in pairs], [p_[1] for p_ in pairs]
            return {'requests': rq, 'disjunctions': [canon_obj(x) for x in disjunctions_from_json(doc)]}
        if kind == 'spectrum':
            sp = _spectrum_from_json(doc['spectrum'])
            return {repr(k): canon_obj(v) for k, v in sp.items()}
        if kind == 'simparams':
            from gnpy.core.parameters import NLIParams, RamanParams
            return {'nli': canon_obj(NLIParams(**doc.get('nli_params', {}))), 'raman': canon_obj(RamanParams(**doc.get('raman_params', {})))}
        raise AssertionError(kind)

    try:
        a = build(dr)
        aerr = None
    except GnpyErrors + (KeyError,) as e:      # KeyError: a reference the library does not resolve (both forms alike)
        a, aerr = None, err_kind(e)
    try:
        b = build(l)
        berr = None
    except GnpyErrors + (KeyError,) as e:
        b, berr = None, err_kind(e)
    res.stats[f'loader_{kind}_{"ok" if aerr is None else aerr}'] += 1
    if aerr is not None or berr is not None:
        if aerr != berr:
            res.fail(f'loaders: the legacy form gives {aerr or "objects"}, the form that went through YANG gives {berr or "objects"}')
        return
    if order_cls:
        # the two documents differ only in the serialisation order of keyed YANG lists: lists of objects are compared as
        # multisets, numeric arrays (where the position is the meaning) as they are
        a, b = _sort_object_lists(_pairs_order_free(a)), _sort_object_lists(_pairs_order_free(b))
    df = diff_obj(a, b)
    if df and order_cls:
        # not part of the property text (which speaks of the round trip of one document): a correspondence fact
        res.mismatch('loaders(permuted YANG serialisation) vs loaders(original serialisation)', str(df[1])[:160], str(df[2])[:160],
                     where=df[0])
        return
    if df:
        res.fail(f'loaders: objects differ at {df[0]}: legacy form {str(df[1])[:120]} / through YANG {str(df[2])[:120]}')
    if kind == 'equipment':
        check_aliases(res, d, b)


# parallel lists that denote a mapping key -> value (legacy spelling of a frequency-keyed YANG list, and the arrays the
# loaders copy them into): compared as sets of pairs.  Arrays DERIVED from them under the legacy convention of ascending
# order (the mirrored Raman profile) are not a function of the mapping alone for an unsorted legacy list - true for a
# hand-written legacy document as well - and are left out of the order comparison.
_PAIRS = [('frequency', 'value'), ('frequency_offset', 'g0'), ('frequency_offset', 'cr'), ('_f_loss_ref', '_loss_coef')]
_DERIVED = ('_raman_coefficient', '_g0', '_raman_reference_frequency')


def _pairs_order_free(x, top=True):
    if isinstance(x, dict):
        out = {k: _pairs_order_free(v, False) for k, v in x.items() if k not in _DERIVED}
        for ka, kb in _PAIRS:
            a, b = out.get(ka), out.get(kb)
            if isinstance(a, list) and isinstance(b, list) and len(a) == len(b) and not any(isinstance(e, (dict, list)) for e in a + b):
                pairs = sorted(zip(a, b), key=lambda p_: (p_[0] is None, p_[0], json.dumps(p_[1])))
                out[ka], out[kb] = [p_[0] for p_ in pairs], [p_[1] for p_ in pairs]
        return out
    if isinstance(x, list):
        return [_pairs_order_free(e, False) for e in x]
    return x


def _sort_object_lists(x):
    if isinstance(x, dict):
        return {k: _sort_object_lists(v) for k, v in x.items()}
    if isinstance(x, list):
        y = [_sort_object_lists(e) for e in x]
        if y and all(isinstance(e, dict) for e in y):
            y = sorted(y, key=lambda e: json.dumps(e, sort_keys=True, default=str))
        return y
    return x


def check_aliases(res, d, eq):
    """every alias of an Edfa / Transceiver entry yields an entry with identical parameters whose reported name is the alias;
    every mode alias yields a mode with identical parameters whose format is the alias"""
    for key in ('Edfa', 'Transceiver'):
        for entry in d.get(key, []):
            names = entry.get('other_name')
            if not names:
                continue
            main = eq[key].get(entry['type_variety'])
            if main is None:
                res.fail(f'alias: declaring entry {entry["type_variety"]} is missing from the library')
                continue
            for a in names:
                got = eq[key].get(a)
                if got is None:
                    res.fail(f'alias: {key} alias {a} of {entry["type_variety"]} is missing from the library')
                    continue
                if got.get('type_variety') != a:
                    res.fail(f'alias: {key} entry stored under {a} reports the name {got.get("type_variety")}')
                x = {k: v for k, v in got.items() if k != 'type_variety'}
                y = {k: v for k, v in main.items() if k != 'type_variety'}
                df = diff_obj(y, x)
                if df:
                    res.fail(f'alias: {key} alias {a} differs from its declaring entry at {df[0]}')
            if main.get('type_variety') != entry['type_variety']:
                res.fail(f'alias: {key} entry {entry["type_variety"]} reports the name {main.get("type_variety")}')
            if 'other_name' in main:
                res.fail(f'alias: other_name left on the built {key} entry')
    for entry in d.get('Transceiver', []):
        built = eq['Transceiver'].get(entry['type_variety'])
        if built is None:
            continue
        modes = {m['format']: m for m in built['mode']}
        for m in entry['mode']:
            for a in m.get('other_name', []):
                if a not in modes:
                    res.fail(f'alias: mode alias {a} of {m["format"]} is missing')
                    continue
                x = {k: v for k, v in modes[a].items() if k != 'format'}
                y = {k: v for k, v in modes[m['format']].items() if k != 'format'}
                if diff_obj(y, x):
                    res.fail(f'alias: mode alias {a} differs from mode {m["format"]}')


def run_alias(case, drv):
    from gnpy.tools.json_io import _equipment_from_json, DEFAULT_EXTRA_CONFIG
    res = Result()
    what, entry = case['what'], case['entry']
    base = shipped_json('eqpt_config.json')
    doc = {k: v for k, v in base.items() if k != what}
    doc[what] = [copy.deepcopy(entry)]
    if what == 'Transceiver':
        pass
    else:
        doc['Roadm'] = [r for r in doc['Roadm']]
    eq = _equipment_from_json(copy.deepcopy(doc), DEFAULT_EXTRA_CONFIG)
    impl = [[k, v.type_variety] for k, v in eq[what].items()]
    ans = drv.ask('c18.aliases', entry=to_wire(entry))
    model = [[n, from_wire(dct)['type_variety']] for n, dct in ans['value']]
    res.cmp_exact('other_name expansion (library key, reported name)', impl, model)
    for n, dct in ans['value']:
        if 'other_name' in from_wire(dct):
            res.mismatch('other_name expansion keeps other_name', None, n)
    if what == 'Transceiver':
        m = drv.ask('c18.modes', modes=[to_wire(x) for x in entry['mode']])
        model_modes = [x['format'] for x in map(from_wire, m['value'])]
        for k, v in eq[what].items():
            res.cmp_exact('mode alias expansion (formats in order)', [x['format'] for x in v.mode], model_modes, name=k)
    check_aliases(res, doc, canon_obj(eq))
    res.nontrivial = True
    res.stats.update({'case_alias': 1, f'alias_{what}': 1, f'alias_count_{len(entry["other_name"])}': 1})
    return res


# ---------------------------------------------------------------------------------------------------------------------
# YANG-form documents serialised in another order
# ---------------------------------------------------------------------------------------------------------------------
# YANG lists with a key: name of the member that holds the list -> key leaf(s).  The order of the entries of such a list
# carries no meaning in YANG (libyang accepts any order); leaf-lists and key-less lists (Span, SI, penalties, impairment
# rows) are left alone.
KEYED = {'elements': ('uid',), 'connections': ('from_node', 'to_node'), 'Edfa': ('type_variety',), 'Fiber': ('type_variety',),
         'RamanFiber': ('type_variety',), 'Roadm': ('type_variety',), 'Transceiver': ('type_variety',), 'mode': ('format',),
         'nf_coef': ('coef_order',), 'raman_efficiency': ('frequency_offset',), 'g0_per_frequency': ('frequency_offset',),
         'loss_coef_per_frequency': ('frequency',), 'lumped_losses': ('position',), 'raman_pumps': ('frequency',),
         'design_bands': ('f_min',), 'per_degree_design_bands_targets': ('degree_uid',),
         'per_degree_power_targets': ('degree_uid',), 'per_degree_impairments': ('from_degree', 'to_degree'),
         'amplifiers': ('type_variety',), 'roadm-path-impairments': ('roadm-path-impairments-id',),
         'path-request': ('request-id',), 'synchronization': ('synchronization-id',),
         'route-object-include-exclude': ('index',), 'effective-freq-slot': ('N',), 'gnpy-spectrum:spectrum': ('f_min',)}


def _is_keyed(k, v):
    return k in KEYED and isinstance(v, list) and len(v) > 0 and all(isinstance(e, dict) for e in v)


def permute_lists(x, rng, count):
    if isinstance(x, dict):
        out = {}
        for k, v in x.items():
            v = permute_lists(v, rng, count)
            if _is_keyed(k, v) and len(v) > 1:
                w = list(v)
                c = rng.random()
                if c < 0.35:
                    w.reverse()
                else:
                    rng.shuffle(w)
                if w != v:
                    count[k] = count.get(k, 0) + 1
                v = w
            out[k] = v
        return out
    if isinstance(x, list):
        return [permute_lists(e, rng, count) for e in x]
    return x


def permute_members(x, rng, keys=()):
    """shuffle the members of every object; the key leaves of a keyed-list entry stay in front (libyang wants them first)"""
    if isinstance(x, dict):
        names = [k for k in x if k not in keys]
        rng.shuffle(names)
        out = {}
        for k in [k for k in keys if k in x] + names:
            v = x[k]
            if _is_keyed(k, v):
                out[k] = [permute_members(e, rng, KEYED[k]) for e in v]
            else:
                out[k] = permute_members(v, rng)
        return out
    if isinstance(x, list):
        return [permute_members(e, rng) for e in x]
    return x


# legacy lists that come from a keyed YANG list and whose own order carries no meaning: compared after sorting by the key;
# pairs of parallel lists (frequency/value ...) are compared as sets of pairs.  `nf_coef` is positional in the legacy
# form (index = coef_order): it is compared as it is.
LEGACY_KEYED = {k: v for k, v in KEYED.items() if k not in ('nf_coef', 'raman_efficiency', 'g0_per_frequency',
                                                             'loss_coef_per_frequency', 'per_degree_design_bands_targets',
                                                             'per_degree_power_targets', 'gnpy-spectrum:spectrum')}
LEGACY_KEYED['spectrum'] = ('f_min',)
PARALLEL = {'loss_coef': ('frequency', 'value'), 'raman_coefficient': ('frequency_offset', 'g0'),
            'raman_efficiency': ('frequency_offset', 'cr')}


def order_free(x):
    if isinstance(x, dict):
        out = {}
        for k, v in x.items():
            v = order_free(v)
            if k in LEGACY_KEYED and isinstance(v, list) and all(isinstance(e, dict) for e in v):
                v = sorted(v, key=lambda e: json.dumps([e.get(kk) for kk in LEGACY_KEYED[k]], default=str))
            if k == 'per_degree_design_bands' and isinstance(v, dict):
                v = {dg: (sorted(bl, key=lambda e: json.dumps(e.get('f_min'))) if isinstance(bl, list) else bl)
                     for dg, bl in v.items()}
            if k in PARALLEL and isinstance(v, dict) and all(isinstance(v.get(kk), list) for kk in PARALLEL[k]):
                a, b = PARALLEL[k]
                pairs = sorted(zip(v[a], v[b]), key=lambda p: (p[0] is None, p[0]))
                v = dict(v)
                v[a], v[b] = [p[0] for p in pairs], [p[1] for p in pairs]
            out[k] = v
        return out
    if isinstance(x, list):
        return [order_free(e) for e in x]
    return x


def run_permuted(case, drv):
    import random
    from gnpy.tools.convert_legacy_yang import legacy_to_yang
    res = Result()
    kind, d, what = case['base_kind'], case['doc'], case['what']
    res.stats['case_permuted'] += 1
    res.stats[f'permuted_{what}_{kind}'] += 1
    y, yerr = _impl(legacy_to_yang, d)
    if yerr is not None or validate(y) is not None:
        res.stats['permuted_base_not_accepted'] += 1
        return res
    rng = random.Random(case['pseed'])
    count = {}
    yp = permute_lists(y, rng, count) if what == 'lists' else permute_members(y, rng)
    for k, n in count.items():
        res.stats[f'permuted_list_{k}'] += n
    if validate(yp) is not None:
        # libyang is the oracle: a serialisation it refuses is not an accepted document
        res.stats['permuted_refused_by_libyang'] += 1
        return res
    l, lerr = safe_y2l(y)
    lp, lperr = safe_y2l(yp)
    _cmp_conv(res, 'yang_to_legacy(permuted)', lp, lperr, *_model(drv, 'c18.to_legacy', yp))
    if lerr is not None:
        return res
    if lperr is not None:
        # yp is a valid document (libyang accepted it): the loader path must convert it
        res.fail(f'accepted document cannot be converted back: yang_to_legacy raises {lperr} on a valid YANG document whose '
                 f'{what} are serialised in another order')
        return res
    res.nontrivial = bool(count) or what == 'members'
    # --- monitor (the property applied to the valid YANG-form document yp): YANG -> legacy -> YANG preserves every value and
    #     every list/degree/band structure.  "Same YANG document" is read as RFC 7951 reads it: object members and the
    #     entries of a keyed list carry no order (a keyed list is a map from its key), leaf-lists and key-less lists do.
    ypp, ypperr = _impl(legacy_to_yang, lp)
    if ypperr is not None:
        res.fail(f'round trip of a valid YANG document: legacy_to_yang raises {ypperr} on what yang_to_legacy returned')
    else:
        for pth in yang_data_diff(yp, ypp)[:3]:
            res.fail(f'round trip of a valid YANG document (YANG -> legacy -> YANG) changes the data at {pth}')
    # --- correspondence facts beyond the property text: the conversion and the built objects do not depend on the
    #     serialisation order (positional legacy lists exactly, key-ordered lists up to their own order)
    places = diff_paths(l, lp) if what == 'members' else diff_paths(order_free(l), order_free(lp))
    for pth in places[:3]:
        res.mismatch('yang_to_legacy(permuted serialisation) vs yang_to_legacy(original serialisation)', None, None, where=pth)
    if kind in ('equipment', 'topology', 'services', 'spectrum'):
        run_loaders(res, kind, l, lp, rounded=False, order_cls=True)
    return res


def yang_data_diff(a, b, ip='', key=None):
    """places where two YANG-form JSON documents denote different data: members unordered, keyed lists as maps"""
    if isinstance(a, dict) and isinstance(b, dict):
        out = [f'{ip}/{k}' for k in a if k not in b] + [f'{ip}/{k}' for k in b if k not in a]
        for k in a:
            if k in b:
                out += yang_data_diff(a[k], b[k], f'{ip}/{k}', k)
        return out
    if isinstance(a, list) and isinstance(b, list):
        if _is_keyed(key, a) and _is_keyed(key, b):
            def kv(e):
                return json.dumps([e.get(kk) for kk in KEYED[key]], default=str)
            ma, mb = {kv(e): e for e in a}, {kv(e): e for e in b}
            out = [f'{ip}[{k}]' for k in ma if k not in mb] + [f'{ip}[{k}]' for k in mb if k not in ma]
            if len(ma) != len(a) or len(mb) != len(b):
                out.append(f'{ip} (duplicate keys)')
            for k in ma:
                if k in mb:
                    out += yang_data_diff(ma[k], mb[k], f'{ip}[{k}]')
            return out
        if len(a) != len(b):
            return [ip]
        out = []
        for i, (x, y_) in enumerate(zip(a, b)):
            out += yang_data_diff(x, y_, f'{ip}[{i}]')
        return out
    return [] if (a == b and type(a) is type(b)) else [ip]


def shrink_candidates(case):
    import itertools
    return itertools.islice(_shrink_candidates(case), 36)


def _shrink_candidates(case):
    if case['kind'] in ('fmt',):
        for i in range(len(case['xs'])):
            yield {'kind': 'fmt', 'xs': [case['xs'][i]]}
        return
    if case['kind'] == 'alias':
        return
    d = case['doc']
    if not isinstance(d, dict) or 'foo' in d:
        return
    if case['kind'] == 'equipment':
        for key in list(d):
            if isinstance(d[key], list) and len(d[key]) > 1:
                for i in range(len(d[key])):
                    c = copy.deepcopy(case)
                    del c['doc'][key][i]
                    yield c
        for key in ('Edfa', 'Transceiver', 'Fiber', 'RamanFiber', 'Roadm'):
            for i, e in enumerate(d.get(key, [])):
                for k in list(e):
                    if k not in ('type_variety',):
                        c = copy.deepcopy(case)
                        del c['doc'][key][i][k]
                        yield c
    elif case['kind'] == 'topology':
        els = d.get('elements', [])

        def without(idx):
            c = copy.deepcopy(case)
            gone = {els[i]['uid'] for i in idx}
            c['doc']['elements'] = [e for i, e in enumerate(els) if i not in idx]
            c['doc']['connections'] = [x for x in d.get('connections', []) if x['from_node'] not in gone and x['to_node'] not in gone]
            for e in c['doc']['elements']:
                p_ = e.get('params', {})
                for k in [k for k in p_ if k.startswith('per_degree')]:
                    if isinstance(p_[k], dict):
                        p_[k] = {dg: v for dg, v in p_[k].items() if dg not in gone}
                        if not p_[k]:
                            del p_[k]
                    else:
                        p_[k] = [x for x in p_[k] if x.get('from_degree') not in gone and x.get('to_degree') not in gone]
                        if not p_[k]:
                            del p_[k]
            return c
        n = len(els)
        if n > 1:
            yield without(set(range(n // 2)))
            yield without(set(range(n // 2, n)))
            for i in range(n):
                yield without({i})
        for i, e in enumerate(els):
            for sect in ('params', 'operational'):
                for k in list(e.get(sect, {})):
                    c = copy.deepcopy(case)
                    del c['doc']['elements'][i][sect][k]
                    yield c
    elif case['kind'] == 'services':
        for i in range(len(d.get('path-request', []))):
            if len(d['path-request']) > 1:
                c = copy.deepcopy(case)
                del c['doc']['path-request'][i]
                c['doc'].pop('synchronization', None)
                yield c
    elif case['kind'] == 'spectrum':
        for i in range(len(d.get('spectrum', []))):
            if len(d['spectrum']) > 1:
                c = copy.deepcopy(case)
                del c['doc']['spectrum'][i]
                yield c
