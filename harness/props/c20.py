"""C20 — spreadsheet inputs convert to the network and services they describe.

Correspondence: xls_to_json_data on a workbook written by the harness (openpyxl, .xlsx) or shipped with GNPy (.xls/.xlsx,
read with the harness's own small reader) vs Gnpy.Xls.convert fed with the same rows; Link(**row) vs Gnpy.Xls.mkLink;
Request_element(...).json vs pathRequest/pathSync; read_service_sheet vs the model's route correction (when no ILA
direction has to be chosen).  Exact on structure, names, key order, error kind; floats bit-exact or class F.
Monitor: the statement evaluated on the converter output with the harness's own table (never the model): connection
end points exist, uids unique, one fibre per direction with the sheet's values (west defaulting to east), ROADM / ILA /
FUSED site shapes, amplifier settings on the element facing the named neighbour, bad rows rejected with
NetworkTopologyError, request units, one synchronisation vector per 'disjoint from' entry; network_from_json +
designed_network must succeed on the converted network.
"""
import copy
import glob
import logging
import math
import os
import shutil
import tempfile
from pathlib import Path

from common.util import Result, f2b, b2f, err_kind, close
from common import nets
from props.c18 import to_wire, from_wire

logging.disable(logging.CRITICAL)

ID = 'C20'
N = {'quick': 800, 'thorough': 12000}
LEAN_MODULES = ['GnpyProofs.Props.C20']
THEOREMS = [f'Gnpy.Xls.{t}' for t in (
    'rejects_bad_rows', 'sanity_ok_iff', 'both_directions', 'link_west_defaults_to_east', 'link_west_cell_used',
    'endpoints_exist', 'roadm_site_shape', 'degree_ne_2_becomes_roadm', 'ila_fused_site_shape', 'ila_direction_rule',
    'eqpt_faces_neighbour_ila', 'eqpt_faces_neighbour_roadm', 'request_units', 'request_power_monotone',
    'sync_vector_per_disjoint_entry', 'request_endpoints', 'names_unique')]
PARTIAL = ['names_unique is proved for the structured names (Gnpy.Xls.Name) of a workbook without self-loop rows; that the '
           'rendering of names to uid strings is injective (city names and cable ids without the separators " → ", ")-", '
           '" to ", " in ") is not proved: the monitor checks the uniqueness of the rendered uids on every converted workbook']
RULE = ('workbooks generated from one PRNG: 3-8 sites of every declared type (ROADM, ILA, FUSED, empty, unknown spelling), '
        'connected link graphs with degrees 1-4, one- and two-sided Links rows with asymmetric values, Eqpt rows on ROADM '
        'degrees and on ILA sites in either direction with different east/west settings (incl. fused and untyped '
        'amplifiers), Roadms rows, restrictions; about 20 % violate exactly one sanity rule (duplicate city, link to an '
        'unknown city, duplicate or reversed-duplicate link, unreferenced site, Eqpt row for an unknown site or link, '
        'duplicate Eqpt row, ILA with two Eqpt rows); Service sheets with every optional cell present/absent, numeric ids, '
        'unknown transceivers/modes, missing spacing, loose/strict routes naming ROADM, ILA and FUSED sites, unknown sites, '
        'transceivers, several disjointness entries, and (45 % of the service sheets) clean rows whose \'disjoint from\' '
        'entries interlock: cycles r1/r2 r2/r3 r3/r1, chains of 3-5 rows, a/b c/d then a/c, rows listing several ids, '
        'forward references, symmetric duplicates, and (30 %) 3-6 rows routed by city name through the same in-line sites in '
        'both directions and repeatedly (every row must convert as when it is alone, and towards its own next site); '
        'plus the workbooks shipped with GNPy (.xls and .xlsx). A case is '
        'non-trivial when the workbook has an ILA/FUSED site or an Eqpt/Roadms row or violates a rule or has services; '
        'distinct = distinct canonical JSON of the case')
MODEL_SCOPE = ('modelled: Node/Link/Eqpt/Roadm row construction with their defaulting rules, the rejections of parse_excel '
               'and sanity_check in code order, the degree correction, every element and connection builder of '
               'xls_to_json_data (uids, key order, midpoint, round(length, 3), pmd conversion), Request / Request_element '
               '(unit conversions, mode/transceiver checks, route and disjointness lists), pathrequest / pathsync, the part '
               'of correct_xls_route_list that does not need the designed network. not modelled: header search and cell '
               'reading (glue, exercised by the correspondence; generated workbooks are written as .xlsx with openpyxl – no .xls writer '
               'is available offline – and the .xls reader is exercised by the shipped .xls fixtures, see the fixture_xls / '
               'fixture_xlsx / workbook_written_xlsx counters), region filter, choice of the ILA direction from the '
               'designed network (monitor only), corresp_next_node')

EQPT = 'eqpt_config.json'
FIXTURES = ['gnpy/example-data/meshTopologyExampleV2.xls', 'gnpy/example-data/CORONET_Global_Topology.xls',
            'gnpy/example-data/juniperTopologyExampleV2J.xls', 'tests/data/testTopology.xls',
            'tests/data/perdegreemeshTopologyExampleV2.xls', 'tests/data/testTopologyconvert.xls',
            'tests/data/ila_constraint.xlsx', 'tests/data/CORONET_Global_Topology.xlsx',
            'tests/data/wrong_duplicate_eqpt_ila_reverse.xlsx', 'tests/data/wrong_duplicate_link_reverse.xlsx',
            'tests/data/wrong_node_type.xlsx', 'tests/data/wrong_topo_bad_eqpt.xlsx', 'tests/data/wrong_topo_duplicate_eqpt.xlsx',
            'tests/data/wrong_topo_duplicate_node.xlsx', 'tests/data/wrong_topo_eqpt.xlsx', 'tests/data/wrong_topo_link.xlsx',
            'tests/data/wrong_topo_node.xlsx']
REPO = Path(nets.EX).parent.parent

NODE_COLS = [('City', 'city'), ('State', 'state'), ('Country', 'country'), ('Region', 'region'), ('Latitude', 'latitude'),
             ('Longitude', 'longitude'), ('Type', 'node_type'), ('Booster_restriction', 'booster_restriction'),
             ('Preamp_restriction', 'preamp_restriction')]
LINK_SIDE = [('Distance (km)', 'distance'), ('Fiber type', 'fiber'), ('lineic att', 'lineic'), ('Con_in', 'con_in'),
             ('Con_out', 'con_out'), ('PMD', 'pmd'), ('Cable id', 'cable')]
EQPT_SIDE = [('amp type', 'amp_type'), ('att_in', 'att_in'), ('amp gain', 'amp_gain'), ('delta p', 'amp_dp'),
             ('tilt', 'tilt_vs_wavelength'), ('att_out', 'att_out')]
ROADM_COLS = [('Node A', 'from_node'), ('Node Z', 'to_node'), ('per degree target power (dBm)', 'target_pch_out_db'),
              ('type_variety', 'type_variety'), ('from degrees', 'from_degrees'),
              ('from degree to degree impairment id', 'impairment_ids')]
SERVICE_COLS = [('route id', 'request_id'), ('Source', 'source'), ('Destination', 'destination'), ('TRX type', 'trx_type'),
                ('Mode', 'mode'), ('System: spacing', 'spacing'), ('System: input power (dBm)', 'power'),
                ('System: nb of channels', 'nb_channel'), ('routing: disjoint from', 'disjoint_from'),
                ('routing: path', 'nodes_list'), ('routing: is loose?', 'is_loose'), ('path bandwidth', 'path_bandwidth')]


# ---------------------------------------------------------------------------------------------------------------------
# the harness's table  ->  workbook  /  keyword rows for the model
# ---------------------------------------------------------------------------------------------------------------------
def cell(v):
    """what a reader sees in a cell the harness wrote with value v (openpyxl: '' -> empty, integral float -> int)"""
    if v == '' or v is None:
        return None
    if isinstance(v, float) and v == int(v) and abs(v) < 1e15:
        return int(v)
    return v


def write_workbook(path, tab):
    import openpyxl
    wb = openpyxl.Workbook()
    ws = wb.active
    ws.title = 'Nodes'
    for _ in range(4):
        ws.append([None])
    ws.append([h for h, _ in NODE_COLS])
    for n in tab['nodes']:
        ws.append([n.get(f) for _, f in NODE_COLS])
    ws = wb.create_sheet('Links')
    for _ in range(3):
        ws.append([None])
    ws.append([None, None, 'east cable (from a to z)'] + [None] * 6 + ['west (from z to a)'])
    ws.append(['Node A', 'Node Z'] + [h for h, _ in LINK_SIDE] * 2)
    for ln in tab['links']:
        ws.append([ln['a'], ln['z']] + [ln['east'].get(f) for _, f in LINK_SIDE] + [ln.get('west', {}).get(f) for _, f in LINK_SIDE])
    if tab.get('eqpts') is not None:
        ws = wb.create_sheet('Eqpt')
        for _ in range(3):
            ws.append([None])
        ws.append([None, None, 'east Node a egress amp (from a to z)'] + [None] * 5 + ['west Node a ingress amp (from z to a)'])
        ws.append(['Node A', 'Node Z'] + [h for h, _ in EQPT_SIDE] * 2)
        for q in tab['eqpts']:
            ws.append([q['a'], q['z']] + [q.get('east', {}).get(f) for _, f in EQPT_SIDE] + [q.get('west', {}).get(f) for _, f in EQPT_SIDE])
    if tab.get('roadms'):
        ws = wb.create_sheet('Roadms')
        for _ in range(4):
            ws.append([None])
        ws.append([h for h, _ in ROADM_COLS])
        for r in tab['roadms']:
            ws.append([r.get(f) for _, f in ROADM_COLS])
    if tab.get('services') is not None:
        ws = wb.create_sheet('Service')
        for _ in range(4):
            ws.append([None])
        ws.append([h for h, _ in SERVICE_COLS])
        for s in tab['services']:
            ws.append([s.get(f) for _, f in SERVICE_COLS])
    wb.save(path)


def kw_rows(tab):
    """the keyword dictionaries parse_sheet yields for this table (field name -> cell value as read)"""
    nodes = [{f: cell(n.get(f)) for _, f in NODE_COLS} for n in tab['nodes']]
    links = []
    for ln in tab['links']:
        kw = {'from_city': cell(ln['a']), 'to_city': cell(ln['z'])}
        for side in ('east', 'west'):
            for _, f in LINK_SIDE:
                kw[f'{side}_{f}'] = cell(ln.get(side, {}).get(f))
        links.append(kw)
    eqpts = []
    for q in tab.get('eqpts') or []:
        kw = {'from_city': cell(q['a']), 'to_city': cell(q['z'])}
        for side in ('east', 'west'):
            for _, f in EQPT_SIDE:
                kw[f'{side}_{f}'] = cell(q.get(side, {}).get(f))
        eqpts.append(kw)
    roadms = [{f: cell(r.get(f)) for _, f in ROADM_COLS} for r in tab.get('roadms') or []]
    return nodes, links, eqpts, roadms


# ---------------------------------------------------------------------------------------------------------------------
# the harness's own reader for shipped workbooks (fixed layout: group header in row 3, names in row 4, data from row 5)
# ---------------------------------------------------------------------------------------------------------------------
def _sheet_rows(path, name):
    if str(path).lower().endswith('.xls'):
        import xlrd
        wb = xlrd.open_workbook(path)
        if name not in wb.sheet_names():
            return None
        sh = wb.sheet_by_name(name)
        return [[(None if c.ctype == xlrd.XL_CELL_EMPTY else c.value) for c in sh.row(r)] for r in range(sh.nrows)]
    import openpyxl
    wb = openpyxl.load_workbook(path, read_only=True, data_only=True)
    if name not in wb.sheetnames:
        return None
    return [[c.value for c in row] for row in wb[name].rows]


def read_table(path):
    """rows of a shipped workbook as keyword dictionaries (None when the layout is not the standard one)"""
    def flat(rows, cols, ncol, header_rows=(4, 3)):
        hr = None
        for h in header_rows:
            if h < len(rows) and any(isinstance(v, str) and v.strip() == cols[0][0] for v in rows[h][:ncol]):
                hr = h
                break
        if hr is None:
            return None
        pos = {}
        for j, v in enumerate(rows[hr][:ncol]):
            for hname, f in cols:
                if isinstance(v, str) and hname in v.strip() and f not in pos:
                    pos[f] = j
        out = []
        for row in rows[5:]:
            row = list(row) + [None] * ncol
            if row[0] in (None, ''):
                continue
            out.append({f: row[j] for f, j in pos.items()})
        return out

    def grouped(rows, side_cols, ncol):
        if len(rows) < 5:
            return None
        g = [(j, v) for j, v in enumerate(rows[3][:ncol]) if isinstance(v, str) and v.strip()]
        east = next((j for j, v in g if 'east' in v), None)
        west = next((j for j, v in g if 'west' in v), None)
        if east is None:
            return None
        bounds = {'east': (east, west if west is not None else ncol), 'west': (west, ncol) if west is not None else None}
        names = rows[4]
        pos = {}
        for j, v in enumerate(names[:2]):
            if isinstance(v, str) and 'Node A' in v:
                pos['from_city'] = j
            if isinstance(v, str) and 'Node Z' in v:
                pos['to_city'] = j
        for side, b in bounds.items():
            if b is None:
                continue
            for j in range(b[0], min(b[1], len(names))):
                v = names[j]
                for hname, f in side_cols:
                    if isinstance(v, str) and hname in v.strip() and f'{side}_{f}' not in pos:
                        pos[f'{side}_{f}'] = j
        out = []
        for row in rows[5:]:
            row = list(row) + [None] * ncol
            if row[0] in (None, ''):
                continue
            out.append({f: row[j] for f, j in pos.items()})
        return out

    nodes = flat(_sheet_rows(path, 'Nodes'), NODE_COLS, 10, header_rows=(4,))
    links = grouped(_sheet_rows(path, 'Links'), LINK_SIDE, 16)
    er = _sheet_rows(path, 'Eqpt')
    eqpts = grouped(er, EQPT_SIDE, 14) if er is not None else []
    rr = _sheet_rows(path, 'Roadms')
    roadms = flat(rr, ROADM_COLS, 6) if rr is not None else []
    if nodes is None or links is None or eqpts is None or roadms is None:
        return None
    return nodes, links, eqpts, roadms


# ---------------------------------------------------------------------------------------------------------------------
# generator
# ---------------------------------------------------------------------------------------------------------------------
AMPS = ['std_low_gain', 'std_medium_gain', 'std_high_gain', 'fused', '', 'Fused', 'std_fixed_gain']
FIBERS = ['SSMF', 'NZDF', 'LOF', None]


def num(rng, lo, hi, nd=2):
    v = round(rng.uniform(lo, hi), rng.randint(0, nd))
    return v


def gen_side(rng, full):
    s = {}
    if full or rng.random() < 0.8:
        s['distance'] = rng.choice([num(rng, 5, 120, 4), rng.randint(5, 120), num(rng, 5, 120, 1)])
    for f, mk in (('fiber', lambda: rng.choice(FIBERS)), ('lineic', lambda: num(rng, 0.17, 0.25, 3)),
                  ('con_in', lambda: num(rng, 0, 1, 1)), ('con_out', lambda: num(rng, 0, 1, 1)),
                  ('pmd', lambda: rng.choice([0, num(rng, 0.1, 5, 2)])), ('cable', lambda: f'F{rng.randint(0, 999):03d}')):
        if rng.random() < (0.6 if full else 0.3):
            v = mk()
            if v is not None:
                s[f] = v
    return s


def gen_eqpt_side(rng):
    s = {}
    if rng.random() < 0.85:
        s['amp_type'] = rng.choice(AMPS)
    for f, mk in (('att_in', lambda: num(rng, 0, 3, 1)), ('amp_gain', lambda: num(rng, 10, 25, 2)),
                  ('amp_dp', lambda: num(rng, -3, 3, 1)), ('tilt_vs_wavelength', lambda: num(rng, -1, 1, 1)),
                  ('att_out', lambda: num(rng, 0, 3, 1))):
        if rng.random() < 0.5:
            s[f] = mk()
    return s


def gen_table(rng, tier, widen):
    # junction sites joined by a random tree plus extra edges; every junction edge may be subdivided by in-line sites
    nj = rng.randint(2, 4 if tier == 'quick' else 6)
    jedges = [(rng.randrange(i), i) for i in range(1, nj)]
    for _ in range(rng.choice([0, 1, 1, 2])):
        a, b = rng.sample(range(nj), 2)
        if (a, b) not in jedges and (b, a) not in jedges:
            jedges.append((a, b))
    n = nj
    edges = []
    for a, b in jedges:
        prev = a
        for _ in range(rng.choice([0, 0, 1, 1, 2])):
            edges.append((prev, n))
            prev = n
            n += 1
        edges.append((prev, b))
    n = min(n, 12)
    edges = [(a, b) for a, b in edges if a < n and b < n]
    # keep the graph connected after the cut: drop sites that lost all their links
    used = sorted({x for e in edges for x in e})
    remap = {x: i for i, x in enumerate(used)}
    edges = [(remap[a], remap[b]) for a, b in edges]
    n = len(used)
    cities = [f'{c}{rng.choice(["", "_X", " y"])}' for c in 'ABCDEFGHIJKL'[:n]]
    # lengthen some edges with chains of in-line sites
    deg = [0] * n
    for a, b in edges:
        deg[a] += 1
        deg[b] += 1
    nodes = []
    for i, c in enumerate(cities):
        if deg[i] == 2:
            t = rng.choice(['ILA', 'ILA', 'FUSED', 'ROADM', '', 'ila', 'Amp'])
        else:
            t = rng.choice(['ROADM', 'ROADM', 'ILA', '', 'roadm'])    # ILA/''/misspelt with degree != 2: corrected to ROADM
        if i == 0 and deg[i] == 2:
            t = 'ROADM'
        nd = {'city': c, 'state': 's', 'country': 'c', 'region': rng.choice(['RLD', 'R2', '']),
              'latitude': rng.choice([num(rng, -50, 50, 3), rng.randint(-50, 50)]),
              'longitude': rng.choice([num(rng, -50, 50, 3), rng.randint(-50, 50)]), 'node_type': t}
        if rng.random() < 0.2:
            nd['booster_restriction'] = rng.choice(['std_medium_gain', 'std_medium_gain | std_high_gain', ''])
            nd['preamp_restriction'] = rng.choice(['std_low_gain', 'std_low_gain | std_medium_gain', ''])
        nodes.append(nd)
    rng.shuffle(edges)
    links = []
    for a, b in edges:
        if rng.random() < 0.5:
            a, b = b, a
        ln = {'a': cities[a], 'z': cities[b], 'east': gen_side(rng, True)}
        if rng.random() < 0.6:
            ln['west'] = gen_side(rng, rng.random() < 0.4)
        # the two directions need different uids: GNPy's own sheets give both directions the same cable id and rely on
        # the arrow; keep at least the arrow distinct (a != z always holds here)
        links.append(ln)

    def eff_type(i):
        t = nodes[i]['node_type']
        t = t if t in ('ROADM', 'ILA', 'FUSED') else 'ILA'
        if t == 'ILA' and deg[i] != 2:
            t = 'ROADM'
        return t

    def neigh(i):
        out = []
        for ln in links:
            if ln['a'] == cities[i]:
                out.append(ln['z'])
            elif ln['z'] == cities[i]:
                out.append(ln['a'])
        return out
    eqpts = []
    for i in range(n):
        t = eff_type(i)
        nb = neigh(i)
        declared_ila = nodes[i]['node_type'] not in ('ROADM', 'FUSED')
        if t == 'ROADM':
            for z in nb:
                if rng.random() < 0.45:
                    eqpts.append({'a': cities[i], 'z': z, 'east': gen_eqpt_side(rng), 'west': gen_eqpt_side(rng)})
                    if declared_ila:
                        # sanity_check counts Eqpt rows of a site DECLARED ILA before it promotes the site to ROADM:
                        # two rows there are refused as 'Duplicate ILA' (noted in the report); stay within one row
                        break
        elif t == 'ILA' and rng.random() < 0.6:
            eqpts.append({'a': cities[i], 'z': rng.choice(nb), 'east': gen_eqpt_side(rng), 'west': gen_eqpt_side(rng)})
    rng.shuffle(eqpts)
    roadms = []
    for i in range(n):
        if eff_type(i) == 'ROADM' and rng.random() < 0.25:
            for z in neigh(i):
                if rng.random() < 0.6:
                    r = {'from_node': cities[i], 'to_node': z}
                    if rng.random() < 0.8:
                        r['target_pch_out_db'] = num(rng, -25, -15, 1)
                    if rng.random() < 0.2:
                        r['type_variety'] = 'roadm_type_1'
                    roadms.append(r)
    tab = {'nodes': nodes, 'links': links, 'eqpts': eqpts if (eqpts or rng.random() < 0.7) else None, 'roadms': roadms}
    return tab, cities, [eff_type(i) for i in range(n)]


VIOLATIONS = ['duplicate-city', 'link-unknown-node', 'duplicate-link', 'duplicate-link-reversed', 'unreferenced-node',
              'eqpt-unknown-node', 'eqpt-unknown-link', 'duplicate-eqpt', 'duplicate-ila']


def violate(rng, tab, cities, types):
    v = rng.choice(VIOLATIONS)
    nodes, links = tab['nodes'], tab['links']
    if tab['eqpts'] is None:
        tab['eqpts'] = []
    if v == 'duplicate-city':
        nodes.insert(rng.randrange(len(nodes) + 1), copy.deepcopy(rng.choice(nodes)))
    elif v == 'link-unknown-node':
        ln = copy.deepcopy(rng.choice(links))
        ln[rng.choice(['a', 'z'])] = 'Nowhere'
        links.append(ln)
    elif v == 'duplicate-link':
        ln = copy.deepcopy(rng.choice(links))
        ln['east']['cable'] = 'DUP'
        links.insert(rng.randrange(len(links) + 1), ln)
    elif v == 'duplicate-link-reversed':
        ln = copy.deepcopy(rng.choice(links))
        ln['a'], ln['z'] = ln['z'], ln['a']
        links.insert(rng.randrange(len(links) + 1), ln)
    elif v == 'unreferenced-node':
        nodes.append({'city': 'Lonely', 'node_type': rng.choice(['ROADM', 'ILA', 'FUSED']), 'latitude': 1, 'longitude': 1})
    elif v == 'eqpt-unknown-node':
        q = {'a': rng.choice(cities), 'z': rng.choice(cities), 'east': gen_eqpt_side(rng)}
        q[rng.choice(['a', 'z'])] = 'Nowhere'
        tab['eqpts'].append(q)
    elif v == 'eqpt-unknown-link':
        pairs = [(a, z) for a in cities for z in cities if a != z and
                 not any({ln['a'], ln['z']} == {a, z} for ln in links)]
        if not pairs:
            return None
        a, z = rng.choice(pairs)
        tab['eqpts'].append({'a': a, 'z': z, 'east': gen_eqpt_side(rng)})
    elif v == 'duplicate-eqpt':
        if not tab['eqpts']:
            return None
        q = copy.deepcopy(rng.choice(tab['eqpts']))
        q['east'] = gen_eqpt_side(rng)
        tab['eqpts'].insert(rng.randrange(len(tab['eqpts']) + 1), q)
    elif v == 'duplicate-ila':
        ilas = [c for c, t in zip(cities, types) if t == 'ILA']
        if not ilas:
            return None
        c = rng.choice(ilas)
        nb = [ln['z'] if ln['a'] == c else ln['a'] for ln in links if c in (ln['a'], ln['z'])]
        tab['eqpts'] = [q for q in tab['eqpts'] if q['a'] != c]
        tab['eqpts'] += [{'a': c, 'z': nb[0], 'east': gen_eqpt_side(rng)}, {'a': c, 'z': nb[1], 'east': gen_eqpt_side(rng)}]
    return v


def gen_interlocked_services(rng, cities, types):
    """clean rows (every row converts) whose 'disjoint from' entries interlock: cycles r1/r2, r2/r3, r3/r1, chains of 3-5
    rows, a/b + c/d then a/c, rows listing several ids, forward references, symmetric duplicates"""
    roadm_c = [c for c, t in zip(cities, types) if t == 'ROADM']
    n = rng.randint(3, 6)
    style = rng.choice(['int', 'str', 'name'])
    ids = [i if style == 'int' else (str(i) if style == 'str' else f'r{i}') for i in range(n)]
    pattern = rng.choice(['cycle', 'chain', 'pairs-then-cross', 'multi', 'random', 'symmetric'])
    dj = {i: [] for i in range(n)}
    if pattern == 'cycle':
        k = rng.randint(3, n)
        for i in range(k):
            dj[i] = [(i + 1) % k]
    elif pattern == 'chain':
        for i in range(n - 1):
            dj[i] = [i + 1]
        if rng.random() < 0.5:
            dj[n - 1] = [0]
    elif pattern == 'pairs-then-cross':
        # a/b, c/d, then a row that crosses the two groups (a/c); with three rows: a/b, b/c, c/a
        dj[0] = [1]
        if n >= 4:
            dj[2] = [3]
            x, y = rng.choice([(1, 3), (3, 1), (1, 2), (3, 0)])
            dj[x] = [y]
        else:
            dj[1] = [2]
            dj[2] = [0]
    elif pattern == 'multi':
        for i in range(n):
            if rng.random() < 0.7:
                others = [j for j in range(n) if j != i]
                dj[i] = rng.sample(others, rng.randint(1, min(3, len(others))))
    elif pattern == 'symmetric':
        dj[0] = [1]
        dj[1] = [0]
        if n > 2:
            dj[2] = [rng.choice([0, 1])]
    else:
        for i in range(n):
            if rng.random() < 0.6:
                dj[i] = [rng.choice([j for j in range(n) if j != i])]
    rows = []
    for i in range(n):
        if len(roadm_c) >= 2:
            s, d = rng.sample(roadm_c, 2)
        else:
            s, d = roadm_c[0], roadm_c[0]
        r = {'request_id': ids[i], 'source': s, 'destination': d, 'trx_type': 'Voyager', 'mode': rng.choice([None, 'mode 1']),
             'spacing': rng.choice([50, 75]), 'power': rng.choice([None, 0, 1]), 'nb_channel': rng.choice([None, 40]),
             'path_bandwidth': rng.choice([100, 200])}
        if dj[i]:
            names = [ids[j] for j in dj[i]]
            r['disjoint_from'] = names[0] if (len(names) == 1 and rng.random() < 0.5) else ' | '.join(str(x) for x in names)
        rows.append(r)
    if rng.random() < 0.3:
        rng.shuffle(rows)
    return rows


def gen_routed_services(rng, tab, cities, types):
    """3-6 rows whose 'routing: path' names, by city, every ROADM and in-line amplifier site of an actual route between
    two ROADM sites: the same in-line sites are crossed by several rows, in both directions and repeatedly.  Each row keeps
    its planned route ('_path', not a sheet column) so that the monitor knows which neighbour every site has to face.
    None when the table has no route through an in-line site."""
    adj = {c: [] for c in cities}
    for ln in tab['links']:
        adj[ln['a']].append(ln['z'])
        adj[ln['z']].append(ln['a'])
    typ = dict(zip(cities, types))
    roadm_c = [c for c in cities if typ[c] == 'ROADM']

    def path(s, d):
        prev = {s: None}
        todo = [s]
        while todo:
            x = todo.pop(0)
            if x == d:
                break
            for y in adj[x]:
                if y not in prev:
                    prev[y] = x
                    todo.append(y)
        if d not in prev:
            return None
        out = [d]
        while prev[out[-1]] is not None:
            out.append(prev[out[-1]])
        return out[::-1]
    cands = []
    for s in roadm_c:
        for d in roadm_c:
            if s != d:
                pth = path(s, d)
                if pth and any(typ[c] == 'ILA' for c in pth[1:-1]):
                    cands.append(pth)
    if not cands:
        return None
    base = rng.choice(cands)
    plans = [base, base[::-1], rng.choice([base, base[::-1]])]
    for _ in range(rng.randint(0, 3)):
        plans.append(rng.choice(cands + [base, base[::-1]]))
    rng.shuffle(plans)
    rows = []
    for i, pth in enumerate(plans):
        listed = [c for c in pth[1:-1] if typ[c] in ('ILA', 'ROADM')]
        if rng.random() < 0.3:
            listed = [pth[0]] + listed          # some users repeat the end points in the path (by site name)
        rows.append({'request_id': f'r{i}', 'source': pth[0], 'destination': pth[-1], 'trx_type': 'Voyager',
                     'mode': rng.choice([None, 'mode 1']), 'spacing': 50, 'power': rng.choice([None, 0]), 'nb_channel': None,
                     'path_bandwidth': 100, 'nodes_list': ' | '.join(listed) if listed else None,
                     'is_loose': rng.choice(['yes', 'no', None]), '_path': pth})
    return rows


def gen_services(rng, cities, types, tab=None):
    c = rng.random()
    if c < 0.3 and tab is not None:
        rows = gen_routed_services(rng, tab, cities, types)
        if rows:
            return rows
    if c < 0.6:
        return gen_interlocked_services(rng, cities, types)
    roadm_c = [c for c, t in zip(cities, types) if t == 'ROADM']
    rows = []
    for i in range(rng.randint(1, 5)):
        if len(roadm_c) >= 2:
            s, d = rng.sample(roadm_c, 2)
        else:
            s, d = roadm_c[0], roadm_c[0]
        trx = rng.choice(['Voyager', 'Voyager', 'vendorA_trx-type1', 'Voyager'])
        mode = rng.choice([None, 'mode 1', 'mode 2', '', None]) if trx == 'Voyager' else rng.choice([None, 'mode 1', 'PS_SP64_1'])
        r = {'request_id': rng.choice([i, str(i), float(i), f'r{i}']), 'source': s, 'destination': d, 'trx_type': trx, 'mode': mode,
             'spacing': rng.choice([50, 75, 62.5, 50.0, 100]), 'power': rng.choice([None, 0, 1, -1.5, 2.25]),
             'nb_channel': rng.choice([None, 40, 80, 76.0]), 'path_bandwidth': rng.choice([None, 100, 200, 62.5, 0])}
        if rng.random() < 0.35:
            # earlier and LATER rows may be named (the sheet is a set of requests, not a sequence)
            others = [x for x in range(5) if x != i]
            r['disjoint_from'] = rng.choice([str(rng.choice(others)), rng.choice(others),
                                             ' | '.join(str(x) for x in rng.sample(others, rng.randint(2, 3)))])
        if rng.random() < 0.5:
            pool = list(cities) + [f'roadm {c}' for c in roadm_c] + ['Nowhere', f'trx {s}', f'trx {d}']
            k = rng.randint(1, 4)
            r['nodes_list'] = ' | '.join(rng.sample(pool, min(k, len(pool))))
        if rng.random() < 0.6:
            r['is_loose'] = rng.choice(['yes', 'no', 'Yes', 'No', 'YES', ''])
        rows.append(r)
    # a few rows that must be refused
    c = rng.random()
    if c < 0.08:
        rows[-1]['trx_type'] = 'NoSuchTrx'
    elif c < 0.16:
        rows[-1]['mode'] = 'no such mode'
    elif c < 0.22:
        rows[-1]['spacing'] = None
    elif c < 0.27:
        rows[-1]['source'] = 'Nowhere'
    return rows


def gen(rng, tier, widen=False):
    k = rng.random()
    if k < 0.04:
        return {'kind': 'fixture', 'file': rng.choice(FIXTURES)}
    if k < 0.12:
        g = rng
        return {'kind': 'link', 'row': {'a': 'A', 'z': 'B', 'east': gen_side(g, rng.random() < 0.5), 'west': gen_side(g, False)}}
    tab, cities, types = gen_table(rng, tier, widen)
    case = {'kind': 'workbook', 'tab': tab, 'cities': cities}
    if rng.random() < 0.22:
        v = violate(rng, tab, cities, types)
        if v:
            case['violation'] = v
            return case
    if rng.random() < 0.6 and any(t == 'ROADM' for t in types):
        tab['services'] = gen_services(rng, cities, types, tab)
        case['bidir'] = rng.random() < 0.3
    return case


# ---------------------------------------------------------------------------------------------------------------------
# comparison of JSON trees: exact, floats class F
# ---------------------------------------------------------------------------------------------------------------------
def tree_diff(a, b, path=''):
    if isinstance(a, float) or isinstance(b, float):
        # numpy.float64 is a float; an int where the other side has a float is a difference
        if isinstance(a, float) and isinstance(b, float) and close(float(a), float(b), 1e-12, 1e-300):
            return None
        return (path, a, b)
    if type(a) is not type(b):
        return (path, a, b)
    if isinstance(a, dict):
        if list(a) != list(b):
            return (path + ' keys', list(a), list(b))
        for k in a:
            d = tree_diff(a[k], b[k], f'{path}/{k}')
            if d:
                return d
        return None
    if isinstance(a, list):
        if len(a) != len(b):
            return (path + ' len', len(a), len(b))
        for i, (x, y) in enumerate(zip(a, b)):
            d = tree_diff(x, y, f'{path}[{i}]')
            if d:
                return d
        return None
    return None if a == b else (path, a, b)


def cmp_tree(res, fn, impl, model):
    res.compared += 1
    d = tree_diff(impl, model)
    if d:
        res.mismatch(fn, str(d[1])[:300], str(d[2])[:300], where=d[0])
        return False
    return True


TOPO_KINDS = ['Duplicate city', 'The Links sheet references nodes', 'are duplicate', 'not referenced from the Links sheet',
              'The Eqpt sheet refers to nodes', 'The Eqpt sheet references links', 'Duplicate lines in Eqpt sheet',
              'Duplicate ILA eqpt definition', 'per degree impairment id do not match']
TOPO_NAMES = ['duplicate-city', 'link-unknown-node', 'duplicate-link', 'unreferenced-node', 'eqpt-unknown-node',
              'eqpt-unknown-link', 'duplicate-eqpt', 'duplicate-ila', 'impairment-mismatch']


def topo_err(e):
    k = err_kind(e)
    if k == 'NetworkTopologyError':
        for pat, name in zip(TOPO_KINDS, TOPO_NAMES):
            if pat in str(e):
                return f'{k}:{name}'
    return k


# ---------------------------------------------------------------------------------------------------------------------
# running
# ---------------------------------------------------------------------------------------------------------------------
def run(case, drv):
    return {'workbook': run_workbook, 'fixture': run_fixture, 'link': run_link}[case['kind']](case, drv)


def run_link(case, drv):
    from gnpy.tools.convert import Link
    res = Result()
    row = case['row']
    kw = {'from_city': row['a'], 'to_city': row['z']}
    for side in ('east', 'west'):
        for _, f in LINK_SIDE:
            kw[f'{side}_{f}'] = cell(row.get(side, {}).get(f))
    ln = Link(**kw)
    impl = {side: {f: getattr(ln, f'{side}_{f}') for _, f in LINK_SIDE} for side in ('east', 'west')}
    ans = drv.ask('c20.link', kw=to_wire(kw))
    model = {side: from_wire(ans[side]) for side in ('east', 'west')}
    cmp_tree(res, 'Link(**row)', impl, model)
    # monitor: west defaults to east
    for _, f in LINK_SIDE:
        w = cell(row.get('west', {}).get(f))
        want = w if w is not None else impl['east'][f]
        if impl['west'][f] != want:
            res.fail(f'west defaulting: west {f} is {impl["west"][f]!r}, the sheet gives {w!r} and east is {impl["east"][f]!r}')
    res.nontrivial = True
    res.stats['case_link'] += 1
    return res


def convert_impl(path):
    from gnpy.tools.convert import xls_to_json_data
    try:
        return xls_to_json_data(Path(path)), None
    except Exception as e:  # noqa: BLE001 – every kind is mapped and compared
        return None, topo_err(e)


def convert_model(drv, nodes, links, eqpts, roadms):
    ans = drv.ask('c20.convert', nodes=[to_wire(x) for x in nodes], links=[to_wire(x) for x in links],
                  eqpts=[to_wire(x) for x in eqpts], roadms=[to_wire(x) for x in roadms])
    if 'error' in ans:
        return None, ans['error']
    return from_wire(ans['value']), None


def run_fixture(case, drv):
    res = Result()
    path = REPO / case['file']
    res.stats['case_fixture'] += 1
    res.stats['fixture_' + ('xls' if case['file'].endswith('.xls') else 'xlsx')] += 1
    impl, ierr = convert_impl(path)
    rows = read_table(str(path))
    if rows is None:
        res.stats['fixture_layout_not_standard'] += 1
        return res
    rows = [[{k: cell(v) if not str(path).endswith('.xls') else (None if v == '' else v) for k, v in r.items()} for r in part]
            for part in rows]
    model, merr = convert_model(drv, *rows)
    if ierr or merr:
        res.cmp_exact('xls_to_json_data.error', ierr, merr, file=case['file'])
    else:
        cmp_tree(res, 'xls_to_json_data', impl, model)
        monitor_structure(res, impl)
    if 'wrong_' in case['file'] and ierr is None and 'wrong_node_type' not in case['file']:
        res.fail(f'rejects: the shipped counter-example {case["file"]} is converted without error')
    res.nontrivial = True
    return res


def monitor_structure(res, doc):
    """end points exist, uids unique (valid for every converted workbook)"""
    uids = [e['uid'] for e in doc['elements']]
    seen = set()
    for u in uids:
        if u in seen:
            res.fail(f'unique names: element uid {u!r} occurs twice')
        seen.add(u)
    for c in doc['connections']:
        for end in ('from_node', 'to_node'):
            if c[end] not in seen:
                res.fail(f'end points: connection {c} refers to {c[end]!r}, which is not an element')
    return seen


def run_workbook(case, drv):
    res = Result()
    tab = case['tab']
    res.stats['case_workbook'] += 1
    tmp = tempfile.mkdtemp(prefix='c20_')
    try:
        path = os.path.join(tmp, 'wb.xlsx')
        write_workbook(path, tab)
        impl, ierr = convert_impl(path)
        nodes, links, eqpts, roadms = kw_rows(tab)
        model, merr = convert_model(drv, nodes, links, eqpts, roadms)
        if ierr or merr:
            res.cmp_exact('xls_to_json_data.error', ierr, merr)
        else:
            cmp_tree(res, 'xls_to_json_data', impl, model)
        v = case.get('violation')
        res.stats[f'outcome_{ierr or "converted"}'] += 1
        if v:
            res.stats[f'violation_{v}'] += 1
            res.nontrivial = True
            if ierr is None or not ierr.startswith('NetworkTopologyError'):
                res.fail(f'rejects: workbook with {v} is {"converted" if ierr is None else "refused with " + ierr} '
                         'instead of being rejected with a topology error')
            return res
        if ierr is not None:
            res.fail(f'valid workbook refused: {ierr}')
            return res
        monitor_network(res, tab, impl)
        net = None
        from gnpy.tools.json_io import network_from_json
        from gnpy.tools.worker_utils import designed_network
        eq = nets.eqpt(EQPT)
        res.stats['workbook_written_xlsx'] += 1
        try:
            net = network_from_json(copy.deepcopy(impl), eq)
        except Exception as e:  # noqa: BLE001
            # the converted document describes a network: it must load (end points exist, names unique, known element kinds)
            res.fail(f'loadable: network_from_json fails on the converted workbook: {err_kind(e)}: {str(e)[:200]}')
            net = None
        if net is not None:
            try:
                net, _, _ = designed_network(eq, net)
                res.stats['designed_ok'] += 1
            except Exception as e:  # noqa: BLE001
                # auto-design with the stock library is not part of the statement: only a precondition of the service-route
                # checks (the route correction needs the designed network)
                res.stats[f'design_failed_{err_kind(e)}'] += 1
                net = None
        if tab.get('services') is not None and net is not None:
            run_services(res, case, drv, path, net)
        res.nontrivial = res.nontrivial or bool(tab.get('eqpts') or tab.get('roadms') or tab.get('services')) or \
            any(e['type'] == 'Fused' or e['uid'].startswith(('east edfa', 'west edfa')) for e in impl['elements'])
    finally:
        shutil.rmtree(tmp, ignore_errors=True)
    return res


def monitor_network(res, tab, doc):
    """the property statement on the converted document, from the harness's own table"""
    uids = monitor_structure(res, doc)
    els = {e['uid']: e for e in doc['elements']}
    succ, pred = {}, {}
    for c in doc['connections']:
        succ.setdefault(c['from_node'], []).append(c['to_node'])
        pred.setdefault(c['to_node'], []).append(c['from_node'])
    links = tab['links']
    cities = [n['city'] for n in tab['nodes']]
    deg = {c: sum((ln['a'] == c) + (ln['z'] == c) for ln in links) for c in cities}

    def decl(n):
        t = n.get('node_type')
        return t if t in ('ROADM', 'ILA', 'FUSED') else 'ILA'
    typ = {n['city']: ('ROADM' if decl(n) == 'ILA' and deg[n['city']] != 2 else decl(n)) for n in tab['nodes']}
    for c in cities:
        res.stats[f'site_{typ[c]}_deg{min(deg[c], 4)}'] += 1
        if decl(next(n for n in tab['nodes'] if n['city'] == c)) == 'ILA' and deg[c] != 2:
            res.stats['ila_corrected_to_roadm'] += 1

    def side(ln, s):
        east = {f: cell(ln['east'].get(f)) for _, f in LINK_SIDE}
        dflt = {'distance': 80, 'fiber': 'SSMF', 'lineic': 0.2, 'con_in': None, 'con_out': None, 'pmd': None, 'cable': ''}
        east = {f: (dflt[f] if east[f] is None else east[f]) for f in east}
        if s == 'east':
            return east
        west = {f: cell(ln.get('west', {}).get(f)) for _, f in LINK_SIDE}
        nw = sum(v is not None for v in west.values())
        res.stats['links_west_side_empty' if nw == 0 else ('links_west_side_partial' if nw < 7 else 'links_west_side_full')] += 1
        return {f: (east[f] if west[f] is None else west[f]) for f in west}

    fib = {}
    for ln in links:
        for s, (src, dst) in (('east', (ln['a'], ln['z'])), ('west', (ln['z'], ln['a']))):
            v = side(ln, s)
            uid = f'fiber ({src} → {dst})-{v["cable"]}'
            fib[(src, dst)] = uid
            e = els.get(uid)
            if e is None or e['type'] != 'Fiber':
                res.fail(f'both directions: no fibre {uid!r} for link {ln["a"]}-{ln["z"]} ({s})')
                continue
            p = e['params']
            want = {'length': round(v['distance'], 3), 'loss_coef': v['lineic'], 'con_in': v['con_in'], 'con_out': v['con_out']}
            for k, w in want.items():
                if p.get(k) != w:
                    res.fail(f'sheet values: fibre {uid!r} has {k} = {p.get(k)!r}, the sheet ({s}{", defaulted" if s == "west" else ""}) says {w!r}')
            if e.get('type_variety') != v['fiber'] or p.get('length_units') != 'km':
                res.fail(f'sheet values: fibre {uid!r} has type {e.get("type_variety")!r}, the sheet says {v["fiber"]!r}')
            if v['pmd']:
                w = v['pmd'] * 1e-12 / math.sqrt(v['distance'] * 1e3)
                if not close(p.get('pmd_coef'), w, 1e-12, 0):
                    res.fail(f'sheet values: fibre {uid!r} has pmd_coef {p.get("pmd_coef")!r}, expected {w!r}')
            elif 'pmd_coef' in p:
                res.fail(f'sheet values: fibre {uid!r} has a pmd_coef although the sheet gives none')
    eq_rows = {}
    for q in tab.get('eqpts') or []:
        eq_rows[(q['a'], q['z'])] = q

    def neighbours(c):
        return [ln['z'] if ln['a'] == c else ln['a'] for ln in links if c in (ln['a'], ln['z'])]

    def check_amp(uid, q, s, where):
        """element `uid` carries the `s` settings of Eqpt row q"""
        e = els.get(uid)
        sd = {f: cell(q.get(s, {}).get(f)) for _, f in EQPT_SIDE}
        t = (sd['amp_type'] or '')
        if e is None:
            res.fail(f'amplifier placement: {where}: element {uid!r} is missing')
            return
        if t.lower() == 'fused':
            if e['type'] != 'Fused':
                res.fail(f'amplifier placement: {where}: {uid!r} should be a Fused element')
            return
        if e['type'] != 'Edfa' or e.get('type_variety') != (t or None):
            res.fail(f'amplifier placement: {where}: {uid!r} is {e["type"]} {e.get("type_variety")!r}, the sheet says {t!r}')
        op = e.get('operational', {})
        want = {'gain_target': sd['amp_gain'], 'delta_p': sd['amp_dp'], 'tilt_target': sd['tilt_vs_wavelength'],
                'out_voa': sd['att_out'], 'in_voa': 0 if sd['att_in'] is None else sd['att_in']}
        for k, w in want.items():
            if op.get(k) != w:
                res.fail(f'amplifier placement: {where}: {uid!r} has {k} = {op.get(k)!r}, the {s} side of the row says {w!r}')

    for c in cities:
        t = typ[c]
        nb = neighbours(c)
        if t == 'ROADM':
            for u, ty in ((f'trx {c}', 'Transceiver'), (f'roadm {c}', 'Roadm')):
                if u not in els or els[u]['type'] != ty:
                    res.fail(f'ROADM site: {c} has no {ty} element {u!r}')
            if f'roadm {c}' not in succ.get(f'trx {c}', []) or f'trx {c}' not in succ.get(f'roadm {c}', []):
                res.fail(f'ROADM site: {c}: transceiver and ROADM are not connected in both directions')
            for z in nb:
                q = eq_rows.get((c, z))
                out_f, in_f = fib[(c, z)], fib[(z, c)]
                if q is None:
                    if out_f not in succ.get(f'roadm {c}', []) or f'roadm {c}' not in succ.get(in_f, []):
                        res.fail(f'ROADM site: {c}: degree towards {z} is not wired to its fibres')
                else:
                    res.stats['eqpt_rows_on_roadm'] += 1
                    east, west = f'east edfa in {c} to {z}', f'west edfa in {c} to {z}'
                    check_amp(east, q, 'east', f'ROADM {c} towards {z}')
                    check_amp(west, q, 'west', f'ROADM {c} from {z}')
                    if succ.get(f'roadm {c}', []).count(east) != 1 or succ.get(east) != [out_f]:
                        res.fail(f'amplifier placement: the east amplifier of row ({c}, {z}) is not between roadm {c} and the fibre to {z}')
                    if succ.get(in_f) != [west] or succ.get(west) != [f'roadm {c}']:
                        res.fail(f'amplifier placement: the west amplifier of row ({c}, {z}) is not between the fibre from {z} and roadm {c}')
        elif t in ('ILA', 'FUSED'):
            if len(nb) != 2:
                continue
            mids = [u for u in els if u.endswith(f' in {c}') or f' in {c} to ' in u]
            mids = [u for u in mids if els[u]['type'] in ('Edfa', 'Fused')]
            q = next((qq for (a, z), qq in eq_rows.items() if a == c), None) if t == 'ILA' else None
            for src, dst in ((nb[0], nb[1]), (nb[1], nb[0])):
                nxt = succ.get(fib[(src, c)], [])
                if len(nxt) != 1 or nxt[0] not in mids or succ.get(nxt[0]) != [fib[(c, dst)]]:
                    res.fail(f'{t} site: {c}: the fibre from {src} is not followed by one in-line element and then the fibre to {dst}')
                    continue
                mid = nxt[0]
                if t == 'FUSED' and els[mid]['type'] != 'Fused':
                    res.fail(f'FUSED site: {c}: in-line element {mid!r} is {els[mid]["type"]}')
                if t == 'ILA' and q is not None:
                    res.stats['eqpt_rows_on_ila'] += 1
                    # the east settings of row (c, Z) belong to the amplifier that sends towards Z, the west ones to
                    # the amplifier fed from Z
                    if dst == q['z']:
                        check_amp(mid, q, 'east', f'ILA {c} towards {dst}')
                    if src == q['z']:
                        check_amp(mid, q, 'west', f'ILA {c} from {src}')
                if t == 'ILA' and q is None and (els[mid]['type'] != 'Edfa' or 'type_variety' in els[mid]):
                    res.fail(f'ILA site: {c}: in-line element {mid!r} should be an untyped amplifier')
            if len(set(mids)) < 2:
                res.fail(f'{t} site: {c} has fewer than two in-line elements')
    return uids


def run_services(res, case, drv, path, net):
    from gnpy.tools.service_sheet import read_service_sheet, Request_element, Request
    from gnpy.core.elements import Transceiver, Roadm, Edfa, Fiber
    tab = case['tab']
    eq = nets.eqpt(EQPT)
    bidir = bool(case.get('bidir'))
    rows = []
    for s in tab['services']:
        kw = {f: cell(s.get(f)) for _, f in SERVICE_COLS}
        tt = kw['trx_type']
        tkey = tt if isinstance(tt, str) or tt is None else str(int(tt))
        modes = [m['format'] for m in eq['Transceiver'][tkey].mode] if tkey in eq['Transceiver'] else None
        rows.append((kw, modes))
        # one row at a time
        try:
            el = Request_element(Request(**kw), eq, bidir)
            impl, ierr = {'request': el.json[0], 'sync': el.json[1]}, None
        except Exception as e:  # noqa: BLE001
            impl, ierr = None, err_kind(e)
        ans = drv.ask('c20.request', kw=to_wire(kw), modes=modes, bidir=bidir)
        if 'error' in ans or ierr:
            res.cmp_exact('Request_element.error', ierr, ans.get('error', '').split(':')[0] or None)
            res.stats[f'request_{ierr}'] += 1
            continue
        model = {'request': from_wire(ans['request']), 'sync': None if ans['sync'] is None else from_wire(ans['sync'])}
        cmp_tree(res, 'Request_element.json', impl, model)
        monitor_request(res, kw, impl, bidir)
    # whole sheet
    import contextlib
    import io
    try:
        with contextlib.redirect_stdout(io.StringIO()):   # the code print()s its "skipped" notices
            data, derr = read_service_sheet(Path(path), eq, net, network_filename=Path(path), bidir=bidir), None
    except Exception as e:  # noqa: BLE001
        data, derr = None, err_kind(e)
    trx = [n.uid for n in net.nodes() if isinstance(n, Transceiver)]
    cities = case['cities']
    # corresp_names knows as ROADM cities the sites declared 'ROADM' and (since d1cc94be) the sites the converter promoted
    # to ROADM, i.e. every city with a 'roadm <city>' element; every other city (ILA, FUSED) is resolved through
    # amplifier names and the designed network, which the model does not do
    declared = {n['city']: n.get('node_type') for n in tab['nodes']}
    net_uids = {n.uid for n in net.nodes()}
    roadm_cities = [c for c in cities if declared.get(c) == 'ROADM' or f'roadm {c}' in net_uids]
    ambiguous = [c for c in cities if c not in roadm_cities]
    ans = drv.ask('c20.services', rows=[{'kw': to_wire(kw), 'modes': m} for kw, m in rows], bidir=bidir, trx=trx,
                  roadm_cities=roadm_cities, roadm_edfa_uids=[n.uid for n in net.nodes() if isinstance(n, (Roadm, Edfa))],
                  trx_fiber_uids=[n.uid for n in net.nodes() if isinstance(n, (Transceiver, Fiber))], ambiguous=ambiguous)
    res.stats[f'service_sheet_{derr or "ok"}'] += 1
    if 'skip' in ans:
        res.stats['service_sheet_with_ila_route_not_modelled'] += 1
    elif 'error' in ans or derr:
        res.cmp_exact('read_service_sheet.error', derr, ans.get('error', '').split(':')[0] or None)
    else:
        cmp_tree(res, 'read_service_sheet', data, from_wire(ans['value']))
    if data is not None:
        # monitor: one request per row, one synchronisation vector per row that names disjoint requests
        if len(data['path-request']) != len(tab['services']):
            res.fail(f'services: {len(tab["services"])} rows gave {len(data["path-request"])} requests')
        want_sync = [s for s in tab['services'] if cell(s.get('disjoint_from')) is not None]
        groups = [set(v['svec']['request-id-number']) for v in data.get('synchronization', [])]

        def sid(x):
            return x if isinstance(x, str) else str(int(x))
        npairs = 0
        for s_row in want_sync:
            rid = sid(cell(s_row['request_id']))
            dj = cell(s_row['disjoint_from'])
            for other in (dj.split(' | ') if isinstance(dj, str) else [sid(dj)]):
                npairs += 1
                if not any(rid in g and other in g for g in groups):
                    res.fail(f'synchronisation: row {rid} is declared disjoint from {other} but no synchronisation vector '
                             f'contains both (vectors: {[sorted(g) for g in groups]})')
        # one group per row with a non-empty 'disjoint from' cell, naming the row's request first
        if len(groups) != len(want_sync):
            res.fail(f'synchronisation: {len(want_sync)} rows name disjoint requests, {len(groups)} vectors produced')
        covered = set()
        interlocked = 0
        for s_row in want_sync:
            rid = sid(cell(s_row['request_id']))
            dj = cell(s_row['disjoint_from'])
            mine = {rid} | set(dj.split(' | ') if isinstance(dj, str) else [sid(dj)])
            if covered and mine <= covered:
                interlocked += 1
            covered |= mine
        res.stats['disjoint_pairs_checked'] += npairs
        res.stats['rows_covered_by_union_of_earlier_groups'] += interlocked
        res.stats['sheets_with_interlocking_disjointness'] += int(interlocked > 0)
        uids = {n.uid for n in net.nodes()}
        for r in data['path-request']:
            for h in r.get('explicit-route-objects', {}).get('route-object-include-exclude', []):
                if h['num-unnum-hop']['node-id'] not in uids:
                    res.fail(f'route: request {r["request-id"]} names {h["num-unnum-hop"]["node-id"]!r}, which is not in the network')
        monitor_routes(res, tab, path, net, eq, bidir, data)
        # every route entry that names a ROADM site of the converted network must be in the request as that ROADM
        roadm_sites = {c for c in cities if f'roadm {c}' in uids}
        if len(data['path-request']) == len(tab['services']):
            for s_row, r in zip(tab['services'], data['path-request']):
                want = [x for x in (cell(s_row.get('nodes_list')) or '').split(' | ') if x in roadm_sites]
                got = [h['num-unnum-hop']['node-id'] for h in r.get('explicit-route-objects', {}).get('route-object-include-exclude', [])]
                for c in want:
                    res.stats['route_entries_naming_a_roadm_site'] += 1
                    if f'roadm {c}' not in got:
                        promoted = declared.get(c) != 'ROADM'
                        res.fail(f'route: request {r["request-id"]} lists the ROADM site {c!r} but the request does not contain '
                                 f"'roadm {c}' (route in the request: {got})",
                                 cls='unlisted', promoted_site=promoted)


def monitor_routes(res, tab, path, net, eq, bidir, data):
    """(1) every row converts exactly as when it is alone in the sheet; (2) a route entry naming an in-line amplifier site is
    replaced by the amplifier of that site that feeds the next site of THAT row's planned route"""
    import contextlib
    import io
    from gnpy.tools.service_sheet import correct_xls_route_list, Request_element, Request
    if len(data['path-request']) != len(tab['services']):
        return
    succ = {}
    for u, v in net.edges():
        succ.setdefault(u.uid, []).append(v.uid)
    kinds = {n.uid: type(n).__name__ for n in net.nodes()}
    uids = set(kinds)
    deg = {}
    for ln in tab['links']:
        deg[ln['a']] = deg.get(ln['a'], 0) + 1
        deg[ln['z']] = deg.get(ln['z'], 0) + 1
    site_type = {}
    for n in tab['nodes']:
        t = n.get('node_type') if n.get('node_type') in ('ROADM', 'ILA', 'FUSED') else 'ILA'
        site_type[n['city']] = 'ROADM' if (t == 'ILA' and deg.get(n['city']) != 2) else t
    for s_row, r in zip(tab['services'], data['path-request']):
        got = [h['num-unnum-hop']['node-id'] for h in r.get('explicit-route-objects', {}).get('route-object-include-exclude', [])]
        kw = {f: cell(s_row.get(f)) for _, f in SERVICE_COLS}
        try:
            with contextlib.redirect_stdout(io.StringIO()):
                alone = correct_xls_route_list(Path(path), net, [Request_element(Request(**kw), eq, bidir)])[0].nodes_list
        except Exception as e:  # noqa: BLE001
            res.mismatch('correct_xls_route_list(row alone) vs (row within its sheet)', err_kind(e), got, row=str(kw['request_id']))
            continue
        res.stats['rows_compared_with_alone_conversion'] += 1
        # "a row converts as when it is alone" is not in the property text: a correspondence fact (the conversion of a row is
        # a function of the row and the network only), not a monitor failure
        res.cmp_exact('correct_xls_route_list(row alone) vs (row within its sheet)', alone, got, row=str(kw['request_id']))
        pth = s_row.get('_path')
        if not pth:
            continue
        res.stats['planned_routes'] += 1
        for k, c in enumerate(pth[1:-1], start=1):
            amps_here = [u for u in kinds if kinds[u] == 'Edfa' and (u.endswith(f' in {c}') or f' in {c} to ' in u)]
            mine = [u for u in got if u in amps_here]
            if not mine or len(amps_here) != 2:
                # the direction can only be chosen when the site has an amplifier in each direction (an Eqpt side typed
                # 'fused' leaves a single one)
                continue
            res.stats['ila_route_entries_resolved'] += 1
            want = next((x for x in pth[k + 1:] if site_type.get(x) in ('ILA', 'ROADM')), None)
            for u in mine:
                nxt, hops = u, 0
                while hops < 60:
                    hops += 1
                    ss = succ.get(nxt, [])
                    if not ss:
                        break
                    nxt = ss[0]
                    if kinds.get(nxt) in ('Fiber', 'RamanFiber', 'Fused'):
                        continue
                    break
                # the next amplifier/ROADM downstream must belong to a later site of this row's route (the very next site
                # may have a Fused element in this direction)
                at_want = any(nxt == f'roadm {w}' or nxt.endswith(f' in {w}') or f' in {w} to ' in nxt or f'roadm {w}_' in nxt
                              for w in pth[k + 1:])
                if not at_want:
                    res.fail(f'route: row {kw["request_id"]} crosses {c} towards {want}, but its route entry was replaced by {u!r}, '
                             f'whose signal goes on to {nxt!r}')


def monitor_request(res, kw, impl, bidir):
    r = impl['request']
    te = r['path-constraints']['te-bandwidth']
    rid = kw['request_id'] if isinstance(kw['request_id'], str) else str(int(kw['request_id']))
    if r['request-id'] != rid:
        res.fail(f'request id: row id {kw["request_id"]!r} became {r["request-id"]!r}')
    if r['source'] != f'trx {kw["source"]}' or r['destination'] != f'trx {kw["destination"]}' or r['bidirectional'] != bidir:
        res.fail(f'end points: row {kw["source"]}->{kw["destination"]} became {r["source"]}->{r["destination"]}')
    if not close(te['spacing'], kw['spacing'] * 1e9, 1e-12, 0):
        res.fail(f'units: spacing {kw["spacing"]} GHz became {te["spacing"]} Hz')
    if kw['power'] is None:
        if te['output-power'] is not None:
            res.fail('units: no power in the row but a power in the request')
    elif not close(te['output-power'], 10 ** (kw['power'] / 10) * 1e-3, 1e-12, 0):
        res.fail(f'units: power {kw["power"]} dBm became {te["output-power"]} W')
    if (te['max-nb-of-channel'] is None) != (kw['nb_channel'] is None) or \
            (kw['nb_channel'] is not None and te['max-nb-of-channel'] != int(kw['nb_channel'])):
        res.fail(f'units: channel count {kw["nb_channel"]} became {te["max-nb-of-channel"]}')
    bw = 0 if kw['path_bandwidth'] is None else kw['path_bandwidth'] * 1e9
    if not close(te['path_bandwidth'], bw, 1e-12, 0):
        res.fail(f'units: path bandwidth {kw["path_bandwidth"]} Gbit/s became {te["path_bandwidth"]} bit/s')
    route = [] if kw['nodes_list'] is None else kw['nodes_list'].split(' | ')
    got = [h['num-unnum-hop']['node-id'] for h in r.get('explicit-route-objects', {}).get('route-object-include-exclude', [])]
    if got != route:
        res.fail(f'route: row path {route} became {got}')
    strict = kw['is_loose'] not in (None, 'yes', 'Yes', 'YES')
    for h in r.get('explicit-route-objects', {}).get('route-object-include-exclude', []):
        if h['num-unnum-hop']['hop-type'] != ('STRICT' if strict else 'LOOSE'):
            res.fail(f'route: strictness of row ({kw["is_loose"]!r}) became {h["num-unnum-hop"]["hop-type"]}')
    dj = kw['disjoint_from']
    if dj is None:
        if impl['sync'] is not None:
            res.fail('synchronisation: a vector was produced for a row without disjointness entry')
    else:
        names = dj.split(' | ') if isinstance(dj, str) else [str(int(dj))]
        if impl['sync'] is None or impl['sync']['svec']['request-id-number'] != [rid] + names:
            res.fail(f'synchronisation: row disjoint from {names} gave {impl["sync"]}')
    res.stats['requests_checked'] += 1


def shrink_candidates(case):
    if case['kind'] != 'workbook':
        return
    tab = case['tab']
    for key in ('services', 'roadms', 'eqpts'):
        for i in range(len(tab.get(key) or [])):
            c = copy.deepcopy(case)
            del c['tab'][key][i]
            yield c
    if tab.get('services'):
        c = copy.deepcopy(case)
        c['tab']['services'] = None
        yield c
    for i in range(len(tab['links'])):
        for side in ('east', 'west'):
            for f in list(tab['links'][i].get(side, {})):
                c = copy.deepcopy(case)
                del c['tab']['links'][i][side][f]
                yield c
