#!/venv/bin/python
"""Decision procedure of every check (DESIGN.md §1.1).

  ./check <Cxx> quick|thorough          run the check (VERIF_SEED, VERIF_TIER honoured)
  ./check <Cxx> --replay <path>         re-execute a replay file on the current tree
  ./check --audit-all                   (setup) build + axiom audit of every property's theorems

exit 0  property held on everything explored (KNOWN-FINDING lines possible)
exit 1  VIOLATION property=<id> replay=<path> [no-failing-input-found]
exit 2  machinery failure (Lean build / audit / driver), never a verdict about /repo
"""
import fcntl
import glob
import hashlib
import importlib
import json
import multiprocessing as mp
import os
import random
import re
import subprocess
import sys
import time
import traceback
from collections import Counter

HERE = os.path.dirname(os.path.abspath(__file__))
VERIF = os.path.dirname(HERE)
LEAN = os.path.join(VERIF, 'lean')
sys.path.insert(0, HERE)
os.environ.setdefault('GNPY_VERIF', '1')

from common.util import Result, canon_hash  # noqa: E402
from common.driver import Driver, DRIVER  # noqa: E402

ALLOWED_AXIOMS = {'propext', 'Classical.choice', 'Quot.sound'}
FORBIDDEN = re.compile(r'\bsorry\b|\badmit\b|^\s*axiom\s|native_decide|bv_decide|implemented_by|\bunsafe\s|maxHeartbeats\s+0\b',
                       re.M)
TRUSTED_BASE = [
    'Lean 4.33.0 kernel (thorough tier: re-checked by leanchecker)',
    'Mathlib v4.33.0 (single modules imported by GnpyProofs)',
    'axioms allowed and audited per theorem per run: propext, Classical.choice, Quot.sound; no native_decide/bv_decide/'
    'implemented_by/unsafe/sorry (grep on every run)',
    'the hand-written Lean model is tied to /repo only by the correspondence check of this run (seeded sampling; the '
    'distribution is reported in this file)',
    'theorems are over the reals (or Int/Nat/List for discrete models); the code and the model driver compute in '
    'binary64: the rounding gap is absorbed by the class-F tolerance (rel 1e-9) and not proved',
    'Lean compiler/runtime and libm for the driver; numpy/scipy/networkx/openpyxl/libyang as installed; this harness',
]


def log(*a):
    print(*a, flush=True)


# ---------------------------------------------------------------------------------------------------------------------
# Lean side: build, forbidden-token grep, axiom audit
# ---------------------------------------------------------------------------------------------------------------------

def lean_sources():
    files = sorted(glob.glob(os.path.join(LEAN, '**', '*.lean'), recursive=True))
    return [f for f in files if os.sep + '.lake' + os.sep not in f] + [os.path.join(LEAN, 'lakefile.toml')]


def sources_hash():
    h = hashlib.sha256()
    for f in lean_sources():
        h.update(f.encode())
        with open(f, 'rb') as fh:
            h.update(fh.read())
    return h.hexdigest()


def strip_comments(txt):
    txt = re.sub(r'/-.*?-/', '', txt, flags=re.S)
    return re.sub(r'--.*', '', txt)


def grep_forbidden():
    hits = []
    for f in lean_sources():
        if not f.endswith('.lean'):
            continue
        m = FORBIDDEN.search(strip_comments(open(f).read()))
        if m:
            hits.append((os.path.relpath(f, LEAN), m.group(0).strip()))
    return hits


class Machinery(Exception):
    pass


def lake_build():
    os.makedirs(os.path.join(LEAN, '.lake'), exist_ok=True)
    with open(os.path.join(LEAN, '.lake', 'verif.lock'), 'w') as lock:
        fcntl.flock(lock, fcntl.LOCK_EX)
        p = subprocess.run(['lake', 'build'], cwd=LEAN, capture_output=True, text=True)
        if p.returncode != 0:
            raise Machinery('lake build failed:\n' + p.stdout[-4000:] + p.stderr[-2000:])
    if not os.path.exists(DRIVER):
        raise Machinery('model driver missing after build')


def audit(theorems):
    """#print axioms for every theorem; cached by the hash of all Lean sources. Returns {name: [axioms]}"""
    cache_file = os.path.join(LEAN, '.lake', 'audit_cache.json')
    key = sources_hash()
    cache = {}
    if os.path.exists(cache_file):
        try:
            cache = json.load(open(cache_file))
        except Exception:
            cache = {}
    if cache.get('key') != key:
        cache = {'key': key, 'axioms': {}}
    missing = [t for t in theorems if t not in cache['axioms']]
    if missing:
        src = os.path.join(LEAN, '.lake', f'audit_{os.getpid()}.lean')
        with open(src, 'w') as fh:
            fh.write('import GnpyProofs\n' + ''.join(f'#print axioms {t}\n' for t in missing))
        p = subprocess.run(['lake', 'env', 'lean', src], cwd=LEAN, capture_output=True, text=True)
        os.unlink(src)
        out = p.stdout + p.stderr
        for t in missing:
            m = re.search(r"'" + re.escape(t) + r"' depends on axioms: \[([^\]]*)\]", out, flags=re.S)
            if m:
                cache['axioms'][t] = [a.strip() for a in m.group(1).replace('\n', ' ').split(',') if a.strip()]
            elif re.search(r"'" + re.escape(t) + r"' does not depend on any axioms", out):
                cache['axioms'][t] = []
            else:
                raise Machinery(f'axiom audit: theorem {t} not found / not checked:\n{out[-3000:]}')
        with open(cache_file + f'.{os.getpid()}', 'w') as fh:
            json.dump(cache, fh)
        os.replace(cache_file + f'.{os.getpid()}', cache_file)
    res = {t: cache['axioms'][t] for t in theorems}
    bad = {t: a for t, a in res.items() if not set(a) <= ALLOWED_AXIOMS}
    if bad:
        raise Machinery(f'axiom audit: disallowed axioms {bad}')
    return res


def leanchecker(modules):
    p = subprocess.run(['lake', 'env', 'leanchecker'] + modules, cwd=LEAN, capture_output=True, text=True)
    if p.returncode != 0:
        raise Machinery('leanchecker failed: ' + p.stdout[-2000:] + p.stderr[-2000:])
    return True


# ---------------------------------------------------------------------------------------------------------------------
# known findings
# ---------------------------------------------------------------------------------------------------------------------

def load_findings(pid):
    """open: property=<id> class=<cls> <text>   -> {cls: text}   (fixed: entries suppress nothing)"""
    res = {}
    path = os.path.join(VERIF, 'known_findings.txt')
    if os.path.exists(path):
        for line in open(path):
            m = re.match(r'open:\s+property=(\S+)\s+class=(\S+)\s+(.*)', line.strip())
            if m and m.group(1) == pid:
                res[m.group(2)] = m.group(3)
    return res


# ---------------------------------------------------------------------------------------------------------------------
# running cases
# ---------------------------------------------------------------------------------------------------------------------

_mod = None
_drv = None


def load_module(pid):
    return importlib.import_module('props.' + pid.lower())


def _init_worker(pid):
    global _mod, _drv
    _mod = load_module(pid)
    _drv = Driver()


def run_case(mod, drv, case):
    try:
        res = mod.run(case, drv)
    except Exception:  # an exception escaping the property module: the implementation (or the model) did something
        res = Result()  # the harness did not foresee -> counts as a broken correspondence, never silently dropped
        res.mismatch('harness-exception', traceback.format_exc()[-1500:], None)
    if res.key is None:
        res.key = canon_hash(case)
    return res


def _work(args):
    pid, seed, tier, idx, widen = args
    out = []
    for i in idx:
        rng = random.Random(f'{pid}:{seed}:{i}:{int(widen)}')
        try:
            case = _mod.gen(rng, tier, widen)
        except Exception:
            r = Result()
            r.mismatch('generator-exception', traceback.format_exc()[-1500:], None)
            r.key = f'gen{i}'
            out.append((i, None, r.to_json()))
            continue
        r = run_case(_mod, _drv, case)
        keep = case if (r.mismatches or r.failures or i < 4) else None
        out.append((i, keep, r.to_json()))
    return out


def run_generated(pid, seed, tier, n, widen, workers, deadline=None):
    chunk = max(1, min(50, n // (workers * 4) or 1))
    jobs = [(pid, seed, tier, list(range(a, min(n, a + chunk))), widen) for a in range(0, n, chunk)]
    results = []
    if workers <= 1:
        _init_worker(pid)
        for j in jobs:
            results.extend(_work(j))
            if deadline and time.time() > deadline:
                break
    else:
        with mp.get_context('fork').Pool(workers, initializer=_init_worker, initargs=(pid,)) as pool:
            for out in pool.imap_unordered(_work, jobs):
                results.extend(out)
                if deadline and time.time() > deadline:
                    pool.terminate()
                    break
    results.sort(key=lambda t: t[0])
    return results


def regen_case(mod, pid, seed, tier, i, widen):
    return mod.gen(random.Random(f'{pid}:{seed}:{i}:{int(widen)}'), tier, widen)


# ---------------------------------------------------------------------------------------------------------------------
# shrinking + replay files
# ---------------------------------------------------------------------------------------------------------------------

def shrink(mod, drv, case, pred, budget=300):
    """greedy delta-debugging with the module's own candidate generator (smaller cases first)"""
    if not hasattr(mod, 'shrink_candidates'):
        return case
    improved = True
    while improved and budget > 0:
        improved = False
        for cand in mod.shrink_candidates(case):
            budget -= 1
            if budget <= 0:
                break
            try:
                r = run_case(mod, drv, cand)
            except Exception:
                continue
            if pred(r):
                case = cand
                improved = True
                break
    return case


def write_replay(pid, seed, tier, case, res, kind, extra=None):
    d = os.path.join(VERIF, 'replays', pid)
    os.makedirs(d, exist_ok=True)
    body = {'property_id': pid, 'seed': seed, 'tier': tier, 'kind': kind, 'case': case,
            'failures': res.failures if res else [], 'mismatches': res.mismatches if res else []}
    if extra:
        body.update(extra)
    name = canon_hash(body) + '.json'
    path = os.path.join(d, name)
    with open(path, 'w') as fh:
        json.dump(body, fh, indent=1, default=str)
    return os.path.relpath(path, VERIF)


# ---------------------------------------------------------------------------------------------------------------------
# main
# ---------------------------------------------------------------------------------------------------------------------

def main(argv):
    if len(argv) >= 1 and argv[0] == '--audit-all':
        lake_build()
        hits = grep_forbidden()
        if hits:
            log('forbidden tokens in Lean sources:', hits)
            return 2
        allt = []
        for f in sorted(glob.glob(os.path.join(HERE, 'props', 'c[0-9][0-9].py'))):
            m = load_module(os.path.basename(f)[:-3].upper())
            allt += list(m.THEOREMS)
        ax = audit(allt)
        log(f'audited {len(ax)} theorems; axioms used: {sorted({a for v in ax.values() for a in v})}')
        return 0
    if len(argv) < 2:
        log(__doc__)
        return 2
    pid = argv[0].upper()
    t0 = time.time()
    seed = int(os.environ.get('VERIF_SEED', '0'))
    replay_path = None
    if argv[1] == '--replay':
        replay_path = argv[2]
        tier = 'quick'
    else:
        tier = os.environ.get('VERIF_TIER') or argv[1]
    if tier not in ('quick', 'thorough'):
        log('tier must be quick or thorough')
        return 2
    mod = load_module(pid)

    # 0. Lean side ---------------------------------------------------------------------------------------------------
    try:
        lake_build()
        hits = grep_forbidden()
        if hits:
            raise Machinery(f'forbidden tokens in Lean sources: {hits}')
        axioms = audit(list(mod.THEOREMS))
        checker_cmd = 'cd lean && lake build && lake env lean <#print axioms of every theorem>'
        if tier == 'thorough' and not replay_path and not os.environ.get('VERIF_NO_LEANCHECKER'):
            leanchecker(list(mod.LEAN_MODULES))
            checker_cmd += ' && lake env leanchecker ' + ' '.join(mod.LEAN_MODULES)
    except Machinery as e:
        log(f'MACHINERY-FAILURE property={pid}: {e}')
        return 2

    known = load_findings(pid)
    drv = Driver()

    if replay_path:
        body = json.load(open(replay_path if os.path.isabs(replay_path) else os.path.join(VERIF, replay_path)))
        r = run_case(mod, drv, body['case'])
        log(json.dumps(r.to_json(), indent=1, default=str)[:6000])
        unl = [f for f in r.failures if f['cls'] not in known]
        if unl or r.mismatches:
            log(f'VIOLATION property={pid} replay={replay_path}' + ('' if unl else ' no-failing-input-found'))
            return 1
        for f in r.failures:
            log(f'KNOWN-FINDING: property={pid} {f["cls"]}: {known[f["cls"]]}')
        return 0

    # 1. corpus, 2./3. generated cases ------------------------------------------------------------------------------------
    n = mod.N[tier]
    workers = int(os.environ.get('VERIF_WORKERS', '0')) or (min(8, os.cpu_count() or 1) if tier == 'quick'
                                                            else (os.cpu_count() or 1))
    all_results = []   # (origin, case-or-None, Result)
    corpus_files = sorted(glob.glob(os.path.join(VERIF, 'corpus', pid, '*.json')))
    for cf in corpus_files:
        body = json.load(open(cf))
        all_results.append((os.path.relpath(cf, VERIF), body['case'], run_case(mod, drv, body['case'])))
    if hasattr(mod, 'exhaustive') and tier == 'thorough':
        k = 0
        for case in mod.exhaustive():
            r = run_case(mod, drv, case)
            all_results.append((f'exh{k}', case if (r.mismatches or r.failures or k < 2) else None, r))
            k += 1
    gen_results = run_generated(pid, seed, tier, n, False, workers)
    for i, case, rj in gen_results:
        all_results.append((f'gen{i}', case, Result.from_json(rj)))

    # 4. verdict ---------------------------------------------------------------------------------------------------------------
    def collect(results):
        fails, mism = [], []
        for origin, case, r in results:
            if r.failures:
                fails.append((origin, case, r))
            if r.mismatches:
                mism.append((origin, case, r))
        return fails, mism

    fails, mism = collect(all_results)
    unlisted = [(o, c, r) for (o, c, r) in fails if any(f['cls'] not in known for f in r.failures)]
    widened = 0
    if mism and not unlisted:
        # broken correspondence, no failing input yet: widened search (10x cases, boundary-biased generator)
        wres = run_generated(pid, seed + 1000003, tier, 10 * mod.N['quick'], True, os.cpu_count() or 1,
                             deadline=time.time() + 900)
        widened = len(wres)
        wr = [(f'wide{i}', case, Result.from_json(rj)) for i, case, rj in wres]
        all_results.extend(wr)
        fails, mism = collect(all_results)
        unlisted = [(o, c, r) for (o, c, r) in fails if any(f['cls'] not in known for f in r.failures)]

    exit_code = 0
    lines = []
    violations = 0
    if unlisted:
        # one replay per distinct finding class / first words of the failure
        seen = {}
        for o, c, r in sorted(unlisted, key=lambda t: len(json.dumps(t[1], default=str)) if t[1] is not None else 10**9):
            for f in r.failures:
                if f['cls'] in known:
                    continue
                k = f['cls'] + '|' + f['what'].split(':')[0]
                if k not in seen and len(seen) < 6:
                    seen[k] = (o, c, r, f)
        for k, (o, c, r, f) in seen.items():
            if c is None:
                continue
            what0 = f['what'].split(':')[0]
            c2 = shrink(mod, drv, c, lambda rr: any(g['cls'] == f['cls'] and g['what'].split(':')[0] == what0
                                                    for g in rr.failures))
            r2 = run_case(mod, drv, c2)
            if not r2.failures:
                c2, r2 = c, r
            path = write_replay(pid, seed, tier, c2, r2, 'property-failure-on-implementation', {'origin': o})
            lines.append(f'VIOLATION property={pid} replay={path}')
            violations += 1
        exit_code = 1
    elif mism:
        o, c, r = sorted(mism, key=lambda t: len(json.dumps(t[1], default=str)) if t[1] is not None else 10**9)[0]
        fn0 = r.mismatches[0]['fn']
        c2 = shrink(mod, drv, c, lambda rr: any(m['fn'] == fn0 for m in rr.mismatches)) if c is not None else c
        r2 = run_case(mod, drv, c2) if c2 is not None else r
        if not r2.mismatches:
            c2, r2 = c, r
        path = write_replay(pid, seed, tier, c2, r2, 'correspondence-broken', {
            'origin': o, 'correspondence': sorted({m['fn'] for _, _, rr in mism for m in rr.mismatches}),
            'theorems_no_longer_tied_to_the_code': list(mod.THEOREMS),
            'mismatching_cases': len(mism), 'widened_search_cases': widened,
            'note': 'the model functions named under "correspondence" no longer compute what the implementation '
                    'computes; the theorems about them therefore no longer show the property for this code; the '
                    'property monitor found no concrete failing input'})
        lines.append(f'VIOLATION property={pid} replay={path} no-failing-input-found')
        violations += 1
        exit_code = 1
    hit_known = Counter()
    for o, c, r in fails:
        for f in r.failures:
            if f['cls'] in known:
                hit_known[f['cls']] += 1
    for cls, cnt in hit_known.items():
        lines.append(f'KNOWN-FINDING: property={pid} {cls}: {known[cls]} ({cnt} case(s) this run)')

    # 5. evidence --------------------------------------------------------------------------------------------------------------
    stats = Counter()
    keys_nontrivial = set()
    compared = ill = 0
    for o, c, r in all_results:
        stats.update(r.stats)
        compared += r.compared
        ill += r.ill
        if r.nontrivial:
            keys_nontrivial.add(r.key)
    samples = [c for (o, c, r) in all_results if c is not None][:3]
    coverage = {
        'obligations': len(mod.THEOREMS), 'discharged': len(axioms),
        'checker_cmd': checker_cmd,
        'trusted_base': TRUSTED_BASE + list(getattr(mod, 'TRUSTED', [])),
        'theorems': {t: axioms[t] for t in mod.THEOREMS},
        'partial_statements': list(getattr(mod, 'PARTIAL', [])),
        'model_scope': getattr(mod, 'MODEL_SCOPE', ''),
        'evaluations': len(all_results), 'distinct_nontrivial': len(keys_nontrivial),
        'rule': mod.RULE, 'samples': samples,
        'exhaustive': False,
        'correspondence': {'values_compared': compared, 'mismatching_cases': len(mism),
                           'ill_conditioned_skipped': ill, 'corpus_cases': len(corpus_files),
                           'widened_search_cases': widened, 'model_driver_calls': drv.calls},
        'monitor': {'failing_cases': len(fails), 'unlisted_failing_cases': len(unlisted),
                    'known_findings_hit': dict(hit_known)},
        'distribution': dict(sorted(stats.items())),
        'workers': workers,
    }
    ev = {'property_id': pid, 'tier': tier, 'seed': seed, 'level': 'proof', 'coverage': coverage,
          'assumptions': TRUSTED_BASE + list(getattr(mod, 'TRUSTED', [])), 'wall_s': round(time.time() - t0, 2),
          'violations': violations}
    os.makedirs(os.path.join(VERIF, 'evidence'), exist_ok=True)
    tmp = os.path.join(VERIF, 'evidence', f'.{pid}.{os.getpid()}.tmp')
    with open(tmp, 'w') as fh:
        json.dump(ev, fh, indent=1, default=str)
    os.replace(tmp, os.path.join(VERIF, 'evidence', f'{pid}.json'))
    for line in lines:
        log(line)
    log(f'{pid} {tier} seed={seed}: {len(all_results)} cases ({len(keys_nontrivial)} distinct non-trivial), '
        f'{compared} values compared with the model, {len(mism)} mismatching, {len(fails)} monitor-failing, '
        f'{len(mod.THEOREMS)} theorems audited, {ev["wall_s"]} s -> exit {exit_code}')
    drv.close()
    return exit_code


if __name__ == '__main__':
    try:
        sys.exit(main(sys.argv[1:]))
    except Machinery as e:
        log(f'MACHINERY-FAILURE: {e}')
        sys.exit(2)
    except Exception:
        traceback.print_exc()
        sys.exit(2)
