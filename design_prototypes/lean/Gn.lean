import Model
structure Ch (α : Type) where
  f : α
  b : α
  p : α
structure Fib (α : Type) where
  alpha : α
  beta2 : α
  gamma : α
  len : α

section
variable {α : Type} [Add α] [Sub α] [Mul α] [Div α] [Neg α] [NatCast α] [LT α] [LE α]
  [DecidableLT α] [DecidableLE α] [DecidableEq α] [Transc α]

def absv (x : α) : α := if x < ((0:Nat):α) then -x else x
def sumL (l : List α) : α := l.foldr (· + ·) ((0:Nat):α)
def pi_ : α := Transc.asinh ((0:Nat):α) + ((3:Nat):α)  -- placeholder constant for prototype
def psi (fb : Fib α) (ci cj : Ch α) : α :=
  let la := ((1:Nat):α) / fb.alpha
  let le := (((1:Nat):α) - Transc.exp (-(fb.alpha * fb.len))) / fb.alpha
  let k := pi_ * pi_ * la * absv fb.beta2 * ci.b
  let df := cj.f - ci.f
  (Transc.asinh (k * (df + cj.b / ((2:Nat):α))) - Transc.asinh (k * (df - cj.b / ((2:Nat):α)))) / ((2:Nat):α)
    * (le * le / (((2:Nat):α) * pi_ * absv fb.beta2 * la))
def wgt (ci cj : Ch α) : α := if ci.f = cj.f then ((16:Nat):α) / ((27:Nat):α) else ((32:Nat):α) / ((27:Nat):α)
def term (fb : Fib α) (ci cj : Ch α) : α :=
  fb.gamma * fb.gamma * wgt ci cj * psi fb ci cj * ci.p * (cj.p * cj.p) / (cj.b * cj.b)
def nliOf (fb : Fib α) (cs : List (Ch α)) (ci : Ch α) : α := sumL (cs.map (term fb ci))
def nli (fb : Fib α) (cs : List (Ch α)) : List α := cs.map (nliOf fb cs)
def scale (k : α) (c : Ch α) : Ch α := { c with p := k * c.p }
end
