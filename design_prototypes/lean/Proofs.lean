import Model
import Mathlib.Analysis.SpecialFunctions.Arsinh
import Mathlib.Analysis.SpecialFunctions.Pow.Real
import Mathlib.Analysis.SpecialFunctions.Log.Basic
import Mathlib.Tactic.Ring
import Mathlib.Tactic.Linarith
import Mathlib.Tactic.FieldSimp
import Mathlib.Tactic.Positivity
import Mathlib.Tactic.NormNum

noncomputable instance : Transc ℝ := ⟨Real.exp, Real.log, Real.sqrt, Real.arsinh⟩

namespace Chan
def Inv (c : Chan ℝ) : Prop := 0 < c.p ∧ 0 ≤ c.s ∧ 0 ≤ c.a ∧ 0 ≤ c.n ∧ c.s + c.a + c.n = 1

theorem addAse_inv (c : Chan ℝ) (e : ℝ) (h : c.Inv) (he : 0 ≤ e) : (c.addAse e).Inv := by
  obtain ⟨hp, hs, ha, hn, hsum⟩ := h
  have hp' : 0 < c.p + e := by linarith
  refine ⟨?_, ?_, ?_, ?_, ?_⟩ <;> simp only [addAse]
  · exact hp'
  · positivity
  · positivity
  · positivity
  · field_simp
    nlinarith [hsum]

theorem addNli_inv (c : Chan ℝ) (x : ℝ) (h : c.Inv) (hx0 : 0 ≤ x) (hx : x ≤ c.p) : (c.addNli x).Inv := by
  obtain ⟨hp, hs, ha, hn, hsum⟩ := h
  have hr0 : 0 ≤ x / c.p := by positivity
  have hr1 : x / c.p ≤ 1 := by rw [div_le_one hp]; exact hx
  refine ⟨?_, ?_, ?_, ?_, ?_⟩ <;> simp only [addNli, Nat.cast_one]
  · exact hp
  · exact mul_nonneg hs (by linarith)
  · exact mul_nonneg ha (by linarith)
  · have := mul_nonneg hn (show (0:ℝ) ≤ 1 - x / c.p by linarith); linarith
  · nlinarith [hsum]
end Chan

theorem db2lin_lin2db (x : ℝ) (hx : 0 < x) : db2lin (lin2db x) = x := by
  simp only [db2lin, lin2db, Transc.exp, Transc.log, Nat.cast_ofNat]
  have h10 : Real.log 10 ≠ 0 := by
    have : (0:ℝ) < Real.log 10 := Real.log_pos (by norm_num)
    exact ne_of_gt this
  rw [show (10 * (Real.log x / Real.log 10) / 10 * Real.log 10) = Real.log x by field_simp]
  exact Real.exp_log hx

theorem db2lin_add (x y : ℝ) : db2lin (x + y) = db2lin x * db2lin y := by
  simp only [db2lin, Transc.exp, Transc.log, Nat.cast_ofNat]
  rw [← Real.exp_add]; congr 1; ring

theorem roadm_never_amplifies (t i : ℝ) : roadmOut t i ≤ i := by
  unfold roadmOut smin; split <;> linarith

#print axioms Chan.addAse_inv
#print axioms db2lin_lin2db
