abbrev V := Nat
structure Graph where
  succ : V → List V

/-- p is a walk following edges -/
def IsWalk (g : Graph) : List V → Prop
  | [] => False
  | [_] => True
  | u :: v :: rest => v ∈ g.succ u ∧ IsWalk g (v :: rest)

def IsSimplePath (g : Graph) (s t : V) (avoid : List V) (p : List V) : Prop :=
  p.head? = some s ∧ p.getLast? = some t ∧ IsWalk g p ∧ p.Nodup ∧ (∀ x ∈ p, x ∉ avoid)

def pathsFrom (g : Graph) (t : V) : Nat → V → List V → List (List V)
  | 0, _, _ => []
  | fuel+1, u, vis =>
    if u ∈ vis then [] else
    if u = t then [[t]] else
      ((g.succ u).filter (fun v => v ∉ u :: vis)).flatMap
        (fun v => (pathsFrom g t fuel v (u :: vis)).map (u :: ·))

theorem pathsFrom_sound (g : Graph) (t : V) : ∀ (fuel : Nat) (u : V) (vis : List V) (p : List V),
    p ∈ pathsFrom g t fuel u vis → IsSimplePath g u t vis p := by
  intro fuel
  induction fuel with
  | zero => intro u vis p h; simp [pathsFrom] at h
  | succ n ih =>
    intro u vis p h
    unfold pathsFrom at h
    split at h
    · simp at h
    next hu =>
      split at h
      next hut =>
        subst hut
        simp at h; subst h
        refine ⟨rfl, rfl, trivial, by simp, ?_⟩
        intro x hx; simp at hx; subst hx; exact hu
      next hut =>
        simp only [List.mem_flatMap, List.mem_filter, List.mem_map] at h
        obtain ⟨v, ⟨hv, hvn⟩, q, hq, rfl⟩ := h
        have := ih v (u :: vis) q hq
        obtain ⟨h1, h2, h3, h4, h5⟩ := this
        cases q with
        | nil => simp at h1
        | cons q0 qs =>
          simp at h1; subst h1
          refine ⟨rfl, ?_, ⟨hv, h3⟩, ?_, ?_⟩
          · simpa [List.getLast?_cons_cons] using h2
          · refine List.nodup_cons.2 ⟨?_, h4⟩
            intro hmem; exact (h5 u hmem) (by simp)
          · intro x hx
            rcases List.mem_cons.1 hx with rfl | hx
            · exact hu
            · intro hxa; exact (h5 x hx) (by simp [hxa])

theorem pathsFrom_complete (g : Graph) (t : V) : ∀ (fuel : Nat) (u : V) (vis : List V) (p : List V),
    IsSimplePath g u t vis p → p.length ≤ fuel → p ∈ pathsFrom g t fuel u vis := by
  intro fuel
  induction fuel with
  | zero =>
    intro u vis p h hl
    obtain ⟨h1, _⟩ := h
    cases p <;> simp_all
  | succ n ih =>
    intro u vis p h hl
    obtain ⟨h1, h2, h3, h4, h5⟩ := h
    cases p with
    | nil => simp at h1
    | cons p0 ps =>
      simp at h1; subst h1
      unfold pathsFrom
      have hu : p0 ∉ vis := h5 p0 (by simp)
      simp only [hu, if_false]
      cases ps with
      | nil =>
        simp at h2; subst h2; simp
      | cons v rest =>
        have hne : p0 ≠ t := by
          intro he; subst he
          have : (p0 :: v :: rest).getLast? = some p0 := h2
          have hmem : p0 ∈ v :: rest := by
            have := List.getLast?_cons_cons (a := p0) (b := v) (l := rest) ▸ this
            exact List.mem_of_getLast? this
          exact (List.nodup_cons.1 h4).1 hmem
        simp only [hne, if_false, List.mem_flatMap, List.mem_filter, List.mem_map]
        obtain ⟨hv, hw⟩ := h3
        have hnd := List.nodup_cons.1 h4
        refine ⟨v, ⟨hv, ?_⟩, v :: rest, ?_, rfl⟩
        · simp only [decide_eq_true_eq]
          intro hm
          rcases List.mem_cons.1 hm with rfl | hm
          · exact hnd.1 (by simp)
          · exact h5 v (by simp) hm
        · apply ih
          · refine ⟨rfl, ?_, hw, hnd.2, ?_⟩
            · simpa [List.getLast?_cons_cons] using h2
            · intro x hx hxa
              rcases List.mem_cons.1 hxa with rfl | hxa
              · exact hnd.1 hx
              · exact h5 x (List.mem_cons_of_mem _ hx) hxa
          · simp at hl ⊢; omega
#print axioms pathsFrom_sound
#print axioms pathsFrom_complete
