import Gn
import Mathlib.Analysis.SpecialFunctions.Arsinh
import Mathlib.Tactic.Ring
import Mathlib.Tactic.Linarith
import Mathlib.Tactic.Positivity
import Mathlib.Algebra.BigOperators.Group.List.Basic
import Mathlib.Data.List.Perm.Basic

noncomputable instance : Transc ℝ := ⟨Real.exp, Real.log, Real.sqrt, Real.arsinh⟩
noncomputable instance : DecidableEq ℝ := Classical.decEq ℝ

theorem sumL_eq (l : List ℝ) : sumL l = l.sum := by
  induction l with
  | nil => simp [sumL]
  | cons x xs ih => simp only [sumL, List.foldr_cons, List.sum_cons] at *; rw [ih]

theorem term_scale (fb : Fib ℝ) (k : ℝ) (ci cj : Ch ℝ) :
    term fb (scale k ci) (scale k cj) = k^3 * term fb ci cj := by
  simp only [term, scale, wgt, psi]
  ring

theorem sumL_mul (k : ℝ) (l : List ℝ) : sumL (l.map (k * ·)) = k * sumL l := by
  rw [sumL_eq, sumL_eq]; induction l with
  | nil => simp
  | cons x xs ih => simp [List.sum_cons, ih, mul_add]

theorem nli_cubic (fb : Fib ℝ) (k : ℝ) (cs : List (Ch ℝ)) :
    nli fb (cs.map (scale k)) = (nli fb cs).map (k^3 * ·) := by
  simp only [nli, nliOf, List.map_map]
  apply List.map_congr_left
  intro ci _
  simp only [Function.comp, nliOf]
  rw [← sumL_mul]
  congr 1
  simp only [List.map_map]
  apply List.map_congr_left
  intro cj _
  simp [Function.comp, term_scale]

theorem nliOf_perm (fb : Fib ℝ) (cs cs' : List (Ch ℝ)) (h : cs.Perm cs') (ci : Ch ℝ) :
    nliOf fb cs ci = nliOf fb cs' ci := by
  simp only [nliOf, sumL_eq]
  exact (h.map _).sum_eq
#print axioms nli_cubic
#print axioms nliOf_perm
