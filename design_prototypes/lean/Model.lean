/-- transcendental interface; core-only -/
class Transc (α : Type) where
  exp : α → α
  log : α → α
  sqrt : α → α
  asinh : α → α

instance : NatCast Float := ⟨Float.ofNat⟩
instance : Transc Float := ⟨Float.exp, Float.log, Float.sqrt, Float.asinh⟩

structure Chan (α : Type) where
  p : α
  s : α
  a : α
  n : α
deriving Repr

section
variable {α : Type} [Add α] [Sub α] [Mul α] [Div α] [Neg α] [NatCast α] [LT α] [LE α]
  [DecidableLT α] [DecidableLE α] [Transc α]

def nat (k : Nat) : α := (k : α)

namespace Chan
def addAse (c : Chan α) (e : α) : Chan α :=
  let p' := c.p + e
  { p := p', s := c.s * (c.p / p'), n := c.n * (c.p / p'), a := (c.a * c.p + e) / p' }
def addNli (c : Chan α) (x : α) : Chan α :=
  let r := x / c.p
  { c with s := c.s * ((1:Nat) - r), a := c.a * ((1:Nat) - r), n := c.n * ((1:Nat) - r) + r }
end Chan
def smin (x y : α) : α := if x ≤ y then x else y
def db2lin (x : α) : α := Transc.exp (x / (10:Nat) * Transc.log ((10:Nat) : α))
def lin2db (x : α) : α := (10:Nat) * (Transc.log x / Transc.log ((10:Nat) : α))
/-- ROADM per-channel output power in dBm -/
def roadmOut (target inp : α) : α := smin target inp
end

#eval (Chan.addAse ({p := 1e-3, s := 1, a := 0, n := 0} : Chan Float) 1e-6)
#eval (Chan.addNli ({p := 1e-3, s := 1, a := 0, n := 0} : Chan Float) 1e-6)
#eval db2lin (3.0 : Float)
#eval lin2db (2.0 : Float)
