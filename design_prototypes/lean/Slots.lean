abbrev Cells := List Bool   -- true = free

def rangeFree (c : Cells) (a len : Nat) : Bool := (List.range len).all (fun k => c.getD (a + k) false)
def setOcc (c : Cells) (a len : Nat) : Cells :=
  c.mapIdx (fun i v => if a ≤ i ∧ i < a + len then false else v)
def assign (c : Cells) (a len : Nat) : Option Cells :=
  if len > 0 ∧ a + len ≤ c.length ∧ rangeFree c a len then some (setOcc c a len) else none

structure Req where
  a : Nat
  len : Nat

def step (c : Cells) (r : Req) : Cells × Bool :=
  match assign c r.a r.len with
  | some c' => (c', true)
  | none => (c, false)

def run (c : Cells) : List Req → Cells × List Req
  | [] => (c, [])
  | r :: rs =>
    let s := step c r
    let t := run s.1 rs
    (t.1, if s.2 then r :: t.2 else t.2)

def disj (r s : Req) : Prop := r.a + r.len ≤ s.a ∨ s.a + s.len ≤ r.a

theorem step_blocked_unchanged (c : Cells) (r : Req) (h : (step c r).2 = false) : (step c r).1 = c := by
  unfold step at *; split <;> simp_all

theorem setOcc_get (c : Cells) (a len i : Nat) :
    (setOcc c a len).getD i false = if a ≤ i ∧ i < a + len then false else c.getD i false := by
  unfold setOcc
  by_cases hi : i < c.length
  · simp only [List.getD, List.getElem?_mapIdx, List.getElem?_eq_getElem hi, Option.map_some, Option.getD_some]
  · simp [List.getD, hi]

theorem rangeFree_iff (c : Cells) (a len : Nat) :
    rangeFree c a len = true ↔ ∀ i, a ≤ i → i < a + len → c.getD i false = true := by
  unfold rangeFree
  simp only [List.all_eq_true, List.mem_range]
  constructor
  · intro h i h1 h2
    have := h (i - a) (by omega)
    rwa [show a + (i - a) = i by omega] at this
  · intro h k hk
    exact h (a + k) (by omega) (by omega)

def Occ (c : Cells) (r : Req) : Prop := ∀ i, r.a ≤ i → i < r.a + r.len → c.getD i false = false
def WasFree (c : Cells) (r : Req) : Prop := ∀ i, r.a ≤ i → i < r.a + r.len → c.getD i false = true

theorem step_accept (c : Cells) (r : Req) (h : (step c r).2 = true) :
    0 < r.len ∧ WasFree c r ∧ Occ (step c r).1 r ∧ (∀ i, (step c r).1.getD i false = if r.a ≤ i ∧ i < r.a + r.len then false else c.getD i false) := by
  unfold step at *
  split at h
  next c' hA =>
    unfold assign at hA
    split at hA
    next hc =>
      obtain ⟨hlen, _, hfree⟩ := hc
      have hc' : c' = setOcc c r.a r.len := by simpa using hA.symm
      subst hc'
      refine ⟨hlen, (rangeFree_iff _ _ _).1 hfree, ?_, fun i => setOcc_get _ _ _ _⟩
      intro i h1 h2; simp only; rw [setOcc_get]; simp [h1, h2]
    next => simp at hA
  next => simp at h

theorem run_spec (rs : List Req) : ∀ (c : Cells),
    (∀ r ∈ (run c rs).2, Occ (run c rs).1 r ∧ WasFree c r ∧ 0 < r.len)
    ∧ (∀ i, c.getD i false = false → (run c rs).1.getD i false = false)
    ∧ List.Pairwise disj (run c rs).2 := by
  induction rs with
  | nil => intro c; simp [run]
  | cons r rs ih =>
    intro c
    simp only [run]
    obtain ⟨ih1, ih2, ih3⟩ := ih (step c r).1
    cases hs : (step c r).2 with
    | false =>
      have hu := step_blocked_unchanged c r hs
      rw [hu] at ih1 ih2 ih3 ⊢
      simpa using ⟨ih1, ih2, ih3⟩
    | true =>
      obtain ⟨hlen, hfree, hocc, hget⟩ := step_accept c r hs
      have hmono : ∀ i, c.getD i false = false → (step c r).1.getD i false = false := by
        intro i hi; rw [hget]; split <;> simp_all
      simp only [if_true]
      refine ⟨?_, ?_, ?_⟩
      · intro s hs'
        rcases List.mem_cons.1 hs' with rfl | hs'
        · exact ⟨fun i h1 h2 => ih2 i (hocc i h1 h2), hfree, hlen⟩
        · obtain ⟨o, f, l⟩ := ih1 s hs'
          refine ⟨o, ?_, l⟩
          intro i h1 h2
          have := f i h1 h2
          rw [hget] at this
          split at this <;> simp_all
      · intro i hi; exact ih2 i (hmono i hi)
      · refine List.pairwise_cons.2 ⟨?_, ih3⟩
        intro s hs'
        obtain ⟨_, f, l⟩ := ih1 s hs'
        refine Classical.byContradiction fun hnd => ?_
        unfold disj at hnd
        have hex : ∃ i, r.a ≤ i ∧ i < r.a + r.len ∧ s.a ≤ i ∧ i < s.a + s.len := by
          refine ⟨max r.a s.a, ?_, ?_, ?_, ?_⟩ <;> omega
        obtain ⟨i, h1, h2, h3, h4⟩ := hex
        have := f i h3 h4
        rw [hocc i h1 h2] at this
        exact Bool.false_ne_true this
#print axioms run_spec
