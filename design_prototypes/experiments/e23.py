import logging; logging.disable(logging.CRITICAL)
import random, numpy as np
from mknet import *
from gnpy.core.info import create_arbitrary_spectral_information
from gnpy.core.utils import watt2dbm, lin2db
from gnpy.core import elements as E
eq0 = load_equipment(EX/'eqpt_config.json')
rnd=random.Random(8); bad=0; n=0
for trial in range(120):
    pol=rnd.choice(['target_pch_out_db','target_psd_out_mWperGHz','target_out_mWperSlotWidth'])
    val={'target_pch_out_db':rnd.choice([-20,-17.3,-25]),'target_psd_out_mWperGHz':rnd.choice([3.125e-4,5e-4]),'target_out_mWperSlotWidth':rnd.choice([2e-4,3e-4])}[pol]
    params={pol:val}
    dpol=rnd.choice([None,'per_degree_pch_out_db','per_degree_psd_out_mWperGHz','per_degree_psd_out_mWperSlotWidth'])
    dval=None
    if dpol:
        dval={'per_degree_pch_out_db':rnd.choice([-19,-22.5]),'per_degree_psd_out_mWperGHz':rnd.choice([2.5e-4,4e-4]),'per_degree_psd_out_mWperSlotWidth':rnd.choice([1.5e-4,2.5e-4])}[dpol]
    topo=linear(spans=(80,))
    net=network_from_json(copy.deepcopy(topo),copy.deepcopy(eq0))
    # booster name after design
    for e in topo['elements']:
        if e['uid']=='roadm A':
            e['params']=dict(params)
            if dpol: e['params'][dpol]={'Edfa_booster_roadm A_to_fiber ab 0':dval}
    eq=copy.deepcopy(eq0)
    try:
        net=network_from_json(copy.deepcopy(topo),eq); net,req,ref=designed_network(eq,net,source='trx A',destination='trx B')
    except Exception as e:
        print('ERR',type(e).__name__,e,params,dpol); continue
    roadm=next(x for x in net.nodes() if x.uid=='roadm A')
    k=rnd.randint(2,12); f=192e12; fr=[];sw=[];br=[];pw=[];off=[]
    for i in range(k):
        s=rnd.choice([50e9,75e9,100e9]); b=rnd.choice([32e9,45e9]) if s<75e9 else rnd.choice([32e9,64e9])
        f+=s/2; fr.append(f); f+=s/2; sw.append(s); br.append(b); pw.append(1e-3*10**(rnd.uniform(-30,3)/10)); off.append(rnd.choice([0,0,1,-2,3]))
    si=create_arbitrary_spectral_information(fr,pw,br,tx_osnr=40,slot_width=sw,roll_off=0.15,tx_power=pw,delta_pdb_per_channel=off)
    r=copy.deepcopy(roadm)
    pin=watt2dbm(si.pch)
    out=r(si,degree='Edfa_booster_roadm A_to_fiber ab 0',from_degree='trx A')
    pout=watt2dbm(out.pch)
    # expected target
    if dpol=='per_degree_pch_out_db': tgt=np.full(k,dval)
    elif dpol=='per_degree_psd_out_mWperGHz': tgt=lin2db(np.array(br)*dval*1e-9)
    elif dpol=='per_degree_psd_out_mWperSlotWidth': tgt=lin2db(np.array(sw)*dval*1e-9)
    elif pol=='target_pch_out_db': tgt=np.full(k,val)
    elif pol=='target_psd_out_mWperGHz': tgt=lin2db(np.array(br)*val*1e-9)
    else: tgt=lin2db(np.array(sw)*val*1e-9)
    exp=np.minimum(tgt+np.array(off),pin)
    n+=1
    if np.max(np.abs(exp-pout))>1e-9: print(trial,'MISMATCH',pol,dpol,np.max(np.abs(exp-pout))); bad+=1
    if (pout>pin+1e-12).any(): print('amplifies'); bad+=1
print('n',n,'bad',bad)
