import logging; logging.disable(logging.CRITICAL)
from mknet import *
def roundtrip(eqfile, topo, label, tweak=None):
    eq = load_equipment(eqfile)
    if tweak: tweak(eq)
    net = network_from_json(copy.deepcopy(topo), eq)
    net, req, ref = designed_network(eq, net, source='trx A', destination='trx B')
    j1 = network_to_json(net)
    net2 = network_from_json(copy.deepcopy(j1), eq)
    net2, _, _ = designed_network(eq, net2, source='trx A', destination='trx B')
    j2 = network_to_json(net2)
    same = json.dumps(j1, sort_keys=True) == json.dumps(j2, sort_keys=True)
    print(label, 'idempotent:', same)
    if not same:
        e1 = {e['uid']: e for e in j1['elements']}; e2 = {e['uid']: e for e in j2['elements']}
        n=0
        for k in e1:
            if e1[k] != e2.get(k):
                print('  ', k, json.dumps(e1[k].get('params', e1[k].get('operational'))), '=>', json.dumps(e2[k].get('params', e2[k].get('operational'))) if k in e2 else None); n+=1
                if n>4: break
        print('  only in 2:', [k for k in e2 if k not in e1][:5])
roundtrip(EX/'eqpt_config.json', linear(spans=(80,80)), 'default')
def eol(eq): eq['Span']['default'].EOL = 1.5
roundtrip(EX/'eqpt_config.json', linear(spans=(80,80)), 'EOL=1.5', eol)
roundtrip(EX/'eqpt_config.json', linear(spans=(20,30)), 'short spans (padding)')
roundtrip(EX/'eqpt_config.json', linear(spans=(400,)), 'long span split')
