import logging; logging.disable(logging.CRITICAL)
from mknet import *
eq = load_equipment(EX/'eqpt_config.json')
# C06: node-level target 0 dBm
try:
    net = network_from_json(linear(roadm_params={"target_pch_out_db": 0}), eq)
    net, req, ref = designed_network(eq, net, source='trx A', destination='trx B')
    print('0 dBm target: designed OK')
except Exception as e:
    print('0 dBm target ->', type(e).__name__, e)
try:
    net = network_from_json(linear(roadm_params={"target_pch_out_db": -1}), eq)
    net, req, ref = designed_network(eq, net, source='trx A', destination='trx B')
    print('-1 dBm target: designed OK')
except Exception as e:
    print('-1 dBm target ->', type(e).__name__, e)
