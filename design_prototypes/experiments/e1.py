from gnpy.topology.spectrum_assignment import *
from gnpy.topology.spectrum_assignment import Bitmap, BitmapValue, OMS, align_grids
# C15: insert_right duplicate index
o1 = OMS(oms_id=0, el_id_list=[], el_list=[]); o1.update_spectrum(191.3e12, 196.1e12)
o2 = OMS(oms_id=1, el_id_list=[], el_list=[]); o2.update_spectrum(191.3e12, 195.0e12)
o3 = OMS(oms_id=2, el_id_list=[], el_list=[]); o3.update_spectrum(192.0e12, 196.1e12)
align_grids([o1,o2,o3])
for o in (o1,o2,o3):
    b=o.spectrum_bitmap
    fi=b.freq_index
    print(b.n_min,b.n_max,len(fi),len(b.bitmap),len(set(fi)), fi[:3], fi[-3:])
