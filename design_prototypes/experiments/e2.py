from pathlib import Path
import gnpy, json, copy
from gnpy.tools.json_io import load_equipment, load_network, load_json, network_from_json
from gnpy.tools.worker_utils import designed_network
from gnpy.topology.spectrum_assignment import build_oms_list
ex = Path(gnpy.__file__).parent/'example-data'
eq = load_equipment(ex/'eqpt_config_multiband.json')
net = load_network(ex/'multiband_example_network.json', eq)
net, req, ref = designed_network(eq, net)
try:
    oms = build_oms_list(net, eq)
    for o in oms:
        b=o.spectrum_bitmap
        print(o.oms_id, b.n_min,b.n_max,len(b.freq_index),len(b.bitmap), ''.join(str(x) for x in b.bitmap)[:40])
except Exception as e:
    import traceback; traceback.print_exc()
