import logging; logging.disable(logging.CRITICAL)
import random, math
from mknet import *
from gnpy.core import elements as E
from gnpy.core.utils import watt2dbm, lin2db
from gnpy.topology.request import compute_constrained_path, propagate
eq0 = load_equipment(EX/'eqpt_config.json')
rnd = random.Random(1)
bad=0
for trial in range(60):
    eq = copy.deepcopy(eq0)
    span = eq['Span']['default']
    span.padding = rnd.choice([6,10,12]); span.EOL = 0; 
    span.delta_power_range_db = rnd.choice([[-2,3,0.5],[0,0,0],[-6,0,0.5],[-3,3,1]])
    n = rnd.randint(1,5)
    spans = tuple(round(rnd.uniform(5,140),1) for _ in range(n))
    tgt = rnd.choice([-20,-18,-25])
    net = network_from_json(linear(spans=spans, roadm_params={"target_pch_out_db": tgt}), eq)
    try:
        net, req, ref = designed_network(eq, net, source='trx A', destination='trx B')
    except Exception as e:
        print('design error', spans, type(e).__name__, e); continue
    path = compute_constrained_path(net, req)
    pref = watt2dbm(ref.power)
    # walk path: expected ref power after each amp = pref + delta_p - out_voa
    p = copy.deepcopy(path)
    si = propagate(p, req, eq)
    for el_d, el in zip(path, p):
        if isinstance(el, E.Edfa):
            exp = pref + el_d._delta_p - el_d.out_voa
            got = float(el.pch_out_dbm.mean())
            if abs(exp-got) > 0.3:
                bad+=1; print(trial, spans, el.uid, 'expected', round(exp,3), 'got', round(got,3), 'gain', el_d.effective_gain, 'dp', el_d.delta_p, 'voa', el_d.out_voa)
print('bad', bad)
