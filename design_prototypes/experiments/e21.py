import logging; logging.disable(logging.CRITICAL)
import random, itertools, json
exec(open('e13.py').read().split("rnd=random.Random(3)")[0])
from gnpy.tools.json_io import _equipment_from_json
from gnpy.tools.default_edfa_config import DEFAULT_EXTRA_CONFIG
base = load_json(EX/'eqpt_config.json')
def lib(thrA):
    d=copy.deepcopy(base)
    d['Transceiver'].append({"type_variety":"T","frequency":{"min":191.35e12,"max":196.1e12},"mode":[
      {"format":"A","baud_rate":32e9,"OSNR":thrA,"bit_rate":200e9,"roll_off":0.15,"tx_osnr":45,"min_spacing":50e9,"cost":1,"equalization_offset_db":0},
      {"format":"B","baud_rate":32e9,"OSNR":5,"bit_rate":100e9,"roll_off":0.15,"tx_osnr":45,"min_spacing":50e9,"cost":1,"equalization_offset_db":3}]})
    return _equipment_from_json(d, DEFAULT_EXTRA_CONFIG)
rnd=random.Random(1)
topo,names,lens=mesh(rnd,3,0)
def run(eq, mode):
    net=network_from_json(copy.deepcopy(topo),eq); net,_,_=designed_network(eq,net)
    r=req_json('0',names[0],names[1]); te=r['path-constraints']['te-bandwidth']; te['trx_type']='T'; te['trx_mode']=mode
    oms_list, pths, rpths, rqs, dsjn, result = planning(net, eq, {"path-request":[r]})
    rq=rqs[0]; rx=pths[0][-1]
    return rq.tsp_mode, getattr(rq,'blocking_reason',None), round(float(min(rx.snr_01nm)),3)
eq=lib(0)
print('auto  (thr 0):', run(eq,None)); print('fixed A:', run(eq,'A')); print('fixed B:', run(eq,'B'))
mA=run(eq,'A')[2]; mB=run(eq,'B')[2]
thr=(mA+mB)/2
eq=lib(round(thr,2))
print('threshold for A set between A-own-offset metric',mA,'and +3dB metric',mB,'->',round(thr,2))
print('auto :', run(eq,None)); print('fixed A:', run(eq,'A'))
eq=lib(24.9)
print('thr A = 24.9 (+2 margin = 26.9): auto :', run(eq,None), ' fixed A:', run(eq,'A'))
