import logging; logging.disable(logging.CRITICAL)
import random, copy, json, warnings
from mknet import *
from gnpy.tools.json_io import _equipment_from_json
from gnpy.tools.default_edfa_config import DEFAULT_EXTRA_CONFIG
from gnpy.core.network import select_edfa, edfa_nf
from gnpy.core.exceptions import ConfigurationError, EquipmentConfigError
base = load_json(EX/'eqpt_config.json')
rnd = random.Random(2)
bad=0; n=0; nocap=0
for trial in range(300):
    d = copy.deepcopy(base)
    amps=[]
    for i in range(rnd.randint(1,8)):
        gmin=rnd.choice([8,10,15,20]); gmax=gmin+rnd.choice([6,10,12,15])
        kind=rnd.choice(['variable_gain','fixed_gain'])
        a={"type_variety":f"a{i}","type_def":kind,"gain_flatmax":gmax,"gain_min":gmin,"p_max":rnd.choice([16,19,21,23,25]),
           "out_voa_auto":False,"allowed_for_design":True}
        if kind=='variable_gain': a.update(nf_min=rnd.choice([5,5.5,6]),nf_max=rnd.choice([8,9,10]))
        else: a.update(nf0=rnd.choice([4.5,5.5,6.5]))
        if rnd.random()<0.2: a['raman']=True
        amps.append(a)
    d['Edfa']=amps
    try:
        eq=_equipment_from_json(d, DEFAULT_EXTRA_CONFIG)
    except EquipmentConfigError as e:
        continue
    lib={k:v for k,v in eq['Edfa'].items()}
    gain=rnd.uniform(3,38); power=rnd.uniform(10,26); ext=rnd.choice([0,2.5]); raman=rnd.random()<0.5
    try:
        with warnings.catch_warnings():
            warnings.simplefilter('ignore')
            var, red = select_edfa(raman, gain, power, lib, 'x', ext, verbose=False)
    except ConfigurationError: 
        continue
    n+=1
    def attrs(name):
        a=lib[name]; pin=power-gain
        pw=min(pin+a.gain_flatmax+ext,a.p_max)-power
        gm=(gain - a.gain_min) if a.raman else (gain+3-a.gain_min)
        return pw,gm,edfa_nf(gain,a)
    cand=[k for k,a in lib.items() if (not a.raman) or raman]
    assert var in cand, (var,cand)
    cap=[k for k in cand if attrs(k)[0]>0 and attrs(k)[1]>0]
    if cap:
        if var not in cap: print(trial,'chosen not capable',var,attrs(var),cap); bad+=1
        best=min(attrs(k)[2] for k in cap)
        if attrs(var)[2]>best+1e-9: print(trial,'not quietest',var,attrs(var)[2],best); bad+=1
        if abs(red)>1e-12: print(trial,'reduction though capable',red); bad+=1
    else: nocap+=1
print('n',n,'bad',bad,'nocap',nocap)
