import logging, copy, json; logging.disable(logging.CRITICAL)
from mknet import *
from gnpy.tools.convert_legacy_yang import legacy_to_yang, yang_to_legacy
d=load_json(EX/'eqpt_config.json')
d['Fiber'].append({"type_variety":"XX","dispersion_per_frequency":{"value":[1.6e-5,1.7e-5],"frequency":[190e12,196e12]},"effective_area":83e-12,"pmd_coef":1.265e-15})
try:
    l=yang_to_legacy(copy.deepcopy(d)); print('legacy eqpt with dispersion_per_frequency: accepted', [f for f in l['Fiber'] if f['type_variety']=='XX'])
    y=legacy_to_yang(copy.deepcopy(d)); print('yang form:', [f for f in y['gnpy-eqpt-config:equipment']['Fiber'] if f['type_variety']=='XX'])
    l2=yang_to_legacy(copy.deepcopy(y)); print('back:', [f for f in l2['Fiber'] if f['type_variety']=='XX'])
except Exception as e:
    print('ERR', type(e).__name__, str(e)[:400])
