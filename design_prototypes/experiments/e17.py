import logging; logging.disable(logging.CRITICAL)
import random, math, copy
import numpy as np
from mknet import *
from gnpy.core.elements import Fiber, Roadm, Edfa
from gnpy.core.info import create_arbitrary_spectral_information
from gnpy.core.science_utils import NliSolver, RamanSolver
from gnpy.core.parameters import SimParams
from gnpy.core.utils import watt2dbm, db2lin, lin2db
from scipy.constants import c, pi, h
rnd=random.Random(4)
SimParams.set_params({})
def mkfiber(rnd):
    p={"length":rnd.uniform(1,180),"length_units":"km","loss_coef":rnd.uniform(0.15,0.35),"con_in":rnd.choice([0,0.5,1.2]),"con_out":rnd.choice([0,0.3,0.7]),
       "att_in":rnd.choice([0,0,2.5]),"dispersion":rnd.choice([1.67e-5,4e-6,2.1e-5]),"effective_area":rnd.choice([83e-12,72e-12,125e-12]),"pmd_coef":1.265e-15}
    if rnd.random()<0.4: p["dispersion_slope"]=rnd.choice([58.0, 70.0])   # s/m/m/m
    if rnd.random()<0.4:
        k=rnd.randint(1,3); pos=sorted(rnd.uniform(0.05,0.95)*p["length"] for _ in range(k))
        p["lumped_losses"]=[{"position":z,"loss":rnd.choice([0.5,1,2])} for z in pos]
    f=Fiber(uid='f',params=p,metadata=loc()); f.ref_pch_in_dbm=0
    return f,p
def mkcomb(rnd):
    n=rnd.randint(2,40); f=191.4e12; fr=[];br=[];sw=[];pw=[]
    for i in range(n):
        s=rnd.choice([37.5e9,50e9,75e9,100e9]); b=rnd.choice([x for x in [32e9,45e9,64e9,90e9] if x<=s])
        f+=s/2; fr.append(f); f+=s/2+rnd.choice([0,0,12.5e9,50e9]); br.append(b); sw.append(s); pw.append(10**(rnd.uniform(-6,6)/10)*1e-3)
    return create_arbitrary_spectral_information(fr,pw,br,tx_osnr=40,slot_width=sw,roll_off=0.15,tx_power=pw)
worst=0; wl=0
for t in range(60):
    fib,p=mkfiber(rnd); si=mkcomb(rnd)
    # expected NLI with attenuated input (after con_in+att_in)
    si0=copy.deepcopy(si)
    pin=si.pch*db2lin(-(p["con_in"]+p["att_in"]))
    fr=si.frequency; B=si.baud_rate
    alpha=fib.alpha(fr); beta2=fib.beta2(fr); gamma=fib.gamma(fr); L=fib.params.length
    exp_nli=np.zeros(len(fr))
    for i in range(len(fr)):
        for j in range(len(fr)):
            la=1/alpha[j]; le=(1-math.exp(-alpha[j]*L))/alpha[j]; b2=abs((beta2[i]+beta2[j])/2)
            k=pi**2*la*b2*B[i]; df=fr[j]-fr[i]
            psi=(math.asinh(k*(df+B[j]/2))-math.asinh(k*(df-B[j]/2)))/(4*pi*b2*la)*le**2
            w=16/27 if i==j else 32/27
            exp_nli[i]+=gamma[i]**2*w*psi*pin[i]*pin[j]**2/B[j]**2
    out=fib(si)
    got_nli=out.nli/ (out.pch/ (pin)) if False else None
    # compare via ratios: nli_ratio = nli/pin
    rel=np.max(np.abs(out._nli_ratio-exp_nli/pin)/(exp_nli/pin))
    worst=max(worst,rel)
    # loss budget
    lum=sum(x["loss"] for x in p.get("lumped_losses",[]))
    budget=p["con_in"]+p["att_in"]+p["loss_coef"]*p["length"]+lum+p["con_out"]
    loss=watt2dbm(si0.pch)-watt2dbm(out.pch)
    wl=max(wl,np.max(np.abs(loss-budget)))
print('max rel NLI deviation',worst,'max loss budget deviation dB',wl)
