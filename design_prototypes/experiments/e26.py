import logging, copy, json, random; logging.disable(logging.CRITICAL)
import openpyxl
from pathlib import Path
from mknet import *
from gnpy.tools.convert import xls_to_json_data
from gnpy.core.exceptions import NetworkTopologyError
def write_wb(path, nodes, links, eqpts=None):
    wb=openpyxl.Workbook(); ws=wb.active; ws.title='Nodes'
    for _ in range(4): ws.append([None])
    ws.append(['City','State','Country','Region','Latitude','Longitude','Type','Booster_restriction','Preamp_restriction'])
    for n in nodes: ws.append([n['city'],'s','c',n.get('region','R'),n.get('lat',0),n.get('lon',0),n.get('type'),None,None])
    ws=wb.create_sheet('Links')
    for _ in range(3): ws.append([None])
    ws.append([None,None,'east cable (from a to z)',None,None,None,None,None,None,'west (from z to a)'])
    cols=['Distance (km)','Fiber type','lineic att','Con_in','Con_out','PMD','Cable id']
    ws.append(['Node A','Node Z']+cols+cols)
    for l in links:
        e=l['east']; w=l.get('west',{})
        ws.append([l['a'],l['z']]+[e.get(k) for k in ('dist','fiber','lin','cin','cout','pmd','cable')]+[w.get(k) for k in ('dist','fiber','lin','cin','cout','pmd','cable')])
    if eqpts is not None:
        ws=wb.create_sheet('Eqpt')
        for _ in range(3): ws.append([None])
        ws.append([None,None,'east Node a egress amp (from a to z)',None,None,None,None,None,'west Node a ingress amp (from z to a)'])
        cols=['amp type','att_in','amp gain','delta p','tilt','att_out']
        ws.append(['Node A','Node Z']+cols+cols)
        for q in eqpts:
            e=q.get('east',{}); w=q.get('west',{})
            ws.append([q['a'],q['z']]+[e.get(k) for k in ('type','att_in','gain','dp','tilt','att_out')]+[w.get(k) for k in ('type','att_in','gain','dp','tilt','att_out')])
    wb.save(path)
p=Path('/tmp/ls2/t.xlsx')
nodes=[{'city':'A','type':'ROADM'},{'city':'B','type':'ILA'},{'city':'C','type':'ROADM'},{'city':'D','type':'FUSED'},{'city':'E','type':'ROADM'}]
links=[{'a':'A','z':'B','east':{'dist':70,'fiber':'SSMF','lin':0.21,'cin':0.4,'cout':0.6,'cable':'c1'},'west':{'dist':72,'lin':0.23,'cable':'c1w'}},
       {'a':'B','z':'C','east':{'dist':55,'fiber':'SSMF','cable':'c2'}},
       {'a':'C','z':'D','east':{'dist':30,'cable':'c3'}},{'a':'D','z':'E','east':{'dist':40,'cable':'c4'}}]
eqpts=[{'a':'A','z':'B','east':{'type':'std_low_gain','gain':17,'att_out':1},'west':{'type':'std_medium_gain','gain':21}},
       {'a':'B','z':'C','east':{'type':'std_medium_gain','gain':19.5,'tilt':0.5},'west':{'type':'std_low_gain','gain':16.5}}]
write_wb(p,nodes,links,eqpts)
d=xls_to_json_data(p)
els={e['uid']:e for e in d['elements']}
print(len(d['elements']),len(els))
for k,e in els.items():
    if e['type'] in('Fiber',): print(k,e['params'])
    if e['type']=='Edfa': print(k,e.get('type_variety'),e.get('operational'))
ends=set(els)
for c in d['connections']:
    if c['from_node'] not in ends or c['to_node'] not in ends: print('DANGLING',c)
import networkx as nx
G=nx.DiGraph(); [G.add_edge(c['from_node'],c['to_node']) for c in d['connections']]
print('path A->E', nx.shortest_path(G,'trx A','trx E'))
print('path E->A', nx.shortest_path(G,'trx E','trx A'))
eq=load_equipment(EX/'eqpt_config.json')
net=network_from_json(copy.deepcopy(d),eq); net,_,_=designed_network(eq,net); print('designed ok', len(net))
