import logging, copy, json; logging.disable(logging.CRITICAL)
from pathlib import Path
import gnpy
from gnpy.tools.json_io import load_json
from gnpy.tools.convert_legacy_yang import legacy_to_yang, yang_to_legacy
EX = Path(gnpy.__file__).parent/'example-data'
def canon(x): return json.dumps(x, sort_keys=True)
for f in ['eqpt_config.json','eqpt_config_multiband.json','eqpt_config_openroadm_ver5.json','meshTopologyExampleV2.json','multiband_example_network.json','raman_edfa_example_network.json','meshTopologyExampleV2_services.json','sim_params.json','initial_spectrum1.json','extra_eqpt_config.json','std_medium_gain_advanced_config.json']:
    d = load_json(EX/f)
    try:
        y = legacy_to_yang(copy.deepcopy(d))
        l = yang_to_legacy(copy.deepcopy(y))
        y2 = legacy_to_yang(copy.deepcopy(l))
        l2 = yang_to_legacy(copy.deepcopy(y2))
        print(f, 'y==y2', canon(y)==canon(y2), 'l==l2', canon(l)==canon(l2), 'l==orig', canon(l)==canon(d))
        if canon(l)!=canon(d):
            # find first difference
            def diff(a,b,p=''):
                if type(a)!=type(b): return [(p,a,b)]
                if isinstance(a,dict):
                    out=[]
                    for k in set(a)|set(b):
                        if k not in a: out.append((p+'/'+k,'<missing>',b[k]))
                        elif k not in b: out.append((p+'/'+k,a[k],'<missing>'))
                        else: out+=diff(a[k],b[k],p+'/'+k)
                    return out
                if isinstance(a,list):
                    if len(a)!=len(b): return [(p,'len',len(a),len(b))]
                    out=[]
                    for i,(x,y_) in enumerate(zip(a,b)): out+=diff(x,y_,p+f'[{i}]')
                    return out
                return [] if a==b else [(p,a,b)]
            ds = diff(d,l)
            print('   ndiff', len(ds), [str(x)[:150] for x in ds[:6]])
    except Exception as e:
        print(f, 'ERR', type(e).__name__, str(e)[:300])
