import logging; logging.disable(logging.CRITICAL)
import random, itertools, json
exec(open('e13.py').read().split("rnd=random.Random(3)")[0])
from gnpy.tools.json_io import results_to_json
rnd=random.Random(5)
def strip(resp):
    r=json.loads(json.dumps(resp))
    def walk(x):
        if isinstance(x,dict):
            for k in list(x):
                if k=='label-hop': x[k]='*'
                else: walk(x[k])
        elif isinstance(x,list):
            for y in x: walk(y)
    walk(r); 
    # remove index fields shift? keep
    return r
bad=0
for trial in range(8):
    n=rnd.randint(3,5); topo,names,lens=mesh(rnd,n,rnd.randint(0,3))
    eq=copy.deepcopy(eq0)
    net=network_from_json(copy.deepcopy(topo),eq)
    net,_,_=designed_network(eq,net)
    before=json.dumps(network_to_json(net),sort_keys=True)
    reqs=[]
    for k in range(5):
        s,d=rnd.sample(names,2)
        r=req_json(str(k),s,d,bidir=rnd.random()<0.3)
        te=r['path-constraints']['te-bandwidth']
        mode=rnd.choice(['mode 1','mode 2',None])
        te['trx_mode']=mode
        te['spacing']=rnd.choice([50e9,75e9,100e9]) if mode!='mode 2' else rnd.choice([75e9,100e9])
        te['output-power']=rnd.choice([None,1e-3,3.16e-3,1e-2])
        te['path_bandwidth']=rnd.choice([100e9,400e9,0])
        reqs.append(r)
    def run(rs):
        out={}
        oms_list, pths, rpths, rqs, dsjn, result = planning(net, eq, {"path-request":copy.deepcopy(rs)})
        for res in result:
            out[res.path_id]=strip(res.json)
        return out
    try:
        full=run(reqs)
    except Exception as e:
        print('ERR',type(e).__name__,str(e)[:100]); continue
    for r in reqs:
        alone=run([r])
        k=r['request-id']
        key=[kk for kk in full if k in kk.split(' | ')][0]
        if key==k and json.dumps(full[key],sort_keys=True)!=json.dumps(alone[k],sort_keys=True):
            print(trial,'DIFF for',k); bad+=1
    rev=run(list(reversed(reqs)))
    for k in full:
        if k in rev and json.dumps(full[k],sort_keys=True)!=json.dumps(rev[k],sort_keys=True): print(trial,'ORDER DIFF',k); bad+=1
    after=json.dumps(network_to_json(net),sort_keys=True)
    if before!=after: print(trial,'NETWORK CHANGED'); bad+=1
print('bad',bad)
