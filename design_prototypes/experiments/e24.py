import logging, copy, json; logging.disable(logging.CRITICAL)
from mknet import *
from gnpy.tools.convert_legacy_yang import legacy_to_yang, yang_to_legacy
def canon(x): return json.dumps(x, sort_keys=True)
def diff(a,b,p=''):
    if isinstance(a,(int,float)) and isinstance(b,(int,float)) and not isinstance(a,bool):
        return [] if abs(a-b)<=1e-9*max(1,abs(a)) else [(p,a,b)]
    if type(a)!=type(b): return [(p,a,b)]
    if isinstance(a,dict):
        out=[]
        for k in sorted(set(a)|set(b)):
            if k not in a: out.append((p+'/'+k,'<missing>',b[k]))
            elif k not in b: out.append((p+'/'+k,a[k],'<missing>'))
            else: out+=diff(a[k],b[k],p+'/'+k)
        return out
    if isinstance(a,list):
        if len(a)!=len(b): return [(p,'len',len(a),len(b))]
        out=[]
        for i,(x,y_) in enumerate(zip(a,b)): out+=diff(x,y_,p+f'[{i}]')
        return out
    return [] if a==b else [(p,a,b)]
topo=linear(spans=(80,60))
for e in topo['elements']:
    if e['uid']=='roadm A':
        e['type_variety']='default'
        e['params']={'target_psd_out_mWperGHz':3.125e-4,
           'per_degree_pch_out_db':{'fiber ab 0':-19.5},
           'per_degree_psd_out_mWperGHz':{'fiber ab 1':2.5e-4},
           'per_degree_psd_out_mWperSlotWidth':{'fu':1.5e-4},
           'per_degree_design_bands':{'fiber ab 0':[{'f_min':191.3e12,'f_max':196.1e12,'spacing':50e9}]},
           'design_bands':[{'f_min':191.3e12,'f_max':196.1e12,'spacing':50e9},{'f_min':186.1e12,'f_max':190.9e12,'spacing':50e9}],
           'per_degree_impairments':[{'from_degree':'trx A','to_degree':'fiber ab 0','impairment_id':1}],
           'restrictions':{'preamp_variety_list':['std_low_gain'],'booster_variety_list':[]}}
    if e['uid']=='fiber ab 0':
        e['params'].update({'loss_coef':{'value':[0.21,0.2,0.19],'frequency':[186e12,193e12,197e12]},'con_in':0.5,'con_out':None,'att_in':1.25,'pmd_coef':1.265e-15,
            'lumped_losses':[{'loss':1.5,'position':12.345},{'position':40.0,'loss':0.75}],
            'raman_coefficient':{'g0':[0.0,1e-4,3.3e-4],'frequency_offset':[0.0,5e12,13e12],'reference_frequency':206.184634112792e12}})
    if e['uid']=='fiber ab 1':
        e['type']='RamanFiber'; e['operational']={'temperature':283.15,'raman_pumps':[{'power':0.2245,'frequency':205e12,'propagation_direction':'counterprop'},{'propagation_direction':'coprop','power':0.1,'frequency':206e12}]}
topo['elements'].append({'uid':'amp1','type':'Edfa','type_variety':'std_low_gain','operational':{'gain_target':17.123456789,'delta_p':None,'tilt_target':-0.5,'out_voa':None,'in_voa':0.25},'metadata':loc()})
topo['elements'].append({'uid':'fu','type':'Fused','params':{'loss':0.333},'metadata':{'location':{'latitude':1.123456789,'longitude':-2.5,'city':None,'region':None}}})
topo['elements'].append({'uid':'mb','type':'Multiband_amplifier','type_variety':'std_medium_gain_multiband','amplifiers':[{'type_variety':'std_medium_gain','operational':{'gain_target':12.2,'delta_p':4.19,'out_voa':None,'tilt_target':0.0}}],'metadata':loc()})
try:
    y=legacy_to_yang(copy.deepcopy(topo))
    l=yang_to_legacy(copy.deepcopy(y))
    y2=legacy_to_yang(copy.deepcopy(l)); l2=yang_to_legacy(copy.deepcopy(y2))
    print('idempotent y:',canon(y)==canon(y2),' l:',canon(l)==canon(l2))
    ds=diff(topo,l)
    print('value diffs legacy vs roundtrip:',len(ds))
    for d in ds[:20]: print('  ',str(d)[:200])
except Exception as e:
    import traceback; traceback.print_exc()
