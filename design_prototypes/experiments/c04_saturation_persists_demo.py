"""demo: a saturating spectrum permanently lowers the gain of an Edfa object"""
import copy, sys
sys.path.insert(0, '/verif/harness')
from common import nets
from gnpy.tools.json_io import network_from_json
from gnpy.core.info import create_arbitrary_spectral_information
eq = nets.eqpt()
topo = {'elements': [nets.trx('A'), nets.edfa('amp', 'std_medium_gain', {'gain_target': 20, 'tilt_target': 0, 'out_voa': 0}), nets.trx('B')],
        'connections': [nets.cx('A', 'amp'), nets.cx('amp', 'B')]}
amp = nets.by_uid(network_from_json(topo, eq))['amp']          # set gain 20 dB, p_max 23 dBm
fresh = copy.deepcopy(amp)
def si(ptot_dbm, n=4):
    w = 10 ** ((ptot_dbm - 30) / 10) / n
    return create_arbitrary_spectral_information([193.0e12 + i * 50e9 for i in range(n)], pch=w, baud_rate=32e9, tx_osnr=40.,
                                                 tx_power=w, slot_width=50e9, label='x')
amp(si(10)); hot = amp.effective_gain        # 13 = 23 - 10: reduced as far as needed
amp(si(-10)); cold_after_hot = amp.effective_gain
fresh(si(-10)); cold_fresh = fresh.effective_gain
print('hot spectrum (10 dBm):', hot, '| cold spectrum (-10 dBm) afterwards:', cold_after_hot, '| cold spectrum on a fresh copy:', cold_fresh)
assert abs(cold_after_hot - cold_fresh) < 1e-9, 'the reduction needed by the earlier spectrum persists'
