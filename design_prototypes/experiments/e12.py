import logging; logging.disable(logging.CRITICAL)
import random, math
from mknet import *
from gnpy.core import elements as E
from gnpy.core.network import span_loss
eq0 = load_equipment(EX/'eqpt_config.json')
rnd = random.Random(7)
def chain_topo(rnd):
    """ two roadms, a chain each way with random fiber/fused/edfa elements"""
    els=[{"uid":"trx A","type":"Transceiver","metadata":loc()},{"uid":"trx B","type":"Transceiver","metadata":loc()},
         {"uid":"roadm A","type":"Roadm","metadata":loc()},{"uid":"roadm B","type":"Roadm","metadata":loc()}]
    cx=[{"from_node":"trx A","to_node":"roadm A"},{"from_node":"roadm A","to_node":"trx A"},
        {"from_node":"trx B","to_node":"roadm B"},{"from_node":"roadm B","to_node":"trx B"}]
    desc={}
    for d,(s,t) in (('ab',('roadm A','roadm B')),('ba',('roadm B','roadm A'))):
        prev=s; k=rnd.randint(1,6); seq=[]
        for i in range(k):
            typ = rnd.choices(['Fiber','Fused','Edfa'],[6,2,2])[0]
            if i==0 and typ=='Edfa' : pass
            uid=f'{typ} {d} {i}'
            if typ=='Fiber':
                L = rnd.choice([0.5, 3, 20, 45, 80, 120, 149, 150, 151, 200, 300, 420, 1000])
                el={"uid":uid,"type":"Fiber","type_variety":"SSMF","params":{"length":L,"length_units":"km","loss_coef":rnd.choice([0.2,0.22,0.3]),"con_in":rnd.choice([None,0.5]),"con_out":rnd.choice([None,0.5])},"metadata":loc()}
            elif typ=='Fused':
                el={"uid":uid,"type":"Fused","params":{"loss":rnd.choice([0,1,2])},"metadata":loc()}
            else:
                el={"uid":uid,"type":"Edfa","metadata":loc(),"operational":{"gain_target":rnd.choice([None,15,20]),"tilt_target":0,"out_voa":rnd.choice([None,0,1])}}
                if rnd.random()<0.5: el["type_variety"]=rnd.choice(['std_medium_gain','std_low_gain'])
            els.append(el); seq.append((typ,uid))
            cx.append({"from_node":prev,"to_node":uid}); prev=uid
        cx.append({"from_node":prev,"to_node":t}); desc[d]=seq
    return {"elements":els,"connections":cx}, desc
nbad=0
for trial in range(300):
    topo, desc = chain_topo(rnd)
    eq = copy.deepcopy(eq0)
    try:
        net = network_from_json(copy.deepcopy(topo), eq)
        net, req, ref = designed_network(eq, net, source='trx A', destination='trx B')
    except Exception as e:
        print(trial, 'ERR', type(e).__name__, str(e)[:100], desc); continue
    uids=[n.uid for n in net.nodes()]
    assert len(uids)==len(set(uids))
    for n in net.nodes():
        succ=list(net.successors(n)); pred=list(net.predecessors(n))
        if isinstance(n,(E.Fiber,E.Fused,E.Edfa)):
            if len(succ)!=1 or len(pred)!=1: print(trial,'chain broken',n.uid); nbad+=1
        if isinstance(n,E.Fiber):
            if isinstance(succ[0],E.Fiber): print(trial,'fiber->fiber',n.uid,succ[0].uid); nbad+=1
            if isinstance(succ[0],E.Roadm): print(trial,'fiber->roadm',n.uid); nbad+=1
            if isinstance(pred[0],E.Roadm): print(trial,'roadm->fiber',n.uid); nbad+=1
            if n.params.con_in is None or n.params.con_out is None: print(trial,'no con',n.uid); nbad+=1
            if n.params.length > 150e3+1e-6: print(trial,'too long',n.uid,n.params.length); nbad+=1
        if isinstance(n,E.Edfa):
            if not n.params.type_variety or n.effective_gain is None or n.out_voa is None or n.delta_p is None:
                print(trial,'edfa undesigned',n.uid,n.params.type_variety,n.effective_gain,n.out_voa,n.delta_p); nbad+=1
print('nbad',nbad)
