import logging, copy, json; logging.disable(logging.CRITICAL)
from pathlib import Path
import gnpy
from gnpy.tools.json_io import load_json, _equipment_from_json
from gnpy.tools.default_edfa_config import DEFAULT_EXTRA_CONFIG
from gnpy.tools.convert_legacy_yang import legacy_to_yang, yang_to_legacy
EX = Path(gnpy.__file__).parent/'example-data'
d = load_json(EX/'eqpt_config_multiband.json')
y = legacy_to_yang(copy.deepcopy(d)); l = yang_to_legacy(copy.deepcopy(y))
print('SI keys after roundtrip:', [sorted(k for k in s if 'range' in k) for s in l['SI']])
# Raman efficiency
d2 = load_json(EX/'eqpt_config.json')
d2['RamanFiber'][0]['raman_efficiency'] = {'cr':[0.0, 1e-4, 3e-4, 2e-4], 'frequency_offset':[0.0, 5e12, 13e12, 15e12]}
y = legacy_to_yang(copy.deepcopy(d2)); l = yang_to_legacy(copy.deepcopy(y))
print('legacy RamanFiber:', {k:v for k,v in l['RamanFiber'][0].items() if 'raman' in k})
e1 = _equipment_from_json(copy.deepcopy(d2), DEFAULT_EXTRA_CONFIG)
e2 = _equipment_from_json(copy.deepcopy(l), DEFAULT_EXTRA_CONFIG)
print('orig  has raman_coefficient:', getattr(e1['RamanFiber']['SSMF'],'raman_coefficient',None))
print('round has raman_coefficient:', getattr(e2['RamanFiber']['SSMF'],'raman_coefficient',None))
