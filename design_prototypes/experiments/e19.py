import logging; logging.disable(logging.CRITICAL)
from mknet import *
from gnpy.tools.json_io import load_network
import numpy as np
from gnpy.topology.request import compute_constrained_path, propagate, filter_si, find_elements_common_range
from gnpy.core.info import Carrier, carriers_to_spectral_information
from gnpy.core import elements as E
eq = load_equipment(EX/'eqpt_config_multiband.json')
net = load_network(EX/'multiband_example_network.json', eq)
trx=[n.uid for n in net.nodes() if isinstance(n,E.Transceiver)]
print(trx[:6])
net, req, ref = designed_network(eq, net, source=trx[0], destination=trx[1])
path = compute_constrained_path(net, req)
print([ (type(e).__name__) for e in path])
cr = find_elements_common_range(path, eq); print(cr)
# carriers: across bands incl edges and gaps
spec={}
def add(f,sw=50e9,b=32e9): spec[f]=Carrier(delta_pdb=0,baud_rate=b,slot_width=sw,roll_off=0.15,tx_osnr=40,tx_power=1e-3,label='x')
for band in cr:
    lo,hi=band['f_min'],band['f_max']
    add(lo+1e9)   # straddles lower edge
    add(lo+51e9+25e9); add(hi-25e9); add(hi-25e9-50e9); add((lo+hi)/2//50e9*50e9)
    add(hi+100e9)     # in gap / out
req.initial_spectrum=dict(sorted(spec.items()))
si0=carriers_to_spectral_information(req.initial_spectrum, req.power)
print('launched', len(si0.frequency))
si=filter_si(path, eq, si0)
print('after filter', len(si.frequency), sorted(set(si0.frequency)-set(si.frequency)))
p=copy.deepcopy(path)
freqs=None
cur=si
from gnpy.core.elements import Roadm
for i,el in enumerate(p):
    if isinstance(el,Roadm): cur=el(cur,degree=p[i+1].uid,from_degree=p[i-1].uid)
    else: cur=el(cur)
    if freqs is None: freqs=list(cur.frequency)
    if list(cur.frequency)!=freqs: print('CHANGED at',el.uid,len(cur.frequency)); freqs=list(cur.frequency)
print('received',len(cur.frequency), 'sorted', list(cur.frequency)==sorted(cur.frequency))
