import copy, logging, json
from pathlib import Path
import gnpy
from gnpy.tools.json_io import load_equipment, network_from_json, load_json, network_to_json
from gnpy.tools.worker_utils import designed_network
EX = Path(gnpy.__file__).parent/'example-data'
def loc(): return {"location": {"latitude":0,"longitude":0,"city":"c","region":"r"}}
def linear(spans=(80,), roadm_params=None, fiber_extra=None, bidir=True):
    els=[{"uid":"trx A","type":"Transceiver","metadata":loc()},{"uid":"trx B","type":"Transceiver","metadata":loc()},
         {"uid":"roadm A","type":"Roadm","metadata":loc(), **({"params":roadm_params} if roadm_params else {})},
         {"uid":"roadm B","type":"Roadm","metadata":loc(), **({"params":roadm_params} if roadm_params else {})}]
    cx=[{"from_node":"trx A","to_node":"roadm A"},{"from_node":"roadm A","to_node":"trx A"},
        {"from_node":"trx B","to_node":"roadm B"},{"from_node":"roadm B","to_node":"trx B"}]
    for d,(s,t) in (('ab',('roadm A','roadm B')),('ba',('roadm B','roadm A'))):
        prev=s
        for i,L in enumerate(spans):
            uid=f'fiber {d} {i}'
            p={"length":L,"length_units":"km","loss_coef":0.2,"con_in":None,"con_out":None}
            if fiber_extra: p.update(fiber_extra)
            els.append({"uid":uid,"type":"Fiber","type_variety":"SSMF","params":p,"metadata":loc()})
            cx.append({"from_node":prev,"to_node":uid}); prev=uid
        cx.append({"from_node":prev,"to_node":t})
    return {"elements":els,"connections":cx}
