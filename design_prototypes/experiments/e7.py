import logging; logging.disable(logging.CRITICAL)
from mknet import *
from gnpy.topology.request import compute_constrained_path, propagate
from gnpy.core.info import create_arbitrary_spectral_information, Carrier
eq = load_equipment(EX/'eqpt_config.json')
net = network_from_json(linear(spans=(80,80)), eq)
net, req, ref = designed_network(eq, net, source='trx A', destination='trx B')
path = compute_constrained_path(net, req)
print([type(e).__name__ for e in path])
req.initial_spectrum = {193.5e12: Carrier(delta_pdb=0, baud_rate=32e9, slot_width=50e9, roll_off=0.15, tx_osnr=40, tx_power=1e-3, label='x')}
try:
    si = propagate(copy.deepcopy(path), req, eq)
    print('single channel OK')
except Exception as e:
    import traceback; traceback.print_exc()
