import logging; logging.disable(logging.CRITICAL)
from mknet import *
from gnpy.core.network import edfa_nf
import numpy as np
for f in ['eqpt_config.json','eqpt_config_openroadm_ver5.json']:
    eq=load_equipment(EX/f)
    for k,a in eq['Edfa'].items():
        if a.type_def=='variable_gain':
            m=a.nf_model
            n1=edfa_nf(a.gain_flatmax,a); n2=edfa_nf(a.gain_min,a)
            gs=np.linspace(a.gain_min-5,a.gain_flatmax+3,60); nfs=[edfa_nf(g,a) for g in gs]
            mono=all(x>=y-1e-12 for x,y in zip(nfs,nfs[1:]))
            slope=(edfa_nf(a.gain_min-3,a)-edfa_nf(a.gain_min-1,a))
            print(f,k,'nf(gmax)-nf_min=%.4f nf(gmin)-nf_max=%.4f mono=%s slope_below=%.3f'%(n1-m.orig_nf_min,n2-m.orig_nf_max,mono,slope))
