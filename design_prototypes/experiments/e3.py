from gnpy.topology.spectrum_assignment import *
from gnpy.topology.request import PathRequest
class El:  # fake line element
    def __init__(s, oms_id): s.oms_id=oms_id
o1 = OMS(oms_id=0, el_id_list=[], el_list=[]); o1.update_spectrum(191.3e12, 196.1e12)
o2 = OMS(oms_id=1, el_id_list=[], el_list=[]); o2.update_spectrum(191.3e12, 196.1e12)
oms_list=[o1,o2]
def mk(N,M,bw=200e9):
    r = PathRequest(request_id='r', source='a', destination='b', trx_type='t', trx_mode='m', spacing=50e9, bit_rate=100e9,
                    path_bandwidth=bw, effective_freq_slot=[{'N':n,'M':m} for n,m in zip(N,M)], nodes_list=[], loose_list=[])
    return r
# first occupy N=100 M=4 on oms0
r0 = mk([100],[4],100e9)
pth_assign_spectrum([[El(0)]],[r0],oms_list,[[]])
print('r0', r0.N, r0.M, getattr(r0,'blocking_reason',None))
before = list(o1.spectrum_bitmap.bitmap)
# multi-slot request: first slot feasible (N=0,M=4), second collides (N=100, M=4)
r1 = mk([0,100],[4,4],200e9)
pth_assign_spectrum([[El(0)]],[r1],oms_list,[[]])
print('r1', r1.N, r1.M, getattr(r1,'blocking_reason',None))
after = list(o1.spectrum_bitmap.bitmap)
print('state changed by blocked request:', before!=after, sum(1 for a,b in zip(before,after) if a!=b))
# same on 2-oms path
o1.update_spectrum(191.3e12, 196.1e12); o2.update_spectrum(191.3e12, 196.1e12)
r0 = mk([100],[4],100e9); pth_assign_spectrum([[El(0),El(1)]],[r0],oms_list,[[]])
before = list(o1.spectrum_bitmap.bitmap)+list(o2.spectrum_bitmap.bitmap)
r1 = mk([0,100],[4,4],200e9); pth_assign_spectrum([[El(0),El(1)]],[r1],oms_list,[[]])
after = list(o1.spectrum_bitmap.bitmap)+list(o2.spectrum_bitmap.bitmap)
print('2 oms: r1', r1.N, r1.M, getattr(r1,'blocking_reason',None), 'changed', before!=after)
