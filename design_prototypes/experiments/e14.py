import logging; logging.disable(logging.CRITICAL)
import random, itertools
exec(open('e13.py').read().split("rnd=random.Random(3)")[0])
rnd=random.Random(11)
bad=0; tot=0; nerr=0
def und_edges(seq): return {tuple(sorted(e)) for e in zip(seq,seq[1:])}
for trial in range(40):
    n=rnd.randint(3,7); topo,names,lens=mesh(rnd,n,rnd.randint(0,5))
    eq=copy.deepcopy(eq0)
    net=network_from_json(copy.deepcopy(topo),eq)
    net,_,_=designed_network(eq,net)
    G=nx.Graph()
    for (a,b),L in lens.items(): G.add_edge(a,b,w=L)
    s1,d1=rnd.sample(names,2); s2,d2=rnd.sample(names,2)
    reqs=[req_json('0',s1,d1),req_json('1',s2,d2)]
    if (s1,d1)==(s2,d2): reqs[1]['path-constraints']['te-bandwidth']['trx_mode']='mode 2'  # avoid aggregation
    data={"path-request":reqs,"synchronization":[{"synchronization-id":"0","svec":{"relaxable":False,"disjointness":"node link","request-id-number":["0","1"]}}]}
    P1=list(nx.all_simple_paths(G,s1,d1)); P2=list(nx.all_simple_paths(G,s2,d2))
    exists=any(not (und_edges(p)&und_edges(q)) for p in P1 for q in P2)
    tot+=1
    try:
        oms_list, pths, rpths, rqs, dsjn, result = planning(net, eq, data)
        seqs=[roadm_seq(p) for p in pths]
        if und_edges(seqs[0]) & und_edges(seqs[1]):
            print(trial,'OVERLAP',seqs); bad+=1
        if not exists: print(trial,'returned though none exists?',seqs); bad+=1
    except DisjunctionError as e:
        nerr+=1
        if exists: print(trial,'DisjunctionError but disjoint pair exists',(s1,d1),(s2,d2)); bad+=1
    except Exception as e:
        print(trial,'ERR',type(e).__name__,e)
print('total',tot,'bad',bad,'disjunction errors',nerr)
