import logging; logging.disable(logging.CRITICAL)
import random, itertools
from mknet import *
import networkx as nx
from gnpy.core import elements as E
from gnpy.tools.worker_utils import planning
from gnpy.topology.request import compute_path_dsjctn
from gnpy.core.exceptions import DisjunctionError
eq0 = load_equipment(EX/'eqpt_config.json')

def mesh(rnd, n, extra):
    names=[f'N{i}' for i in range(n)]
    els=[];cx=[]
    for s in names:
        els.append({"uid":f"trx {s}","type":"Transceiver","metadata":loc()})
        els.append({"uid":f"roadm {s}","type":"Roadm","metadata":loc()})
        cx += [{"from_node":f"trx {s}","to_node":f"roadm {s}"},{"from_node":f"roadm {s}","to_node":f"trx {s}"}]
    # random connected graph: spanning tree + extra edges
    edges=set()
    order=names[:]; rnd.shuffle(order)
    for i in range(1,n):
        a=order[i]; b=order[rnd.randrange(i)]
        edges.add(tuple(sorted((a,b))))
    allp=[tuple(sorted(p)) for p in itertools.combinations(names,2)]
    rnd.shuffle(allp)
    for p in allp:
        if len(edges)>=n-1+extra: break
        edges.add(p)
    lens={}
    for (a,b) in sorted(edges):
        L=rnd.choice([20,30,40,50,60,70,80,90,100,110,120])
        lens[(a,b)]=L
        for (x,y) in ((a,b),(b,a)):
            uid=f'fiber ({x} -> {y})'
            els.append({"uid":uid,"type":"Fiber","type_variety":"SSMF","params":{"length":L,"length_units":"km","loss_coef":0.2,"con_in":None,"con_out":None},"metadata":loc()})
            cx += [{"from_node":f"roadm {x}","to_node":uid},{"from_node":uid,"to_node":f"roadm {y}"}]
    return {"elements":els,"connections":cx}, names, lens

def req_json(rid, s, d, include=None, strict=True, bidir=False):
    r={"request-id":rid,"source":f"trx {s}","destination":f"trx {d}","src-tp-id":f"trx {s}","dst-tp-id":f"trx {d}","bidirectional":bidir,
       "path-constraints":{"te-bandwidth":{"technology":"flexi-grid","trx_type":"Voyager","trx_mode":"mode 1","effective-freq-slot":[{"N":None,"M":None}],"spacing":50e9,"path_bandwidth":100e9}}}
    if include:
        r["explicit-route-objects"]={"route-object-include-exclude":[{"explicit-route-usage":"route-include-ero","index":i,"num-unnum-hop":{"node-id":n,"link-tp-id":"x","hop-type":"STRICT" if strict else "LOOSE"}} for i,n in enumerate(include)]}
    return r

def roadm_seq(path): return [e.uid[6:] for e in path if isinstance(e,E.Roadm)]
def plen(seq,lens): return sum(lens[tuple(sorted((a,b)))] for a,b in zip(seq,seq[1:]))

rnd=random.Random(3)
bad=0; tot=0
for trial in range(25):
    n=rnd.randint(3,7); topo,names,lens=mesh(rnd,n,rnd.randint(0,4))
    eq=copy.deepcopy(eq0)
    net=network_from_json(copy.deepcopy(topo),eq)
    net,_,_=designed_network(eq,net)
    G=nx.Graph(); 
    for (a,b),L in lens.items(): G.add_edge(a,b,w=L)
    reqs=[]; meta=[]
    for k in range(6):
        s,d=rnd.sample(names,2)
        inc=None
        if rnd.random()<0.5:
            mid=rnd.choice([x for x in names if x not in (s,d)]) if n>2 else None
            inc=[f'roadm {mid}'] if mid else None
        strict=rnd.random()<0.5
        reqs.append(req_json(str(k),s,d,inc,strict)); meta.append((s,d,inc,strict))
    data={"path-request":reqs}
    try:
        oms_list, pths, rpths, rqs, dsjn, result = planning(net, eq, data)
    except Exception as e:
        print('ERR',type(e).__name__,e); continue
    for p,rq in zip(pths,rqs):
        s,d,inc,strict = meta[int(rq.request_id.split(' | ')[0])]
        tot+=1
        # brute-force
        allsp=list(nx.all_simple_paths(G,s,d))
        mid = inc[0][6:] if inc else None
        valid=[q for q in allsp if (mid is None or mid in q)]
        if p:
            seq=roadm_seq(p)
            uids=[e.uid for e in p]
            if len(set(uids))!=len(uids): print('LOOP',uids); bad+=1
            if mid and mid not in seq:
                if strict or valid: print(trial,'constraint not honoured',s,d,mid,strict,seq); bad+=1
                else:
                    best=min(plen(q,lens) for q in allsp)
                    if plen(seq,lens)!=best: print(trial,'loose fallback not shortest'); bad+=1
            else:
                best=min(plen(q,lens) for q in valid)
                if plen(seq,lens)!=best: print(trial,'NOT SHORTEST',s,d,mid,seq,plen(seq,lens),best); bad+=1
        else:
            if valid or (not strict): print(trial,'blocked but path exists',s,d,mid,strict,getattr(rq,'blocking_reason',None),len(valid)); bad+=1
print('total',tot,'bad',bad)
