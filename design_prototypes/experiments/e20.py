import logging; logging.disable(logging.CRITICAL)
from mknet import *
import numpy as np, random
from gnpy.tools.json_io import load_network
from gnpy.topology.request import compute_constrained_path, filter_si
from gnpy.core.info import create_input_spectral_information, create_arbitrary_spectral_information
from gnpy.core import elements as E
from gnpy.core.parameters import SimParams
from gnpy.core.utils import lin2db
def walk(path, si, eq, label):
    p=copy.deepcopy(path); cur=filter_si(p,eq,si); worst=0; bad=0
    prev=None
    for i,el in enumerate(p):
        before=(cur._signal_ratio.copy(),cur._ase_ratio.copy(),cur._nli_ratio.copy(),cur.frequency.copy())
        if isinstance(el,E.Roadm): cur=el(cur,degree=p[i+1].uid,from_degree=p[i-1].uid)
        else: cur=el(cur)
        s,a,n=cur._signal_ratio,cur._ase_ratio,cur._nli_ratio
        worst=max(worst,np.max(np.abs(s+a+n-1)))
        if (s<0).any() or (a<0).any() or (n<0).any() or (s>1).any(): print(label,'share out of range at',el.uid); bad+=1
        if len(before[3])==len(cur.frequency):
            with np.errstate(divide='ignore',invalid='ignore'):
                g0=before[0]/(before[1]+before[2]); g1=s/(a+n)
                o0=before[0]/before[1]; o1=s/a
                l0=before[0]/before[2]; l1=s/n
            tol=1e-12
            if (g1>g0*(1+tol)).any(): print(label,'GSNR improved at',type(el).__name__,el.uid); bad+=1
            if (o1>o0*(1+tol)).any(): print(label,'OSNR improved at',type(el).__name__,el.uid); bad+=1
            if (l1>l0*(1+tol)).any(): print(label,'SNRnli improved at',type(el).__name__,el.uid); bad+=1
            if isinstance(el,(E.Roadm,E.Fused)):
                if not (np.array_equal(before[0],s) and np.array_equal(before[1],a) and np.array_equal(before[2],n)): print(label,'passive changed ratios',el.uid); bad+=1
            if isinstance(el,E.Edfa) and not np.allclose(l0,l1,rtol=1e-12,equal_nan=True): print(label,'edfa changed snr_nli',el.uid); bad+=1
            if type(el) is E.Fiber and not np.allclose(o0,o1,rtol=1e-12,equal_nan=True): print(label,'fiber changed osnr',el.uid); bad+=1
    t=p[-1]
    ident=np.max(np.abs(10**(-t.snr/10) - 10**(-t.osnr_ase/10) - 10**(-t.osnr_nli/10)) / 10**(-t.snr/10))
    return worst,bad,ident
rnd=random.Random(9)
for (eqf,netf,simp) in [('eqpt_config.json','meshTopologyExampleV2.json',None),('eqpt_config.json','raman_edfa_example_network.json','sim_params.json'),('eqpt_config_openroadm_ver5.json','Sweden_OpenROADMv5_example_network.json',None)]:
    eq=load_equipment(EX/eqf)
    SimParams.set_params({'raman_params':{'flag':True,'result_spatial_resolution':10e3,'solver_spatial_resolution':50},'nli_params':{'method':'gn_model_analytic'}} if simp else {})
    net=load_network(EX/netf,eq)
    trx=[n.uid for n in net.nodes() if isinstance(n,E.Transceiver)]
    net,req,ref=designed_network(eq,net,source=trx[0],destination=trx[-1])
    path=compute_constrained_path(net,req)
    n=rnd.randint(2,30)
    f0=192.0e12; fr=[];sw=[];br=[];pw=[]
    f=f0
    for i in range(n):
        s=rnd.choice([50e9,75e9,100e9]); b=rnd.choice([32e9,45e9]) if s<75e9 else rnd.choice([32e9,64e9])
        f+=s/2; fr.append(f); f+=s/2+rnd.choice([0,25e9]); sw.append(s); br.append(b); pw.append(1e-3*10**(rnd.uniform(-5,8)/10))
    si=create_arbitrary_spectral_information(fr,pw,br,tx_osnr=40,slot_width=sw,roll_off=0.15,tx_power=pw,label='x')
    print(netf, len(path), walk(path,si,eq,netf))
SimParams.set_params({})
