import copy, logging
logging.disable(logging.CRITICAL)
from gnpy.tools.json_io import _equipment_from_json
from gnpy.tools.default_edfa_config import DEFAULT_EXTRA_CONFIG
d = {"Transceiver":[{"type_variety":"T0","other_name":["A","B"],"frequency":{"min":191.35e12,"max":196.1e12},
 "mode":[{"format":"m1","baud_rate":32e9,"OSNR":11,"bit_rate":100e9,"roll_off":0.15,"tx_osnr":40,"min_spacing":37.5e9,"cost":1}]}]}
eq = _equipment_from_json(copy.deepcopy(d), DEFAULT_EXTRA_CONFIG)
for k,v in eq['Transceiver'].items():
    print(k, '->', v.type_variety)
