#!/venv/bin/python
"""Developer tool (not a MANIFEST command): run the registered checks against the seeded property-breaking changes kept
under seeded/<property>/<name>/ (patch.diff, demo.py, meta.json).

  tools/seeded.py [--tier quick|thorough] [--tests] [--only C06[/name]] [--inplace]

For every seeded change: a scratch git worktree of /repo is created outside /repo and /verif, the patch is applied
there, the demo is run on the original tree (must PASS) and on the changed tree (must FAIL), optionally the repository's
test-suite is run on the changed tree (--tests), and `./check <property> <tier>` is run with PYTHONPATH pointing to the
changed tree (so `import gnpy` resolves to it and /repo itself stays untouched; --inplace applies the patch to /repo
itself instead, as the task brief describes, and undoes it straight afterwards). The worktree and every replay written
are removed afterwards. Results are printed and written to seeded/RESULTS.json.
"""
import argparse
import glob
import json
import os
import shutil
import subprocess
import sys
import tempfile

VERIF = os.path.dirname(os.path.dirname(os.path.abspath(__file__)))
REPO = '/repo'
KNOWN_FAIL = ['test_conversion_xls', 'test_run_wrapper[gnpy-path-request]', 'test_run_wrapper[gnpy-transmission-example]',
              'test_auto_design_generation_fromjson[json_input0-False]',
              'test_auto_design_generation_fromxlsgainmode[xls_input0-expected_json_output0]',
              'test_commit_authors_in_author_rst']


def sh(cmd, cwd=None, env=None, timeout=3600):
    p = subprocess.run(cmd, cwd=cwd, env=env, capture_output=True, text=True, timeout=timeout)
    return p.returncode, p.stdout + p.stderr


def main():
    ap = argparse.ArgumentParser()
    ap.add_argument('--tier', default='quick')
    ap.add_argument('--tests', action='store_true')
    ap.add_argument('--only', default=None)
    ap.add_argument('--inplace', action='store_true')
    ap.add_argument('--seed', default='0')
    a = ap.parse_args()
    results = {}
    dirs = sorted(glob.glob(os.path.join(VERIF, 'seeded', 'C*', '*', 'patch.diff')))
    for pf in dirs:
        d = os.path.dirname(pf)
        pid = os.path.basename(os.path.dirname(d))
        name = os.path.basename(d)
        key = f'{pid}/{name}'
        if a.only and not key.startswith(a.only):
            continue
        meta = json.load(open(os.path.join(d, 'meta.json')))
        props = meta.get('checked_by', [pid])
        scratch = tempfile.mkdtemp(prefix='seedrun_', dir=os.environ.get('TMPDIR', '/tmp'))
        wt = os.path.join(scratch, 'repo')
        r = {'property': pid, 'name': name}
        try:
            rc, out = sh(['git', '-C', REPO, 'worktree', 'add', '--detach', wt, 'HEAD'])
            if rc:
                r['error'] = 'worktree: ' + out[-300:]
                continue
            env0 = dict(os.environ, PYTHONPATH=wt, PYTHONDONTWRITEBYTECODE='1')
            demo = os.path.join(d, 'demo.py')
            rc0, o0 = sh(['/venv/bin/python', demo], cwd=wt, env=env0, timeout=1200)
            r['demo_original'] = 'PASS' if rc0 == 0 else f'FAIL({rc0})'
            rc, out = sh(['git', 'apply', pf], cwd=wt)
            if rc:
                r['error'] = 'patch does not apply: ' + out[-300:]
                continue
            rc1, o1 = sh(['/venv/bin/python', demo], cwd=wt, env=env0, timeout=1200)
            r['demo_changed'] = 'PASS' if rc1 == 0 else f'FAIL({rc1})'
            if a.tests:
                rc, out = sh(['/venv/bin/python', '-m', 'pytest', '-q', '-p', 'no:cacheprovider', '--timeout=900', '-n', '8'],
                             cwd=wt, env=env0, timeout=3600)
                failed = [line for line in out.splitlines() if line.startswith('FAILED') or line.startswith('ERROR')]
                new = [f for f in failed if not any(k in f for k in KNOWN_FAIL)]
                r['tests_new_failures'] = new
                r['tests_tail'] = out.strip().splitlines()[-1] if out.strip() else ''
            if a.inplace:
                sh(['git', '-C', REPO, 'apply', pf])
                env1 = dict(os.environ, PYTHONDONTWRITEBYTECODE='1', VERIF_SEED=a.seed)
            else:
                env1 = dict(env0, VERIF_SEED=a.seed)
            r['checks'] = {}
            try:
                for p in props:
                    rep = os.path.join(VERIF, 'replays', p)
                    before = set(os.listdir(rep)) if os.path.isdir(rep) else set()
                    ev = os.path.join(VERIF, 'evidence', f'{p}.json')
                    ev_backup = open(ev).read() if os.path.exists(ev) else None
                    rc, out = sh([os.path.join(VERIF, 'check'), p, a.tier], cwd=VERIF, env=env1, timeout=7200)
                    lines = [line for line in out.splitlines() if line.startswith(('VIOLATION', 'KNOWN-FINDING', 'MACHINERY'))]
                    r['checks'][p] = {'exit': rc, 'lines': lines, 'summary': out.strip().splitlines()[-1] if out.strip() else ''}
                    if os.path.isdir(rep):
                        for f in set(os.listdir(rep)) - before:
                            os.unlink(os.path.join(rep, f))
                        if not os.listdir(rep):
                            os.rmdir(rep)
                    if ev_backup is not None:   # evidence must come from the real tree, not from a seeded run
                        open(ev, 'w').write(ev_backup)
            finally:
                if a.inplace:
                    sh(['git', '-C', REPO, 'checkout', '--', '.'])
            r['caught'] = any(c['exit'] == 1 and any(line.startswith('VIOLATION') for line in c['lines'])
                              for c in r['checks'].values())
            r['caught_with_input'] = any(c['exit'] == 1 and any(line.startswith('VIOLATION') and
                                                                 'no-failing-input-found' not in line
                                                                 for line in c['lines']) for c in r['checks'].values())
        finally:
            sh(['git', '-C', REPO, 'worktree', 'remove', '--force', wt])
            shutil.rmtree(scratch, ignore_errors=True)
            results[key] = r
            print(key, json.dumps({k: v for k, v in r.items() if k not in ('tests_tail',)}, default=str), flush=True)
    out = os.path.join(VERIF, 'seeded', f'RESULTS_{a.tier}.json')
    import fcntl
    lock = open(out + '.lock', 'w')       # several invocations may run side by side
    fcntl.flock(lock, fcntl.LOCK_EX)
    old = json.load(open(out)) if os.path.exists(out) else {}
    for k, r in results.items():
        prev = old.get(k, {})
        for keep in ('tests_new_failures', 'tests_tail'):   # keep the suite verdict of an earlier --tests run
            if keep not in r and keep in prev:
                r[keep] = prev[keep]
        old[k] = r
    with open(out, 'w') as fh:
        json.dump(old, fh, indent=1)
    missed = [k for k, r in results.items() if not r.get('caught')]
    print(f'{len(results) - len(missed)}/{len(results)} seeded changes caught; missed: {missed}')


if __name__ == '__main__':
    sys.exit(main())
