#!/venv/bin/python
"""Regenerates /verif/MANIFEST.json from the property modules that exist (harness/props/cNN.py).

Each module may define MANIFEST = {'text':..., 'note':..., 'technique':..., 'design_ref':...}; properties without a
module are listed under not_applicable with the reason given in NOT_BUILT below (kept current by hand)."""
import glob
import importlib
import json
import os
import sys

VERIF = os.path.dirname(os.path.dirname(os.path.abspath(__file__)))
sys.path.insert(0, os.path.join(VERIF, 'harness'))

BASELINE = ('cd /repo && /venv/bin/python -m pytest -ra -q -p no:cacheprovider --timeout=900 '
            '--continue-on-collection-errors')

DEFAULT_NOTE = ('Trusted base: Lean 4.33 kernel (+ leanchecker in the thorough tier), Mathlib v4.33, axioms propext/'
                'Classical.choice/Quot.sound only (audited per theorem on every run; no sorry/native_decide/bv_decide/own '
                'axioms). The Lean model is hand-written; it is tied to /repo by the correspondence check of each run '
                '(seeded differential execution of model driver vs real gnpy objects, distribution in the evidence '
                'file). Theorems are over R / Int / List; binary64 rounding is absorbed by a 1e-9 relative tolerance and '
                'not proved.')

NOT_BUILT = {}


def main():
    props = [json.loads(line) for line in open(os.path.join(VERIF, 'properties.jsonl'))]
    checks, na, served = [], [], []
    for p in props:
        pid = p['id']
        path = os.path.join(VERIF, 'harness', 'props', pid.lower() + '.py')
        if not os.path.exists(path):
            na.append({'property_id': pid, 'reason': NOT_BUILT.get(
                pid, 'not claimed in this revision: the Lean model/proofs/correspondence for this property are not '
                     'built yet (the technique applies, see DESIGN.md section 5); no other technique is substituted')})
            continue
        m = importlib.import_module('props.' + pid.lower())
        mf = getattr(m, 'MANIFEST', {})
        served.append(pid)
        checks.append({
            'property_id': pid,
            'quick_cmd': f'./check {pid} quick',
            'thorough_cmd': f'./check {pid} thorough',
            'evidence_file': f'evidence/{pid}.json',
            'replay_cmd_template': f'./check {pid} --replay {{path}}',
            'engine': 'lean4-model+correspondence',
            'level_claimed': {
                'category': 'proof',
                'text': mf.get('text', f'{len(m.THEOREMS)} Lean 4 theorems state the property over an executable model '
                                       'for all inputs; the model is tied to the code by a differential correspondence '
                                       'check and a property monitor on the real implementation on every run.'),
                'design_ref': mf.get('design_ref', f'DESIGN.md section 5, {pid}'),
            },
            'level_note': mf.get('note', DEFAULT_NOTE) + (' Partial statements: ' + '; '.join(m.PARTIAL)
                                                           if getattr(m, 'PARTIAL', None) else ''),
            'technique': mf.get('technique', 'Lean 4 theorems over a hand-written executable model + differential '
                                             'correspondence check against the real code'),
        })
    man = {
        'version': 1,
        'setup_cmd': './setup.sh',
        'hooks': {
            'guard': 'GNPY_VERIF',
            'enable': 'no source hooks exist: observations are taken by wrapping methods at run time inside the harness '
                      'process; GNPY_VERIF=1 is exported by the harness but read by nothing in /repo',
            'baseline_off_cmd': BASELINE,
            'source_commits': [],
            'add_only': True,
        },
        'engines': [{
            'name': 'lean4-model+correspondence',
            'path': 'lean/ (GnpyModel, GnpyProofs, gnpydriver) + harness/ (vcheck.py, props/)',
            'serves_properties': served,
            'kind_free_text': 'Lean 4 theorems about a hand-written executable model; the model is run as a compiled '
                              'driver and compared with the real gnpy code on generated cases (correspondence), '
                              'together with a property monitor on the implementation (failing-input search)',
        }],
        'checks': checks,
        'not_applicable': na,
        'notes': 'fix: commits in /repo and open findings are listed in known_findings.txt; see DESIGN.md sections 6 '
                 'and 11. Exit codes: 0 held / only listed findings, 1 VIOLATION line, 2 machinery failure.',
    }
    with open(os.path.join(VERIF, 'MANIFEST.json'), 'w') as fh:
        json.dump(man, fh, indent=1)
    print(f'MANIFEST.json: {len(checks)} checks, {len(na)} not claimed')


if __name__ == '__main__':
    main()
