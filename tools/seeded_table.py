#!/venv/bin/python
"""Prints the markdown table of DESIGN.md section 11.4 from seeded/*/*/meta.json and seeded/RESULTS_quick.json."""
import glob
import json
import os

VERIF = os.path.dirname(os.path.dirname(os.path.abspath(__file__)))


def short(s, n):
    s = ' '.join(str(s).split())
    return s if len(s) <= n else s[:n - 1] + '…'


def main():
    res = json.load(open(os.path.join(VERIF, 'seeded', 'RESULTS_quick.json')))
    rows = []
    for mf in sorted(glob.glob(os.path.join(VERIF, 'seeded', 'C*', '*', 'meta.json'))):
        d = os.path.dirname(mf)
        pid = os.path.basename(os.path.dirname(d))
        name = os.path.basename(d)
        meta = json.load(open(mf))
        r = res.get(f'{pid}/{name}', {})
        by = [p for p, c in r.get('checks', {}).items() if c.get('exit') == 1 and
              any(line.startswith('VIOLATION') for line in c.get('lines', []))]
        how = 'monitor + correspondence (failing input)' if r.get('caught_with_input') else \
            ('correspondence only (no-failing-input-found)' if r.get('caught') else 'MISSED')
        rows.append((pid, name, short(meta.get('title') or meta.get('what_breaks', ''), 150),
                     short(meta.get('needs_to_manifest', ''), 170), ', '.join(by) or '-', how))
    print('| prop | seeded change | mechanism | needs to manifest | caught by | how |')
    print('|------|---------------|-----------|-------------------|-----------|-----|')
    for row in rows:
        print('| ' + ' | '.join(x.replace('|', '/') for x in row) + ' |')
    n = len(rows)
    c = sum(1 for row in rows if row[5] != 'MISSED')
    print(f'\n{c} of {n} seeded changes are reported by `./check <prop> quick` (seed 0).')


if __name__ == '__main__':
    main()
